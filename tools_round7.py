"""Completes seeded/<id>-r7m*/meta.json of round 7 from the logs of the confirmation runs (first-run verdicts) and the
table R below (dimension added afterwards), and prints the DESIGN.md table (11.9)."""
import json
import os
import sys

HERE = os.path.dirname(os.path.abspath(__file__))
SEEDED = os.path.join(HERE, "seeded")

# id -> (first-run verdict of the then-registered check, dimension added afterwards / who else detects it)
R = {
    "C01-r7m1": ("detected", "-"),
    "C01-r7m2": ("missed", "C01 plane inplace: one operator object, every tensor of the operator scaled in place by the caller between two solves (second solve also under no_grad), 8 / 14 operator kinds x direct and Krylov methods"),
    "C02-r7m1": ("detected", "-"),
    "C02-r7m2": ("missed", "C02 graph history prior_plain: a plain backward pass (retain_graph) over the same graph before the recording pass that is judged at second order"),
    "C03-r7m1": ('missed', "C03 units plane: the unknown in units of 2^-14 in single precision (g'(y') = s g(y'/s)): requested absolute tolerances 1e-4 s / 1e-3 s lie below the machine epsilon of the dtype and are attainable all the same; all root-finding and fixed-point methods"),
    "C03-r7m2": ("detected", "-"),
    "C04-r7m1": ("detected", "-"),
    "C04-r7m2": ('missed by C04, detected by C11 (adjoint consistency of composed operators in complex128)', '- (the change sits in AdjointLinearOperator._rmv, anchored in C11; C04 does not enumerate complex unknowns with bck_options method cg: NOT covered by C04 itself)'),
    "C05-r7m1": ("missed", "C05 davidson option max_addition in {1, neig, neig + 2}, also on the new spectrum class edge (outermost pair far outside, interior compressed: the outermost pair converges long before the others)"),
    "C05-r7m2": ("missed", "C05 svd of the same operator in other units (whole operator times 1e-8 / 1e7), singular values judged relative to the factor"),
    "C06-r7m1": ('missed by C06, detected by C01 (batch plane: shifts with two non-trivial batch dimensions through the Krylov methods)', "- (the change sits in _setup_linear_problem of the linear solvers, anchored in C01; C06's implicit backward with an iterative solver and doubly batched eigenvalues is NOT enumerated by C06 itself)"),
    "C06-r7m2": ("detected", "-"),
    "C07-r7m1": ("missed", "C07 plane cplx: complex state (non-normal complex linear system), adaptive methods against the matrix exponential, fixed-step methods against the textbook tableau in complex arithmetic"),
    "C07-r7m2": ("missed", "C07 plane tol0: rtol or atol given as exactly 0 / 0.0 in the forward options (purely absolute request on |y| ~ 1, purely relative request on |y| ~ 1e-12)"),
    "C08-r7m1": ("missed", "C08 block [I] graph history prior_plain: plain backward (retain_graph) first, then the recording pass that is judged, every requires-grad subset"),
    "C08-r7m2": ("missed", "NOT YET COVERED: right-hand side whose autograd graph differs between evaluations (Python branch on t), smaller graph at the end of the time span"),
    "C09-r7m1": ("detected", "-"), "C09-r7m2": ("detected", "-"),
    "C10-r7m1": ('missed', 'C10 re-assignment search with inside=True: the backward pass (after the owner re-assigned an attribute) runs while a substitution of an unrelated PureFunction wrapper is active (nested use, e.g. inside the function evaluation of an outer functional)'),
    "C10-r7m2": ('missed', 'C09 / C10 kind multi_em2_em: sibling of two objects whose FIRST parent declares two names for one tensor (crash search, protocol search and re-assignment search)'),
    "C11-r7m1": ("detected", "-"),
    "C11-r7m2": ("missed", "C11: the left scalar factor is 0.3 (not representable in single precision) instead of the dyadic 0.5"),
    "C12-r7m1": ("detected", "-"), "C12-r7m2": ("detected", "-"),
    "C13-r7m1": ("detected", "-"),
    "C13-r7m2": ("missed by C13 (the change sits in PureFunction.useobjparams, shared by every functional)", "- (C10's crash-point enumeration is the check for it; see the cross-check column)"),
    "C14-r7m1": ("detected", "-"),
    "C14-r7m2": ("missed", "C14 gradient query sets gK / gKs: queries bitwise equal to interior sample positions of a cubic spline (more and fewer queries than samples), derivative w.r.t. the queries"),
    "C15-r7m1": ("detected", "-"), "C15-r7m2": ("detected", "-"),
    "C16-r7m1": ('missed', "C16 block D'': mh on states of several components (shapes (3,), (2, 2), (1, 4)); deterministic necessary condition: the increments of the collected states span the state space once d + 2 distinct states exist"),
    "C16-r7m2": ("detected", "-"),
    "C17-r7m1": ("detected", "-"),
    "C17-r7m2": ('missed', 'C17 kind nn_hook: the torch.nn.Module object itself is the callable and a forward hook post-processes its output (jac / hess must differentiate net(x), hooks included)'),
    "C18-r7m1": ("missed by C18, detected by C08", "- (the change sits in solve_ivp's backward, which every method of C18's pairwise comparison shares)"),
    "C18-r7m2": ('missed by C18, detected by C14 (in-place history plane: one object, sample buffers of different batch shape)', '- (the change sits in Interp1D.__call__, anchored in C14)'),
    "C19-r7m1": ('missed', 'C19 variant nondiff: one parameter (or the initial state) is a tensor that does not require grad; quad, rootfinder, equilibrium, minimize, solve_ivp, mcquad'),
    "C19-r7m2": ("missed by C19 (bounded retention: one extra tensor after a failed call, no growth)", "- (same change as C13-r7m2; C10's crash-point enumeration is the check for it)"),
    "C20-r7m1": ('missed', 'C20 shared-container cases: a list / dict / object holding one tensor referenced from two places of a list / dict / object and followed by 1 or 2 further tensors; every later slot must hold the tensor supplied for its position (unique and non-unique, list and flat interface)'),
    "C20-r7m2": ('missed', 'C20 scripted reshape histories: one Packer used before and after the shape of a packed tensor is changed in place (t_(), unsqueeze_(), .data assignment): the second listing, construction with the new shapes, rejection of the old shapes; 4 structures x unique x interface x alias'),
}


def main():
    logs = sys.argv[1] if len(sys.argv) > 1 else "/var/tmp/r7logs"
    rows = {}
    final = {}
    if os.path.isdir(logs):
        names = sorted(os.listdir(logs), key=lambda f: (not (f.startswith("s") and f[1:2].isdigit()), os.path.getmtime(os.path.join(logs, f))))
        for fn in names:
            if not fn.endswith(".log"):
                continue
            for line in open(os.path.join(logs, fn)):
                try:
                    r = json.loads(line)
                except Exception:
                    continue
                if fn.startswith("s") and fn[1:2].isdigit():
                    rows[r["id"]] = r
                final.setdefault(r["id"], {}).update(r.get("checks", {}))
    res_path = os.path.join(SEEDED, "RESULTS.json")
    old = json.load(open(res_path))
    for sid, (first, added) in sorted(R.items()):
        d = os.path.join(SEEDED, sid)
        meta = json.load(open(os.path.join(d, "meta.json")))
        meta["first_run_verdict_of_the_registered_check"] = first
        meta["strengthening_made_afterwards"] = added
        meta["ran"] = ("tools_seeded.py --suite: export of /repo HEAD + git apply patch.diff in a scratch copy under /var/tmp; demo.py on "
                       "the clean copy (passes) and on the changed copy (fails); repository suite on the changed copy (no additional "
                       "failures besides the scipy_gmres baseline failure; test_ivp_speed re-run alone when it fails under load); quick "
                       "check(s) with XITORCH_REPO pointing at the changed copy; scratch copy removed afterwards")
        if sid in rows:
            r = dict(rows[sid])
            r["checks"] = final.get(sid, r.get("checks", {}))
            r["tier"] = "quick"
            meta["result"] = r
            old[sid] = r
        json.dump(meta, open(os.path.join(d, "meta.json"), "w"), indent=1)
    json.dump(old, open(res_path, "w"), indent=1, sort_keys=True)
    print("| id | first run of the registered check | dimension added afterwards | verdicts of the quick checks now |")
    print("|---|---|---|---|")
    for sid, (first, added) in sorted(R.items()):
        ch = old.get(sid, {}).get("checks", {})
        print("| %s | %s | %s | %s |" % (sid, first, added, "; ".join("%s: %s" % kv for kv in sorted(ch.items()))))


if __name__ == "__main__":
    main()
