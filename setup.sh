#!/bin/bash
# Offline setup: nothing to build (xitorch is imported from /repo's working tree).
# Verifies the interpreter, that xitorch imports, and that MANIFEST.json validates.
cd "$(dirname "$0")"
set -e
PYTHONPATH="${XITORCH_REPO:-/repo}:$(pwd)" PYTHONDONTWRITEBYTECODE=1 /venv/bin/python -W ignore -c "import torch, xitorch, mc.core; print('torch', torch.__version__, 'xitorch ok')"
if command -v python3-vt >/dev/null; then
python3-vt - <<'PY'
import json, jsonschema, glob
m = json.load(open('MANIFEST.json'))
jsonschema.validate(m, json.load(open('/root/.vp/MANIFEST.schema.json'))) if __import__('os').path.exists('/root/.vp/MANIFEST.schema.json') else None
print('manifest ok: %d checks' % len(m['checks']))
PY
fi
mkdir -p evidence replays
echo setup done
