"""Run the registered checks against every seeded change in /verif/seeded/<id>/.

For each seeded change: export /repo HEAD to a scratch copy under /var/tmp, `git apply` patch.diff there,
run the demonstration (must FAIL with the change), run the quick check of the property it breaks with
XITORCH_REPO pointing at the copy (must exit 1 with a VIOLATION line), remove the copy.
(Equivalent to `git -C /repo apply` + check + `git -C /repo checkout -- .`, without touching /repo while
other work is running.)

usage: /venv/bin/python tools_seeded.py [ids...] [--tier quick] [--all-checks] [--seeds 0,1]
Writes seeded/RESULTS.md.
"""
import json
import os
import subprocess
import sys
import shutil
import time

HERE = os.path.dirname(os.path.abspath(__file__))
SEEDED = os.path.join(HERE, "seeded")


def sh(cmd, cwd=None, env=None, timeout=3600):
    p = subprocess.run(cmd, shell=True, cwd=cwd, env=env, stdout=subprocess.PIPE, stderr=subprocess.STDOUT,
                       text=True, timeout=timeout)
    return p.returncode, p.stdout


def main():
    args = [a for a in sys.argv[1:] if not a.startswith("--")]
    tier = "quick"
    seeds = ["0"]
    if "--tier" in sys.argv:
        tier = sys.argv[sys.argv.index("--tier") + 1]
        args = [a for a in args if a != tier]
    if "--seeds" in sys.argv:
        sv = sys.argv[sys.argv.index("--seeds") + 1]
        seeds = sv.split(",")
        args = [a for a in args if a != sv]
    ids = args or sorted(d for d in os.listdir(SEEDED) if os.path.isdir(os.path.join(SEEDED, d)))
    rows = []
    for sid in ids:
        d = os.path.join(SEEDED, sid)
        meta = json.load(open(os.path.join(d, "meta.json")))
        prop = meta["property"]
        scratch = "/var/tmp/xv-seed-%s-%d" % (sid, os.getpid())
        shutil.rmtree(scratch, ignore_errors=True)
        os.makedirs(scratch)
        sh("git -C /repo archive HEAD | tar -x -C %s" % scratch)
        rc, out = sh("git init -q . && git apply --whitespace=nowarn %s" % os.path.join(d, "patch.diff"), cwd=scratch)
        if rc != 0:
            rows.append((sid, prop, "PATCH-DOES-NOT-APPLY", "", out.strip()[-200:]))
            shutil.rmtree(scratch, ignore_errors=True)
            continue
        env = dict(os.environ, PYTHONPATH=scratch, PYTHONDONTWRITEBYTECODE="1", OMP_NUM_THREADS="1")
        demo = meta.get("demo_cmd", "/venv/bin/python -W ignore demo.py")
        rc_demo, out_demo = sh(demo, cwd=d, env=env)
        demo_v = "fails-with-change" if rc_demo != 0 else "DEMO-PASSES-WITH-CHANGE"
        verdicts = []
        first = ""
        for sd in seeds:
            env2 = dict(os.environ, XITORCH_REPO=scratch, VERIF_SEED=sd)
            t0 = time.time()
            rc, out = sh("./check %s --tier %s" % (prop, tier), cwd=HERE, env=env2, timeout=7200)
            vl = [l for l in out.splitlines() if l.startswith("VIOLATION")]
            verdicts.append("seed%s:%s(%d lines,%.0fs)" % (sd, "DETECTED" if rc == 1 and vl else ("exit%d" % rc), len(vl), time.time() - t0))
            if vl and not first:
                first = vl[0].split("#", 1)[-1].strip()[:120]
        rows.append((sid, prop, demo_v, " ".join(verdicts), first))
        shutil.rmtree(scratch, ignore_errors=True)
        print(rows[-1], flush=True)
    # merge with existing results
    res_path = os.path.join(SEEDED, "RESULTS.md")
    old = {}
    if os.path.exists(res_path):
        for l in open(res_path):
            if l.startswith("| ") and not l.startswith("| id") and not l.startswith("| --"):
                c = [x.strip() for x in l.strip().strip("|").split("|")]
                old[c[0]] = c
    for r in rows:
        old[r[0]] = list(r)
    with open(res_path, "w") as f:
        f.write("# Seeded changes vs checks (written by tools_seeded.py; tier=%s)\n\n" % tier)
        f.write("| id | property | demonstration | check verdict | first violation class |\n|---|---|---|---|---|\n")
        for k in sorted(old):
            f.write("| " + " | ".join(str(x).replace("|", "/") for x in old[k]) + " |\n")


if __name__ == "__main__":
    main()
