"""Seeded property-breaking changes: confirm them and run the registered checks against them.

Layout: /verif/seeded/<id>/{patch.diff, demo.py, meta.json}.  meta.json: {"property": "C07", "needs": "...",
"what": "...", "ran": "..."}.

For each seeded change:
  * export /repo HEAD to a scratch copy under /var/tmp (never touches /repo), run the demonstration on the clean
    copy (must PASS), `git apply` patch.diff, run the demonstration again (must FAIL);
  * with --suite: run the repository's own test suite on the changed copy and compare with the clean tree's known
    failures (must add none);
  * run the quick (or --tier thorough) check of the property it breaks (and with --also C02,C09 further checks)
    with XITORCH_REPO pointing at the copy: must exit 1 with a VIOLATION line;
  * remove the copy.
(Equivalent to `git -C /repo apply` + check + `git -C /repo checkout -- .`, without touching /repo while other
work is running.)

usage: /venv/bin/python tools_seeded.py [ids...] [--tier quick] [--suite] [--seeds 0,1] [--also C02,C09] [--jobs 1]
Writes/merges seeded/RESULTS.md.
"""
import json
import os
import subprocess
import sys
import shutil
import time

HERE = os.path.dirname(os.path.abspath(__file__))
SEEDED = os.path.join(HERE, "seeded")
BASE_FAIL = {"xitorch/_tests/test_linop_fcns.py::test_solve_A_methods[dtype0-device0-scipy_gmres]"}


def sh(cmd, cwd=None, env=None, timeout=7200):
    p = subprocess.run(cmd, shell=True, cwd=cwd, env=env, stdout=subprocess.PIPE, stderr=subprocess.STDOUT,
                       text=True, timeout=timeout)
    return p.returncode, p.stdout


def opt(name, default=None):
    if name in sys.argv:
        return sys.argv[sys.argv.index(name) + 1]
    return default


def one(sid, tier, seeds, suite, also):
    d = os.path.join(SEEDED, sid)
    meta = json.load(open(os.path.join(d, "meta.json")))
    prop = meta["property"]
    scratch = "/var/tmp/xv-seed-%s-%d" % (sid, os.getpid())
    shutil.rmtree(scratch, ignore_errors=True)
    os.makedirs(scratch)
    row = {"id": sid, "property": prop}
    try:
        sh("git -C /repo archive HEAD | tar -x -C %s" % scratch)
        env = dict(os.environ, PYTHONPATH=scratch, PYTHONDONTWRITEBYTECODE="1", OMP_NUM_THREADS="1")
        demo = meta.get("demo_cmd", "/venv/bin/python -W ignore demo.py")
        rc0, out0 = sh(demo, cwd=d, env=env)
        row["demo_clean"] = "passes" if rc0 == 0 else "FAILS-ON-CLEAN-TREE"
        rc, out = sh("git init -q . && git apply --whitespace=nowarn %s" % os.path.join(d, "patch.diff"), cwd=scratch)
        if rc != 0:
            row["demo_changed"] = "PATCH-DOES-NOT-APPLY: " + out.strip()[-200:]
            return row
        rc1, out1 = sh(demo, cwd=d, env=env)
        row["demo_changed"] = "fails" if rc1 != 0 else "PASSES-WITH-CHANGE"
        if suite:
            rcs, outs = sh("/venv/bin/python -m pytest -q -p no:cacheprovider -n 8 --timeout=900 2>&1 | grep -E '^(FAILED|ERROR)|passed|failed'",
                           cwd=scratch, env=dict(env, PYTHONPATH=""))
            failed = {l.split()[1] for l in outs.splitlines() if l.startswith(("FAILED", "ERROR")) and len(l.split()) > 1}
            extra = sorted(failed - BASE_FAIL)
            # wall-clock tests (test_ivp_speed) fail under machine load: a failure only counts if it repeats alone
            still = []
            for t in extra:
                rc1, _ = sh("/venv/bin/python -m pytest -q -p no:cacheprovider --timeout=900 '%s'" % t,
                            cwd=scratch, env=dict(env, PYTHONPATH=""))
                if rc1 != 0:
                    still.append(t)
            extra = still
            row["suite"] = "passes" if not extra else "SUITE-CATCHES-IT: " + ", ".join(extra)[:300]
        verdicts = {}
        first = ""
        for p in [prop] + also:
            vs = []
            for sd in seeds:
                env2 = dict(os.environ, XITORCH_REPO=scratch, VERIF_SEED=sd, VERIF_OUT="/var/tmp/xv-out-%s-%d" % (sid, os.getpid()))
                t0 = time.time()
                rc, out = sh("./check %s --tier %s" % (p, tier), cwd=HERE, env=env2)
                vl = [l for l in out.splitlines() if l.startswith("VIOLATION")]
                vs.append("seed%s:%s(%d,%.0fs)" % (sd, "DETECTED" if rc == 1 and vl else ("exit%d" % rc), len(vl), time.time() - t0))
                if vl and not first and p == prop:
                    first = vl[0].split("#", 1)[-1].strip()[:120]
                shutil.rmtree(env2["VERIF_OUT"], ignore_errors=True)
            verdicts[p] = " ".join(vs)
        row["checks"] = verdicts
        row["first"] = first
    finally:
        shutil.rmtree(scratch, ignore_errors=True)
    return row


def main():
    args = [a for a in sys.argv[1:]]
    tier = opt("--tier", "quick")
    seeds = opt("--seeds", "0").split(",")
    also = [x for x in (opt("--also", "") or "").split(",") if x]
    suite = "--suite" in sys.argv
    skip = set()
    for o in ("--tier", "--seeds", "--also", "--jobs"):
        if o in args:
            skip.add(args.index(o))
            skip.add(args.index(o) + 1)
    ids = [a for i, a in enumerate(args) if i not in skip and not a.startswith("--")]
    ids = ids or sorted(d for d in os.listdir(SEEDED) if os.path.isdir(os.path.join(SEEDED, d)))
    rows = []
    for sid in ids:
        r = one(sid, tier, seeds, suite, also)
        rows.append(r)
        print(json.dumps(r), flush=True)
    res_path = os.path.join(SEEDED, "RESULTS.json")
    old = {}
    if os.path.exists(res_path):
        old = json.load(open(res_path))
    for r in rows:
        prev = old.get(r["id"], {})
        if "suite" not in r and "suite" in prev:
            r["suite"] = prev["suite"]
        prev_checks = prev.get("checks", {}) if isinstance(prev.get("checks"), dict) else {}
        prev_checks.update(r.get("checks", {}))
        r["checks"] = prev_checks
        r["tier"] = tier
        old[r["id"]] = r
    json.dump(old, open(res_path, "w"), indent=1, sort_keys=True)
    with open(os.path.join(SEEDED, "RESULTS.md"), "w") as f:
        f.write("# Seeded changes vs checks (written by tools_seeded.py)\n\n")
        f.write("| id | property | demo on clean tree | demo with change | repo suite with change | check verdicts | first violation class |\n|---|---|---|---|---|---|---|\n")
        for k in sorted(old):
            r = old[k]
            ch = "; ".join("%s: %s" % (p, v) for p, v in sorted(r.get("checks", {}).items()))
            f.write("| %s | %s | %s | %s | %s | %s | %s |\n" % (
                k, r.get("property"), r.get("demo_clean"), r.get("demo_changed"), r.get("suite", "not run"),
                ch.replace("|", "/"), str(r.get("first", "")).replace("|", "/")))


if __name__ == "__main__":
    main()
