"""Regenerates MANIFEST.json from the table below (run with any python3)."""
import json
import os

HERE = os.path.dirname(os.path.abspath(__file__))

# id -> (category, technique, text, note)
CHECKS = {
    "C20": ("model_checking",
            "explicit-state search over Packer call histories x exhaustive structure/alias-partition enumeration",
            "Every container/leaf tree up to the node bound and every alias partition of its tensor slots is built as a "
            "real object; on a fresh Packer every call history over 16 events is replayed (undeduplicated to depth 2-3, "
            "then breadth-first to a fixpoint deduplicated on the getter-called flags) and compared event by event with "
            "a reference model (slot list, alias classes, identity snapshot of the original and of earlier results). "
            "Bounded-exhaustive: the right level for a small stateful object whose defects are order/alias dependent.",
            "Bounds: <=4 nodes complete + alias-focused 5-node structures (quick); <=5 complete + alias-focused 6 "
            "(thorough). Tensor shapes from 3 shapes by alias class. Trusted: CPython identity semantics, torch.equal."),
}

NOT_BUILT_REASON = "no check registered yet: the bounded-exhaustive check designed in DESIGN.md §5 is not built/validated in this revision"


def main():
    props = [json.loads(l) for l in open(os.path.join(HERE, "properties.jsonl"))]
    checks = []
    na = []
    for p in props:
        pid = p["id"]
        if pid in CHECKS and os.path.exists(os.path.join(HERE, "mc", "props", pid.lower() + ".py")):
            cat, tech, text, note = CHECKS[pid]
            checks.append({
                "property_id": pid,
                "quick_cmd": "./check %s --tier quick" % pid,
                "thorough_cmd": "./check %s --tier thorough" % pid,
                "evidence_file": "evidence/%s.json" % pid,
                "replay_cmd_template": "./check %s --replay {path}" % pid,
                "engine": "mc",
                "level_claimed": {"category": cat, "text": text, "design_ref": "DESIGN.md §5 %s" % pid},
                "level_note": note,
                "technique": tech,
            })
        else:
            na.append({"property_id": pid, "reason": NOT_BUILT_REASON})
    hooks_commits = []
    hc = os.path.join(HERE, "hook_commits.txt")
    if os.path.exists(hc):
        hooks_commits = [l.split()[0] for l in open(hc) if l.strip() and not l.startswith("#")]
    m = {
        "version": 1,
        "setup_cmd": "./setup.sh",
        "hooks": {
            "guard": "XITORCH_VERIF",
            "enable": "none needed: checks import xitorch from /repo's working tree (PYTHONPATH=/repo) and observe it "
                      "through public API, harness-supplied callables and attribute reads; ./check exports XITORCH_VERIF=1 "
                      "but no source line in /repo reads it",
            "baseline_off_cmd": "cd /repo && /venv/bin/python -m pytest -q -p no:cacheprovider --timeout=900 --continue-on-collection-errors",
            "source_commits": hooks_commits,
            "add_only": True,
        },
        "engines": [
            {"name": "mc", "path": "mc/", "serves_properties": [c["property_id"] for c in checks],
             "kind_free_text": "hand-written bounded-exhaustive explorer in Python: lattice enumerator, history explorer "
                               "with replay-from-scratch, crash-point injector, call-programmed spy functions, dense "
                               "reference oracles; 16 forked single-threaded workers"},
        ],
        "checks": checks,
        "not_applicable": na,
        "notes": "See DESIGN.md. Known findings: known_findings.txt (open entries are JSON lines; 'fixed:' lines suppress nothing).",
    }
    with open(os.path.join(HERE, "MANIFEST.json"), "w") as f:
        json.dump(m, f, indent=1)
    print("checks:", [c["property_id"] for c in checks], "not claimed:", len(na))


if __name__ == "__main__":
    main()
