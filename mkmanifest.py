"""Regenerates MANIFEST.json (run with any python3).

A property is claimed iff it is a key of CLAIMED below and its module exists.  The free-text of each claim is
taken from the module itself (RULE / ASSUMPTIONS, read with ast - nothing is imported), so the manifest cannot
drift away from what the check enumerates.
"""
import ast
import json
import os

HERE = os.path.dirname(os.path.abspath(__file__))

# id -> (technique = the deciding method in a few words, why this level)
CLAIMED = {
    "C01": ("exhaustive enumeration of a finite configuration lattice of real solve() calls (operator kind x method "
            "x E/M x batch pattern x dtype x option deviations x rhs kind), dense per-column reference on each",
            "every structural combination of a stated finite lattice is executed on the implementation; defects of "
            "solve live at combinations (method x E layout x batch shape x zero column) that sampling misses"),
    "C02": ("exhaustive enumeration of parameter placement x forward method x backward method x E/M x "
            "requires-grad subset x gradient order x reuse, dense autograd reference on each execution",
            "bounded-exhaustive lattice over the real backward pass; reference = torch.linalg.solve built from the "
            "same leaves, compared at first and second order"),
    "C03": ("exhaustive enumeration of functional x method x function family x initial guess x tolerance pair x "
            "iteration-limit deviations; the returned tensor is re-inserted into the user's function",
            "all executions of a finite lattice; the oracle is the stopping test the caller asked for, evaluated on "
            "the returned tensor itself"),
    "C04": ("exhaustive enumeration of function family x forward method x backward solver x parameter placement x "
            "gradient order, implicit-function-theorem reference (unrolled Newton steps) on each execution",
            "bounded-exhaustive lattice over the real implicit backward pass"),
    "C05": ("exhaustive enumeration of method x M x operator kind x batch pattern x n x neig x mode (and spelling) x "
            "spectrum class (separated, clustered, exactly degenerate) x davidson options, plus svd shape x k x mode; "
            "dense Cholesky-reduced eigh / svd reference on each execution",
            "every structural combination is executed; selection of the wrong end of the spectrum, normalisation "
            "and batch defects live at combinations of mode x M x batch x degeneracy"),
    "C06": ("exhaustive enumeration of method x backward solver x M x operator kind x n x spectrum class (incl. "
            "exact degeneracy) x neig at cluster boundaries x parametrisation x dtype x order, gauge-invariant losses, "
            "contour-integral (resolvent) reference that stays smooth through degeneracy",
            "bounded-exhaustive lattice over the real implicit backward pass of symeig / svd"),
    "C07": ("call-programmed right-hand sides (environment answers chosen by the harness: unit vectors per call, "
            "elementary weights of every rooted tree up to order 5) extract the Butcher tableau and the orders of "
            "the embedded pairs from real solve_ivp runs; plus the complete lattice method x ODE family x time grid "
            "x tolerance x dtype against closed-form flows",
            "the space of programmed answers (one per stage / per rooted tree) and the family x grid lattice are "
            "enumerated completely"),
    "C08": ("exhaustive enumeration of ODE family x forward method x backward method x time grid x requires-grad "
            "subset x cotangent x order; matrix-exponential / closed-form sensitivities as reference",
            "bounded-exhaustive lattice over the real adjoint integration"),
    "C09": ("exhaustive differential enumeration: functional x method x 14 representations of the same mathematical "
            "function x requires-grad subset x gradient order, each compared with the pure-function representation",
            "all representations x all functionals are executed and compared (no hand-written expected values)"),
    "C10": ("crash-point enumeration (an exception injected at EVERY evaluation of the user's function / operator "
            "product in every phase: forward, backward, graph-recording backward, double backward, debug pre-check) "
            "plus explicit-state search of the push/pop/lock/debug protocol of PureFunction and LinearOperator "
            "parameter substitution against a stack reference model",
            "every (scenario, phase, k) crash point of the fault-free run is re-executed from scratch with one "
            "fault; the protocol search replays every event history to the depth bound on fresh objects"),
    "C13": ("rule extraction with call-programmed integrands + exhaustive enumeration of family x n x backward n' x "
            "limit forms (number / tensor / requires-grad tensor / infinite) x function kind x unused tensors x order "
            "x loss, reference = autograd through the extracted rule",
            "bounded-exhaustive lattice over the real backward quadrature"),
    "C14": ("interpolation-matrix extraction through linearity in y (unit vectors) for every method x boundary "
            "condition x extrapolation mode x grid x number of knots x sample/query ordering x y placement x batch, "
            "against scipy CubicSpline / numpy.interp",
            "the lattice is enumerated completely and the whole linear map is compared, not sampled values"),
    "C15": ("weight-matrix extraction through linearity in y for every method x boundary condition x grid x number "
            "of samples x every (rank, dim) position x keepdim, against antiderivatives of the interpolant",
            "all axis positions (positive and negative) and sizes are enumerated"),
    "C16": ("call-programmed samplers / log-densities / integrands (logged evaluation points) + exhaustive "
            "enumeration of sampler x (nsamples, nburnout) x output kind x parameter placement x unused tensors x "
            "order x loss; reference = explicit weighted sample mean and its autograd derivatives on the logged samples",
            "bounded-exhaustive lattice; deterministic samplers make the estimator exactly reproducible"),
    "C11": ("explicit-state exploration: every operator expression tree up to the leaf bound x every product, and "
            "every instantiation order of small operator class hierarchies (class-level flag cache = explored state), "
            "dense-matrix reference model on every step",
            "the class-level capability cache is process-global state whose defects depend on the history of "
            "instantiations; all histories up to the bound are replayed on fresh classes"),
    "C12": ("call-programmed integrand (environment answers chosen by the harness) extracts the rule the "
            "implementation applies, for every n x interval x limit form; all Legendre moments up to 2n-1",
            "the space of n x interval x limit-form x output-kind is enumerated completely and the extracted rule "
            "is compared with the Gauss-Legendre rule and its moment conditions"),
    "C17": ("exhaustive enumeration of function kind x argument-index selection x product x operand batch x "
            "parameter-change history x gradient order against torch.autograd.functional.jacobian/hessian",
            "bounded-exhaustive lattice including the cached-graph reuse after parameter substitution"),
    "C18": ("exhaustive enumeration of functional x {built-in, closed-form, wrapping} method callable x option "
            "sets, plus the complete name x letter-case lattice of every dispatch site; spy callables log "
            "arguments and grad mode",
            "all dispatch sites x all registered names x case variants x unknown names are executed"),
    "C19": ("explicit-state search over usage histories (forward / backward / graph-recording backward / drop) of "
            "every functional scenario with the cyclic collector disabled; tensor census after every history",
            "leaks depend on the order of use (forward-only, backward, double backward): all histories up to the "
            "depth bound are replayed from scratch and the live-tensor census is the invariant"),
    "C20": ("explicit-state search over Packer call histories x exhaustive structure/alias-partition enumeration",
            "a small stateful object whose defects are order/alias dependent: every container/leaf tree up to the "
            "node bound and every alias partition is built as a real object and every call history is replayed "
            "against a reference model"),
}

NOT_BUILT_REASON = ("check exists in mc/props but is not registered in this revision: it still reports violations on "
                    "the unchanged tree that have not been triaged into repaired defects / known findings / harness "
                    "corrections, so claiming it would be unsound")


def modinfo(pid):
    path = os.path.join(HERE, "mc", "props", pid.lower() + ".py")
    if not os.path.exists(path):
        return None
    tree = ast.parse(open(path).read())
    d = {}
    for node in tree.body:
        if isinstance(node, ast.Assign) and len(node.targets) == 1 and isinstance(node.targets[0], ast.Name) \
                and node.targets[0].id in ("RULE", "RULE_ADDED", "LEVEL", "ASSUMPTIONS"):
            d[node.targets[0].id] = eval(compile(ast.Expression(node.value), path, "eval"), {})
    return d


def main():
    props = [json.loads(l) for l in open(os.path.join(HERE, "properties.jsonl"))]
    checks = []
    na = []
    for p in props:
        pid = p["id"]
        info = modinfo(pid)
        if pid in CLAIMED and info:
            tech, why = CLAIMED[pid]
            rule = " ".join(info["RULE"].split())
            added = " ".join(info.get("RULE_ADDED", "").split())
            checks.append({
                "property_id": pid,
                "quick_cmd": "./check %s --tier quick" % pid,
                "thorough_cmd": "./check %s --tier thorough" % pid,
                "evidence_file": "evidence/%s.json" % pid,
                "replay_cmd_template": "./check %s --replay {path}" % pid,
                "engine": "mc",
                "level_claimed": {
                    "category": info["LEVEL"],
                    "text": ("Bounded-exhaustive exploration of the real implementation (no sampling): %s.  "
                             "Enumerated space and oracle: %s%s" % (why, rule[:1400], ("  " + added[:700]) if added else "")),
                    "design_ref": "DESIGN.md §5 %s, §11" % pid},
                "level_note": ("Both tiers enumerate their stated lattice completely (evidence.coverage.exhaustive); "
                               "thorough = larger bounds. Assumed / trusted: "
                               + " | ".join(" ".join(a.split()) for a in info.get("ASSUMPTIONS", []))[:1500]),
                "technique": tech,
            })
        else:
            na.append({"property_id": pid, "reason": NOT_BUILT_REASON})
    hooks_commits = []
    hc = os.path.join(HERE, "hook_commits.txt")
    if os.path.exists(hc):
        hooks_commits = [l.split()[0] for l in open(hc) if l.strip() and not l.startswith("#")]
    m = {
        "version": 1,
        "setup_cmd": "./setup.sh",
        "hooks": {
            "guard": "XITORCH_VERIF",
            "enable": "none needed: checks import xitorch from /repo's working tree (PYTHONPATH=/repo) and observe it "
                      "through public API, harness-supplied callables and attribute reads; ./check exports XITORCH_VERIF=1 "
                      "but no source line in /repo reads it",
            "baseline_off_cmd": "cd /repo && /venv/bin/python -m pytest -q -p no:cacheprovider --timeout=900 --continue-on-collection-errors",
            "source_commits": hooks_commits,
            "add_only": True,
        },
        "engines": [
            {"name": "mc", "path": "mc/", "serves_properties": [c["property_id"] for c in checks],
             "kind_free_text": "hand-written bounded-exhaustive explorer in Python: lattice enumerator, history explorer "
                               "with replay-from-scratch, crash-point injector, call-programmed spy functions, dense "
                               "reference oracles; 16 forked single-threaded workers"},
        ],
        "checks": checks,
        "not_applicable": na,
        "notes": "See DESIGN.md. Known findings: known_findings.txt (open entries are JSON lines; 'fixed:' lines suppress nothing).",
    }
    with open(os.path.join(HERE, "MANIFEST.json"), "w") as f:
        json.dump(m, f, indent=1)
    print("checks:", [c["property_id"] for c in checks], "not claimed:", len(na))


if __name__ == "__main__":
    main()
