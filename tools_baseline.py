"""Run the repository's suite (guard off) in DIR (default /repo) and compare with BASELINE.json's stable_pass list.
usage: /venv/bin/python tools_baseline.py [DIR] [-n WORKERS]"""
import json, subprocess, sys, os, tempfile, xml.etree.ElementTree as ET
d = sys.argv[1] if len(sys.argv) > 1 and not sys.argv[1].startswith('-') else '/repo'
n = sys.argv[sys.argv.index('-n') + 1] if '-n' in sys.argv else '8'
base = json.load(open('/root/.vp/BASELINE.json'))
out = tempfile.mktemp(suffix='.xml', dir='/var/tmp')
env = dict(os.environ, OMP_NUM_THREADS='1', PYTHONDONTWRITEBYTECODE='1')
env.pop('XITORCH_VERIF', None)
subprocess.run(['/venv/bin/python', '-m', 'pytest', '-q', '-p', 'no:cacheprovider', '-n', n, '--timeout=900',
                '--continue-on-collection-errors', '--junitxml=' + out], cwd=d, env=env, stdout=subprocess.DEVNULL, stderr=subprocess.DEVNULL)
passed = set()
failed = set()
for tc in ET.parse(out).getroot().iter('testcase'):
    name = tc.get('classname') + '::' + tc.get('name')
    if tc.find('failure') is None and tc.find('error') is None and tc.find('skipped') is None:
        passed.add(name)
    else:
        failed.add(name)
os.remove(out)
stable = set(base['stable_pass'])
missing = sorted(stable - passed)
print('passed %d, failed %d; stable_pass %d; stable tests not passing: %d' % (len(passed), len(failed), len(stable), len(missing)))
for m in missing[:40]:
    print('  REGRESSION', m)
print('newly passing (not in stable_pass):', len(passed - stable))
for m in sorted(passed - stable)[:40]:
    print('  +', m)
sys.exit(1 if missing else 0)
