#!/bin/bash
# usage: tools_mutate.sh <PROP> <file-relative-to-repo> <python-literal [(old,new)]>   (reads pairs from stdin)
# copies /repo to a scratch dir, applies the CRLF-preserving replacement, runs the quick check against it, removes the copy
set -e
PROP=$1; FILE=$2
D=/var/tmp/xv-mut-$$
mkdir -p $D && git -C /repo archive HEAD | tar -x -C $D
/venv/bin/python /verif/tools_ed.py $D/$FILE
cd /verif
XITORCH_REPO=$D VERIF_NOEVIDENCE=1 ./check $PROP --tier quick 2>&1 | grep -E "VIOLATION|KNOWN|HARNESS|tier=" | head -8
rm -rf $D
