"""Completes seeded/<id>/meta.json of rounds 5 and 6 from notes.md + seeded/RESULTS.json and prints the DESIGN.md
tables (11.7).  FIRST = verdict of the first run of the then-registered checks, ADDED = dimension added afterwards."""
import json
import os

HERE = os.path.dirname(os.path.abspath(__file__))
SEEDED = os.path.join(HERE, "seeded")

# id -> (first-run verdict, dimension added afterwards)
R = {
    # ---------------------------------------------------------------- round 5
    "C01-r5m1": ("detected", "-"), "C01-r5m2": ("detected", "-"),
    "C02-r5m1": ("missed", "C02 object history prior1: the same operator objects were used for an ordinary solve + backward before the judged (second-order) call"),
    "C02-r5m2": ("missed", "C02: exactly zero right-hand side that requires grad (X = 0, dX/dB is not), first and second order"),
    "C03-r5m1": ("detected", "-"), "C03-r5m2": ("detected", "-"),
    "C04-r5m1": ("missed", "C04 backward-solver option combinations whose convergence is certain: cg with posdef=True on the (non-symmetric) Jacobian must still work on the normal equations; silence required"),
    "C04-r5m2": ("missed", "C04 same plane: every option of bicgstab at its default on ONE unknown (max_niter = int(1.5 n) = 1)"),
    "C05-r5m1": ("detected", "-"), "C05-r5m2": ("detected", "-"),
    "C06-r5m1": ("missed", "C06 object history mut: the operator objects are given other tensors between the forward call and the backward pass"),
    "C06-r5m2": ("missed", "C06 svd opkind mfree_mv: matrix-free operator implementing _mv only (A^H through the adjoint trick of LinearOperator), wide / tall / square"),
    "C07-r5m1": ("missed", "C07 domain plane: right-hand sides that are NaN outside the half space containing the exact solution (Gompertz, guarded decay), first output interval long enough for the trial step to leave the domain; finite result within the global error bound"),
    "C07-r5m2": ("detected", "-"),
    "C08-r5m1": ("detected", "-"),
    "C08-r5m2": ("missed", "C08 plane [G0]: a tolerance of exactly 0 (rtol = 0.0 purely absolute, atol = 0 purely relative) in the forward options (inherited) or only in bck_options, dissipative long-horizon problems"),
    "C09-r5m1": ("missed", "C09 kinds both / both_rev: a class deriving from torch.nn.Module AND EditableModule (either order of the bases) declaring a derived non-Parameter tensor next to a registered Parameter"),
    "C09-r5m2": ("detected", "-"),
    "C10-r5m1": ("detected", "-"),
    "C10-r5m2": ("missed", "C10 re-assignment search: (functional incl. list-state solve_ivp, object kind, declared attribute, backward / recorded backward / double backward) - the owner assigns a new tensor between forward and backward; the object must hold exactly that state afterwards.  The search also found a genuine defect of the unchanged tree (fix 84a742b)"),
    "C11-r5m1": ("detected", "-"), "C11-r5m2": ("detected", "-"),
    "C12-r5m1": ("detected", "-"), "C12-r5m2": ("detected", "-"),
    "C13-r5m1": ("detected", "-"), "C13-r5m2": ("detected", "-"),
    "C14-r5m1": ("detected", "-"), "C14-r5m2": ("detected", "-"),
    "C15-r5m1": ("detected", "-"), "C15-r5m2": ("detected", "-"),
    "C16-r5m1": ("missed", "C16: bck_options carrying the sampler's own keywords (nsamples, nburnout, step_size, lb, ub) with other values - everything judged as without them"),
    "C16-r5m2": ("detected", "-"),
    "C17-r5m1": ("detected", "-"), "C17-r5m2": ("detected", "-"),
    "C18-r5m1": ("missed by C18, detected by C06 after its strengthening", "C06 degtol variants: exactly ONE of degen_atol / degen_rtol given as 0.0 on an exactly degenerate pair, both 0.0 on a pair 2e-7 apart.  C18 compares runs that share the implicit backward, so it cannot see a defect of that shared code"),
    "C18-r5m2": ("missed by C18, detected by C13", "- (the change sits in quad's backward, which every method of C18's pairwise comparison shares; C13's limit-kind plane (number lower limit, tensor upper limit) reports it)"),
    "C19-r5m1": ("detected", "-"), "C19-r5m2": ("detected", "-"),
    "C20-r5m1": ("detected", "-"), "C20-r5m2": ("detected", "-"),
    # ---------------------------------------------------------------- round 6
    "C01-r6m1": ("detected", "-"),
    "C01-r6m2": ("detected only through a shape side effect of the then unrepaired direct solve (c259bca); missed afterwards", "C01 clustered shifts: every column has the shift of column 0 times (1 + 3e-6 c) + 4e-9 c (all within 1e-5 relative, none equal), direct and Krylov methods, E and E + M"),
    "C02-r6m1": ("missed", "C02 plane ezero: every shift exactly zero (E and M given), all first- and second-order blocks"),
    "C02-r6m2": ("detected", "-"),
    "C03-r6m1": ("detected", "-"), "C03-r6m2": ("detected", "-"),
    "C04-r6m1": ("missed", "C04 object history mut: the module / EditableModule is given other tensors between the forward call and the backward pass"),
    "C04-r6m2": ("missed", "C04 backward options with preconditioners (bicgstab precond_r / precond_l / both, cg precond; fixed diagonal scaling), 4 - 24 unknowns"),
    "C05-r6m1": ("detected", "-"), "C05-r6m2": ("detected", "-"),
    "C06-r6m1": ("missed", "C06 degtol variant 2: both degeneracy tolerances given as exactly 0.0 on a pair 2e-7 apart (documented: no special treatment)"),
    "C06-r6m2": ("missed", "C06 debug dimension: forward and every backward pass inside xitorch.set_debug_mode(True), separated and degenerate spectra, with M"),
    "C07-r6m1": ("missed (the run did not finish: the changed step-size control needs > 1e6 evaluations)", "C07: evaluation budget of the spied right-hand side (largest count on the unchanged tree 5 947; budget 100 000) - exceeding it is a violation, so a controller that ignores the request cannot stall the check; the purely relative requests (rtol 1e-6, atol 1e-14) expose the swapped tolerances"),
    "C07-r6m2": ("detected", "-"),
    "C08-r6m1": ("missed by C08, detected by C09 (kinds pure_twice / em_twice)", "-"),
    "C08-r6m2": ("detected (call-order plane)", "-"),
    "C09-r6m1": ("detected", "-"),
    "C09-r6m2": ("missed", "C09 rebind kinds: the functional has been called once on the object (no backward), the owner then binds new leaf tensors of the same values to the declared names; judged call + gradients w.r.t. the new leaves"),
    "C10-r6m1": ("detected", "-"), "C10-r6m2": ("detected", "-"),
    "C11-r6m1": ("missed", "C11 substitution consistency: .H evaluated, then the operator's tensors substituted through uselinopparams; inside the block H.fullmatrix == fullmatrix^H and H.mv == rmv"),
    "C11-r6m2": ("missed", "C11 result ownership: every fullmatrix result that is not one of the caller's own tensors is overwritten in place by the harness and asked for again"),
    "C12-r6m1": ("detected", "-"),
    "C12-r6m2": ("missed", "C12: bck_options naming another number of nodes (n + 3 / n - 1): abscissae, count and value of the forward rule unchanged"),
    "C13-r6m1": ("detected", "-"), "C13-r6m2": ("detected", "-"),
    "C14-r6m1": ("missed", "C14 in-place history: one Interp1D object called twice with ONE sample buffer that is refilled in place between the calls (sorted / assume_sorted / shuffled)"),
    "C14-r6m2": ("detected", "-"),
    "C15-r6m1": ("missed", "C15: the same grids in other units (exact scaling by 2^-30 and 2^20; results divided by the factor and judged against the unscaled references) and a nearly equidistant grid (relative jitter 3e-6)"),
    "C15-r6m2": ("missed", "C15 large plane: many rows x many samples (300x128, 70x256, 4200x33): all rows at once == the same rows 37 at a time, last cumulative value == integrate, closed-form trapezoid"),
    "C16-r6m1": ("missed", "C16 objective sq0: least squares at a perfect fit (cotangent exactly zero, Gauss-Newton term not), all sampler configurations"),
    "C16-r6m2": ("missed", "C16 mh_support plane: density with bounded support whose logarithm is NaN (or -inf) outside, chain started near the boundary: no evaluation point of f outside the support, for every seed"),
    "C17-r6m1": ("missed", "C17 operand batch ('e', 3, 2): two different operands expanded along a leading axis of stride 0"),
    "C17-r6m2": ("missed", "C17 sibling independence: while the explicit parameters of one operator of a jac / hess call with several indices are substituted, the products of the other operators of that call are unchanged"),
    "C18-r6m1": ("detected", "-"),
    "C18-r6m2": ("missed by C18, detected by C07 (stage-conformance of the adaptive steps)", "- (the change sits in the adaptive Runge-Kutta stepper shared by every method of C18's comparison)"),
    "C19-r6m1": ("missed", "C19 variant cutoff: iterations cut off by maxiter = 2 (every call ends with a ConvergenceWarning), module-held functions"),
    "C19-r6m2": ("missed", "C19 variant anomaly: every event inside torch.autograd.detect_anomaly()"),
    "C20-r6m1": ("missed", "C20 storage variant shared: the alias classes are DISTINCT tensor objects sharing one storage, dtype, shape and strides (t, t.detach(), ...)"),
    "C20-r6m2": ("detected", "-"),
}

SOURCE = {
    5: "fresh sub-agent given only the property text, one-line descriptions of the changes of rounds 1-4, guidance towards what rounds 1-4 left untouched, and its own scratch git worktree of /repo under /tmp/wt (nothing from /verif)",
    6: "fresh sub-agent given only the property text (title, statement, quantifier, why the tests cannot settle it, anchors), one-line titles of the ten earlier changes for that property, suggested directions (memory layout, torch globals, third call on one object, options by position, feature pairs, exact equality, one-branch clean-up, aliased results, once-per-process warnings) and its own scratch git worktree of /repo under /tmp/wt/<id> (nothing from /verif); prompt kept in /tmp/wt/prompts/<id>.md during the session",
}


def title_of(sid):
    line = open(os.path.join(SEEDED, sid, "notes.md")).readline().strip().lstrip("# ").strip()
    for sep in (" - ", " -- ", " — "):
        if sep in line:
            return line.split(sep, 1)[1]
    return line


def main():
    res = json.load(open(os.path.join(SEEDED, "RESULTS.json")))
    for rnd in (5, 6):
        rows = []
        for sid in sorted(R):
            if "-r%dm" % rnd not in sid:
                continue
            d = os.path.join(SEEDED, sid)
            notes = open(os.path.join(d, "notes.md")).read()
            flat = " ".join(l.strip() for l in notes.splitlines() if l.strip())
            needs = ""
            for key in ("Needed to manifest", "Needs to manifest", "What is needed", "Trigger", "Needs", "needed to manifest",
                        "What it needs"):
                if key in flat:
                    needs = flat[flat.index(key):][:700]
                    break
            first, added = R[sid]
            meta = {"property": sid.split("-")[0], "round": rnd, "source": SOURCE[rnd], "what": flat[:900],
                    "needs": needs or flat[900:1500],
                    "first_run_verdict_of_the_registered_check": first,
                    "strengthening_made_afterwards": added,
                    "ran": "tools_seeded.py [--suite]: export of /repo HEAD + git apply patch.diff in a scratch copy under "
                           "/var/tmp; demo.py on the clean copy (passes) and on the changed copy (fails); repository suite on "
                           "the changed copy (no additional failures besides the scipy_gmres baseline failure; test_ivp_speed "
                           "re-run alone when it fails under load); quick check(s) with XITORCH_REPO pointing at the changed "
                           "copy; scratch copy removed afterwards",
                    "result": res.get(sid, {})}
            json.dump(meta, open(os.path.join(d, "meta.json"), "w"), indent=1, sort_keys=False)
            rows.append("| %s | %s | %s | %s | %s |" % (sid, sid.split("-")[0], title_of(sid).replace("|", "/")[:170],
                                                       first, added.replace("|", "/")))
        print("\n### round %d\n" % rnd)
        print("| id | property | change | first run | dimension added afterwards |\n|---|---|---|---|---|")
        print("\n".join(rows))
        nd = sum(1 for s, (f, _) in R.items() if "-r%dm" % rnd in s and f.startswith("detected"))
        print("\nround %d: %d of 40 detected on the first run by the check of their own property" % (rnd, nd))


if __name__ == "__main__":
    main()
