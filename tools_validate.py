"""python3-vt tools_validate.py : validate MANIFEST.json and every evidence file against the schemas"""
import json, glob, sys, os
import jsonschema
ms = json.load(open('/root/.vp/MANIFEST.schema.json'))
es = json.load(open('/root/.vp/EVIDENCE.schema.json'))
m = json.load(open('/verif/MANIFEST.json'))
jsonschema.validate(m, ms)
props = [json.loads(l)['id'] for l in open('/verif/properties.jsonl')]
claimed = [c['property_id'] for c in m['checks']]
na = [c['property_id'] for c in m.get('not_applicable', [])]
assert sorted(claimed + na) == sorted(props), (sorted(set(props) - set(claimed + na)), set(claimed) & set(na))
bad = 0
for c in m['checks']:
    f = os.path.join('/verif', c['evidence_file']) if not c['evidence_file'].startswith('/') else c['evidence_file']
    if not os.path.exists(f):
        print('missing evidence', f); bad += 1; continue
    e = json.load(open(f))
    try:
        jsonschema.validate(e, es)
        assert e['level'] == c['level_claimed']['category'], (e['level'], c['level_claimed']['category'])
        print('ok', c['property_id'], e['tier'], e['coverage'].get('evaluations'), e['coverage'].get('distinct_nontrivial'), 'viol', e.get('violations'), 'wall', e['wall_s'])
    except Exception as ex:
        print('INVALID', f, str(ex)[:300]); bad += 1
sys.exit(1 if bad else 0)
