"""Problem families shared by C03 (forward stopping test) and C04 (implicit gradients).

Every family is a *contraction by construction*:

    root form          f(y) = y - g(y)            (rootfinder)
    fixed-point form   y = g(y)                   (equilibrium)
    objective form     F(y),  grad F(y) = y - g(y)-like, Hessian spectrum inside [1 - s, 1 + s]   (minimize)

with Lipschitz constant of g (resp. of I - Hess F) equal to `s` < 1, so that
  * the solution is unique,
  * ||y - y*|| <= ||f(y)|| / (1 - s)   for every y                                  (a-posteriori bound),
  * plain mixing  y <- y - f(y)  contracts with factor s,
  * kappa(J) <= (1 + s) / (1 - s).

All families are written around an explicit centre `yc`:  g(y) = c + s * N(y - yc) with N(0) = 0 *exactly in floating
point*; with c = yc ("centred" instances, used by C03) the solution is y* = yc exactly and f(y*) == 0 bit-exactly;
with c != yc ("generic" instances, used by C04) the solution is not known in closed form and depends on every parameter.

The unknown has one of three layouts (`kind`): "n" -> (n,), "n1" -> (n, 1), "2n" -> (2, n); the n x n matrices act on
the axis of length n, the other axis is a batch axis with its own c / yc / a rows.
"""
from __future__ import annotations
import math
import torch
from mc.util import gen, randn, orth

DT = {"float64": torch.float64, "float32": torch.float32, "complex128": torch.complex128}
KINDS = ("n", "n1", "2n")

# const: the constant map g(y) = c (M = 0): its first evaluation IS the fixed point
ROOT_FAMILIES = ("affine", "dyadic", "tanh02", "tanh06", "caffine", "const")
MIN_FAMILIES = ("quad", "dquad", "lcosh")
# families outside the default tuples (enumerated by dedicated blocks of C03):
#   atan   g(y) = y - atan(y - c) / 2: unique fixed point c, |g'| = 1 - 0.5 / (1 + d^2) < 1 everywhere but -> 1 far
#          away (full quasi-Newton steps from a far guess overshoot: the line search has to backtrack repeatedly)
#   expand g(y) = c + M d + (sin(d + a) - sin(a)) / 2 with M symmetric, spectrum in [-2.2, -1.8]: NOT a contraction
#          (plain iteration diverges) but y - g(y) has a well-conditioned Jacobian in [2.3, 3.7]; Anderson
#          acceleration and the root finders converge
EXTRA_FAMILIES = ("atan", "expand")
S_OF = {"atan": 0.5, "expand": 2.7, "affine": 0.5, "dyadic": 0.5, "tanh02": 0.2, "tanh06": 0.6, "caffine": 0.5, "const": 0.0,
        "quad": 0.5, "dquad": 0.5, "lcosh": 0.6}


def shape_of(n, kind):
    return {"n": (n,), "n1": (n, 1), "2n": (2, n)}[kind]


def lin(W, d, kind):
    """apply the n x n matrix W on the axis of length n"""
    if kind == "2n":
        return d @ W.transpose(-1, -2)
    return W @ d


def _unit_norm_matrix(n, dtype, g, lo=0.5):
    """Q1 diag(sigma) Q2^H with sigma = linspace(lo, 1): spectral norm exactly 1 (up to rounding), non-normal"""
    rdt = torch.float64
    sig = torch.linspace(lo, 1.0, n, dtype=rdt) if n > 1 else torch.ones(1, dtype=rdt)
    cd = torch.complex128 if dtype.is_complex else torch.float64
    q1 = orth(n, cd, g)
    q2 = orth(n, cd, g)
    return (q1 * sig.to(cd)) @ q2.transpose(-1, -2).conj()


def _sym_spectrum(n, lo, hi, g):
    lam = torch.linspace(lo, hi, n, dtype=torch.float64) if n > 1 else torch.tensor([0.5 * (lo + hi)], dtype=torch.float64)
    q = orth(n, torch.float64, g)
    h = (q * lam) @ q.T
    return 0.5 * (h + h.T)


def _centre(shape, dyadic=False):
    """fixed, sign-alternating, O(1) centre"""
    N = int(math.prod(shape))
    if dyadic:
        v = torch.tensor([(1.0 + 0.25 * (i % 5)) * (1 if i % 2 == 0 else -1) for i in range(N)], dtype=torch.float64)
    else:
        v = torch.tensor([(0.6 + 0.9 * ((i * 7) % 11) / 11.0) * (1 if i % 2 == 0 else -1) for i in range(N)],
                         dtype=torch.float64)
    return v.reshape(shape)


class Problem:
    """one numeric instance.  `tensors` / `names`: the explicit parameters, in the order the functions take them."""

    def __init__(self, family, n, kind, dtype="float64", centred=True, plane=0, seed=0, sigma=1.0):
        # sigma: the same problem with the unknown in other units (y' = sigma y, sigma a power of two):
        # g'(y') = sigma g(y' / sigma), F'(y') = sigma^2 F(y' / sigma); roots, guesses and tolerances scale with sigma
        self.sigma = float(sigma)
        self.family, self.n, self.kind = family, n, kind
        self.dtype = DT[dtype]
        self.shape = shape_of(n, kind)
        self.s = S_OF[family]
        self.is_min = family in MIN_FAMILIES
        self.centred = centred
        s = self.s
        # plane 0 is fixed; other planes (thorough tier) derive from the seed
        g = gen(7919 * plane + (0 if plane == 0 else 104729 * (int(seed) % 100000 + 1)) + 31 * n + KINDS.index(kind))
        cdt = self.dtype
        dy = family in ("dyadic", "dquad")
        yc = _centre(self.shape, dyadic=dy)
        if cdt.is_complex:
            yc = torch.complex(yc, 0.5 * yc.flip(-1) + 0.25)
        if centred:
            c = yc.clone()
        else:
            off = 0.3 * randn(self.shape, torch.complex128 if cdt.is_complex else torch.float64, g)
            c = yc + off
        P = {}
        if family in ("affine", "caffine"):
            P["M"] = s * _unit_norm_matrix(n, cdt, g, lo=0.4)
        elif family == "dyadic":
            P["M"] = 0.5 * torch.eye(n, dtype=torch.float64)
        elif family == "const":
            P["M"] = torch.zeros((n, n), dtype=torch.float64)
        elif family in ("tanh02", "tanh06"):
            P["W"] = _unit_norm_matrix(n, cdt, g, lo=0.5)
            P["a"] = 0.4 * randn(self.shape, torch.float64, g)
        elif family == "atan":
            pass
        elif family == "expand":
            P["M"] = -_sym_spectrum(n, 1.8, 2.2, g)
            P["a"] = 0.4 * randn(self.shape, torch.float64, g)
        elif family == "quad":
            P["H"] = _sym_spectrum(n, 1 - s, 1 + s, g)
        elif family == "dquad":
            P["H"] = 0.5 * torch.eye(n, dtype=torch.float64)
        elif family == "lcosh":
            P["W"] = _unit_norm_matrix(n, cdt, g, lo=0.5)
            P["a"] = 0.4 * randn(self.shape, torch.float64, g)
        else:
            raise KeyError(family)
        P["c"] = c
        P["yc"] = yc
        self.names = list(P.keys())
        self.tensors = [P[k].to(cdt).contiguous() for k in self.names]
        self.ystar = (self.tensors[self.names.index("yc")] * self.sigma).clone() if centred else None

    # ---- maps.  All take (y, *params) with params in self.names order
    def g(self, y, *p):
        if self.sigma != 1.0:
            return self.sigma * self._g(y / self.sigma, *p)
        return self._g(y, *p)

    def _g(self, y, *p):
        fam, kind, s = self.family, self.kind, self.s
        q = dict(zip(self.names, p))
        d = y - q["yc"]
        if fam in ("affine", "caffine", "dyadic", "const"):
            return q["c"] + lin(q["M"], d, kind)          # s is folded into M
        if fam in ("tanh02", "tanh06"):
            return q["c"] + s * (torch.tanh(lin(q["W"], d, kind) + q["a"]) - torch.tanh(q["a"]))
        if fam == "atan":
            return q["c"] + d - 0.5 * torch.atan(d)
        if fam == "expand":
            return q["c"] + lin(q["M"], d, kind) + 0.5 * (torch.sin(d + q["a"]) - torch.sin(q["a"]))
        raise KeyError(fam)

    def f(self, y, *p):
        return y - self.g(y, *p)

    def F(self, y, *p):
        if self.sigma != 1.0:
            return self.sigma ** 2 * self._F(y / self.sigma, *p)
        return self._F(y, *p)

    def _F(self, y, *p):
        fam, kind, s = self.family, self.kind, self.s
        q = dict(zip(self.names, p))
        d = y - q["yc"]
        if fam in ("quad", "dquad"):
            # grad = H d - (c - yc)
            return 0.5 * (d * lin(q["H"], d, kind)).sum() - ((q["c"] - q["yc"]) * d).sum()
        if fam == "lcosh":
            # F = 1/2 |y - c|^2 - s [ sum logcosh(W d + a) - tanh(a) . (W d) ] ; Hessian = I - s W^T diag(sech^2) W
            u = lin(q["W"], d, kind)
            a = q["a"]
            ta = _dlogcosh(a) if self.centred else torch.tanh(a)
            dp = y - q["c"]
            return 0.5 * (dp * dp).sum() - s * (_logcosh(u + a).sum() - (ta * u).sum())
        raise KeyError(fam)

    def gradF(self, y, *p):
        """gradient of F w.r.t. y, computed the way minimize computes it (autograd on a fresh leaf)"""
        with torch.enable_grad():
            y1 = y.detach().clone().requires_grad_()
            z = self.F(y1, *p)
            gy, = torch.autograd.grad(z, (y1,), create_graph=torch.is_grad_enabled() and any(
                isinstance(t, torch.Tensor) and t.requires_grad for t in p))
        return gy

    # ---- bounds
    def mu(self):
        """lower bound on the smallest singular value of the Jacobian of the root form / of the Hessian"""
        if self.family == "expand":
            return 2.3
        return 1.0 - self.s

    def lip(self):
        if self.family == "expand":
            return 3.7
        if self.family == "atan":
            return 0.5
        return 1.0 + self.s

    def guess(self, name):
        if self.sigma != 1.0:
            return (self._guess(name) * self.sigma).contiguous()
        return self._guess(name)

    def _guess(self, name):
        ys = self.tensors[self.names.index("yc")]
        dy = self.family in ("dyadic", "dquad")
        N = ys.numel()
        if dy:
            u = torch.tensor([(1.0 if i % 3 else -0.5) for i in range(N)], dtype=torch.float64).reshape(self.shape)
        else:
            u = torch.tensor([math.cos(1.0 + 2.3 * i) for i in range(N)], dtype=torch.float64).reshape(self.shape)
        u = u.to(self.dtype)
        if self.dtype.is_complex:
            u = u * (0.8 + 0.6j)
        if name == "zero":
            return torch.zeros_like(ys)
        if name == "far":
            return (ys + 3.0 * u).contiguous()
        if name in ("u4", "u10", "u15"):
            # the same offset in every component: all components run the same scalar iteration, the Jacobian of a
            # component-wise map stays a multiple of the identity (perfectly conditioned) along the whole path
            return (ys + float(name[1:])).contiguous()
        if name == "near":
            return (ys + (2.0 ** -10) * u).contiguous()
        if name == "exact":
            return ys.clone()
        raise KeyError(name)


def _logcosh(u):
    return torch.log(torch.cosh(u))


def _dlogcosh(a):
    """d/da sum logcosh(a), computed through the same autograd ops as the objective (bit-identical), detached"""
    with torch.enable_grad():
        a1 = a.detach().clone().requires_grad_()
        t, = torch.autograd.grad(_logcosh(a1).sum(), (a1,))
    return t.detach()


def flat_norm(t):
    """the norm the solvers use: 2-norm of the flattened tensor (complex: of real and imaginary parts together)"""
    return float(t.detach().reshape(-1).norm().item())
