"""C16 -- mcquad returns the weighted sample mean it documents, with its gradient.

Every lattice point runs the real `xitorch.integrate.mcquad`.  Spies log every point at which f, log p and the
custom step are called.  The weights the implementation applies are extracted with the integrand whose k-th answer
is e_k; the sample sequence of `mhcustom` is compared with the chain x0, g(x0), g(g(x0)), ... computed by the
harness; gradients are compared with explicit autograd through the self-normalised weighted mean on the logged
samples (whose derivative w.r.t. the parameters of log p is exactly the covariance / score-function estimator)."""
from __future__ import annotations
import math
import re
import numpy as np
import torch
from mc.util import V, call, rnd

ID = "C16"
LEVEL = "exploration"
DESIGN_REF = "DESIGN.md §5 C16"
RULE = ("case = (sampler configuration, f output kind {scalar, vector, tuple}, where f's parameters live {explicit, "
        "nn.Module, EditableModule, absent}, where log p's parameters live (same 4), unused tensor {none, explicit in "
        "fparams, explicit in pparams, held by f's module, held by log p's module}, (order, objective) out of {(0), (1, "
        "linear), (2, linear), (2, quadratic in the result)}).  Sampler configurations: mhcustom x 3 deterministic steps "
        "g x (nsamples, nburnout) in {1,2,3,7,20} x {0,1,3,10}; _dummy1d x nsamples {5,20,60} x bounds {infinite, "
        "finite, half}; mh x (nsamples, nburnout) x step size {0.3, 1.0} x owned seed {0, 1}.  Two complete cross "
        "products are enumerated: block A = all sampler configurations x f output x orders with explicit parameters; "
        "block B = a fixed set of sampler configurations x the complete parameter-placement lattice x orders "
        "(thorough: larger sets in B).  distinct = distinct observation hashes")
RULE_ADDED = 'Added later: parameters shared between f and log p, mh drift plane, step functions returning a reused buffer, integer-valued (int64) chain state, call-order plane in fresh interpreters. Round 4: integrands returning the sample itself (fout ident) or a tensor the caller holds (constant integrand; must stay untouched). Round 5: bck_options carrying the keywords of the sampler (nsamples, nburnout, step_size, lb, ub) with other values than the forward options - everything judged as without them. Round 6: objective sq0 (zero cotangent, second-order content); mh on densities with bounded support (log p NaN / -inf outside). Round 7: mh on states of several components (shapes (3,), (2, 2), (1, 4)): increments of the collected states span the state space.'
ASSUMPTIONS = [
    "an evaluation of f that carries zero weight in the result and happens at x0 is the documented shape probe",
    "mhcustom: the sample sequence must be a contiguous run of nsamples chain states starting at index nburnout-1, "
    "nburnout or nburnout+1 (three readings of 'after nburnout burn-in steps')",
    "reference for gradients: R = sum_i W_i f(x_i) with W_i = w_i rho_i / sum_j w_j rho_j, rho_i = exp(log p(x_i) - "
    "stopgrad log p(x_i)) on the logged samples x_i and extracted weights w_i; its derivatives are the mean of df and the "
    "covariance estimator, to every order (for _dummy1d this is the exact derivative of the normalised weights)",
    "objective 'lin' = <v, y> with constant v; 'sq' = <v, y*y> (cotangent depends on the result); second order "
    "differentiates a fixed combination S = sum <r, first-order gradients> again",
    "tolerance 1e3 * nsamples * eps * M with M a per-sample magnitude bound computed by the harness",
    "mh: only seed-independent facts are judged (counts, weights, linearity, reproducibility under equal seed, "
    "estimator identity on the logged samples); the seed is set immediately before each library call",
]
BUDGET_S = {"quick": 600, "thorough": 3000}

NS = [1, 2, 3, 7, 20]
NB = [0, 1, 3, 10]
FOUTS = ["scalar", "vector", "tuple", "ident"]     # ident: the integrand returns the sample tensor ITSELF
KINDS = ["explicit", "nn", "edit", "absent"]
ORDERS = [(1, "lin"), (2, "lin"), (2, "sq"), (2, "sq0")]


def _sampler_cfgs_all():
    out = []
    for g in ("shift", "affine", "rot2", "ring"):
        for ns in NS:
            for nb in NB:
                out.append({"sampler": "mhcustom", "g": g, "nsamples": ns, "nburnout": nb})
                if ns in (3, 7) and nb in (0, 3):
                    out.append({"sampler": "mhcustom", "g": g, "nsamples": ns, "nburnout": nb, "stepmode": "buffer"})
    for ns in (5, 20, 60):
        for bounds in ("inf", "fin", "half"):
            out.append({"sampler": "dummy1d", "nsamples": ns, "bounds": bounds})
    for ns in NS:
        for nb in NB:
            for step in (0.3, 1.0):
                for ms in (0, 1):
                    out.append({"sampler": "mh", "nsamples": ns, "nburnout": nb, "step": step, "mseed": ms})
    return out


def _sampler_cfgs_B(tier):
    if tier == "quick":
        return [{"sampler": "mhcustom", "g": "rot2", "nsamples": 7, "nburnout": 3},
                {"sampler": "mhcustom", "g": "affine", "nsamples": 3, "nburnout": 1},
                {"sampler": "mhcustom", "g": "ring", "nsamples": 7, "nburnout": 1},
                {"sampler": "dummy1d", "nsamples": 20, "bounds": "inf"},
                {"sampler": "mh", "nsamples": 7, "nburnout": 3, "step": 1.0, "mseed": 0}]
    out = []
    for g in ("shift", "affine", "rot2", "ring"):
        for (ns, nb) in ((7, 3), (3, 1), (1, 0), (20, 10)):
            out.append({"sampler": "mhcustom", "g": g, "nsamples": ns, "nburnout": nb})
    for ns, bounds in ((20, "inf"), (5, "fin"), (60, "half")):
        out.append({"sampler": "dummy1d", "nsamples": ns, "bounds": bounds})
    for (ns, nb, step, ms) in ((7, 3, 1.0, 0), (3, 1, 0.3, 1), (20, 10, 1.0, 1)):
        out.append({"sampler": "mh", "nsamples": ns, "nburnout": nb, "step": step, "mseed": ms})
    return out


def cases(tier, seed):
    out = []
    seen = set()

    def add(c):
        k = tuple(sorted(c.items()))
        if k not in seen:
            seen.add(k)
            out.append(c)
    # block A: every sampler configuration
    for sc in _sampler_cfgs_all():
        for fo in FOUTS:
            for (order, loss) in ORDERS:
                c = dict(sc)
                c.update({"fout": fo, "fkind": "explicit", "pkind": "explicit", "unused": "none", "linear": "none",
                          "order": order, "loss": loss})
                add(c)
    # block A': bck_options carrying the sampler's keywords with other values (must not reach the forward sampling)
    for sc in _sampler_cfgs_all():
        if sc.get("stepmode"):
            continue
        for fo in ("scalar", "tuple"):
            for bck in (1, 2):
                c = dict(sc)
                c.update({"fout": fo, "fkind": "explicit", "pkind": "explicit", "unused": "none", "linear": "none",
                          "order": 2, "loss": "sq", "bck": bck})
                add(c)
    # block D: mh continues from the burned-in state (drift density, see _run_mh_drift)
    for (ns, nb) in ((5, 40), (1, 25), (12, 60)):
        for step in (1.0, 0.5):
            for ms in (0, 1, 2):
                add({"sampler": "mh_drift", "nsamples": ns, "nburnout": nb, "step": step, "mseed": ms})
    # block D'': mh on a state of several components (shapes (3,), (2, 2), (1, 4)): the random-walk proposals move the
    # components independently, so the increments of the collected samples span the whole state space
    for shape in ("3", "2x2", "1x4"):
        for (ns, nb) in ((40, 5), (25, 0)):
            for step in (0.7, 0.3):
                for ms in (0, 1, 2):
                    add({"sampler": "mh_multi", "shape": shape, "nsamples": ns, "nburnout": nb, "step": step,
                         "mseed": ms})
    # block D': densities with bounded support (log p NaN / -inf outside), chain started near the boundary
    for (ns, nb) in ((40, 10), (200, 0), (12, 60)):
        for step in (1.0, 0.5):
            for ms in (0, 1, 2):
                for outside in ("nan", "-inf"):
                    add({"sampler": "mh_support", "nsamples": ns, "nburnout": nb, "step": step, "mseed": ms,
                         "outside": outside})
    # block B: every placement of the parameters
    for sc in _sampler_cfgs_B(tier):
        for fo in FOUTS:
            for fk in KINDS:
                for pk in KINDS:
                    unused = ["none", "f_explicit", "p_explicit"]
                    if fk == "nn":
                        unused.append("f_held")
                    if pk == "nn":
                        unused.append("p_held")
                    for un in unused:
                        if fk == "absent" and pk == "absent" and un == "none":
                            orders = [(0, "lin")]
                        else:
                            orders = ORDERS
                        for (order, loss) in orders:
                            c = dict(sc)
                            c.update({"fout": fo, "fkind": fk, "pkind": pk, "unused": un, "linear": "none", "order": order, "loss": loss})
                            add(c)
                    # f / log p linear in a parameter: its second-order gradient is zero, not an error
                    for lin in ("f", "p"):
                        if (lin == "f" and fk == "absent") or (lin == "p" and pk == "absent"):
                            continue
                        for loss in ("lin", "sq"):
                            c = dict(sc)
                            c.update({"fout": fo, "fkind": fk, "pkind": pk, "unused": "none", "linear": lin, "order": 2, "loss": loss})
                            add(c)
            # f and log p are methods of ONE object and share a held tensor (log p's width is a + 0.1)
            for sk in ("shared", "shared_nn"):
                for (order, loss) in ORDERS:
                    c = dict(sc)
                    c.update({"fout": fo, "fkind": sk, "pkind": sk, "unused": "none", "linear": "none", "order": order, "loss": loss})
                    add(c)
    return out


# ------------------------------------------------------------------ the functions

F_VALS = {"a": 0.8, "b": -1.2}
P_VALS = {"w": 0.9, "q": 0.55}


def _fl(x):
    """integer-valued states (discrete chains of mhcustom) enter the formulas as float64"""
    return x if x.is_floating_point() else x.to(torch.float64) * 0.25


def f_math(fout, x, a, b, linear=False):
    x = _fl(x)
    if fout == "ident":
        return x        # the very tensor object it was given (float states): f(x) = x, E[f] = mean of the samples
    xx = (x * x).sum()
    if linear:      # linear in (a, b), no cross term: d f / d theta does not depend on theta
        if fout == "scalar":
            return b * torch.cos(x).sum() + a * xx
        if fout == "vector":
            return torch.stack([b * torch.cos(x).sum(), a * xx, a + b + 0.0 * xx])
        return (b * torch.sin(x).sum(), torch.stack([a * xx, b * torch.cos(x).sum()]))
    if fout == "scalar":
        return b * torch.cos(a * x).sum() + a * a * xx
    if fout == "vector":
        return torch.stack([b * torch.cos(a * x).sum(), a * xx, a * b + 0.0 * xx])
    return (b * torch.sin(a * x).sum(), torch.stack([a * xx, b * b * torch.cos(x).sum()]))


def logp_math(x, w, q, linear=False):
    x = _fl(x)
    x2 = x * x
    if linear:      # linear in q (an exponential-family natural parameter)
        return -x2.sum() / (2.0 * w * w) - q * (x2 * x2).sum() / 4.0
    return -x2.sum() / (2.0 * w * w) - q * q * (x2 * x2).sum() / 4.0


COT = {"scalar": [torch.tensor(0.8, dtype=torch.float64)],
       "vector": [torch.tensor([0.8, -0.6, 0.3], dtype=torch.float64)],
       "tuple": [torch.tensor(0.8, dtype=torch.float64), torch.tensor([0.5, -0.6], dtype=torch.float64)]}


def g_step(name, x):
    if name == "shift":
        return x + 0.125
    if name == "affine":
        return 0.5 * x + 0.75
    if name == "ring":          # deterministic walk on the integers 0..6 (int64 state)
        return (x * 3 + 1) % 7
    c, s = math.cos(0.7), math.sin(0.7)
    return torch.stack([c * x[0] - s * x[1], s * x[0] + c * x[1]]) * 0.9 + 0.1


def x0_of(sc):
    if sc["sampler"] == "mhcustom":
        if sc["g"] == "rot2":
            return torch.tensor([1.0, -0.5], dtype=torch.float64)
        if sc["g"] == "ring":
            return torch.tensor(2)
        return torch.tensor(-0.5 if sc["g"] == "shift" else 2.0, dtype=torch.float64)
    if sc["sampler"] == "dummy1d":
        return torch.tensor(0.0, dtype=torch.float64)
    return torch.tensor([0.3, -0.2], dtype=torch.float64)


def _sig(e):
    return "%s:%s" % (type(e).__name__, re.sub(r"\d+", "#", str(e).strip().split("\n")[0])[:70])


def _xkey(x):
    return tuple(float(v) for v in x.detach().reshape(-1).tolist())


def _make_callable(kind, names, tensors, body, extra_held=None):
    """body(x, named: dict, rest: tuple) -> value.  Returns (callable, explicit params list, module or None)."""
    import xitorch
    if kind in ("explicit", "absent"):
        k = len(names) if kind == "explicit" else 0
        const = dict(zip(names, tensors))

        def fn(x, *args):
            named = dict(zip(names, args[:k])) if kind == "explicit" else const
            return body(x, named, args[k:])
        return fn, (list(tensors) if kind == "explicit" else []), None
    if kind == "nn":
        class M(torch.nn.Module):
            def __init__(self):
                super().__init__()
                for nm, t in zip(names, tensors):
                    setattr(self, nm, t)
                if extra_held is not None:
                    self.held_unused = extra_held

            def forward(self, x, *args):
                return body(x, {nm: getattr(self, nm) for nm in names}, args)
        m = M()
        return m.forward, [], m

    class E(xitorch.EditableModule):
        def __init__(self):
            for nm, t in zip(names, tensors):
                setattr(self, nm, t)

        def forward(self, x, *args):
            return body(x, {nm: getattr(self, nm) for nm in names}, args)

        def getparamnames(self, methodname, prefix=""):
            return [prefix + nm for nm in names]
    m = E()
    return m.forward, [], m


def _run_mh_drift(cfg):
    """mh continues from the burned-in state: with log p(x) = c x (c = 200) every rightward proposal is accepted and
    a leftward one practically never, so the chain is non-decreasing and its state after the burn-in is the largest
    of the burn-in proposals (read from the logged evaluation points of log p).  Every collected sample must lie at
    or beyond that state.  Seed-independent up to probability exp(-c * slack)."""
    from xitorch.integrate import mcquad
    ns, nb, step = cfg["nsamples"], cfg["nburnout"], cfg["step"]
    plog, flog = [], []

    def logp(x):
        plog.append(float(x.detach().reshape(-1)[0]))
        return 200.0 * x.sum()

    def f(x):
        flog.append(float(x.detach().reshape(-1)[0]))
        return x.clone()
    x0 = torch.zeros(1, dtype=torch.float64)
    torch.manual_seed(4000 + cfg["mseed"])
    o = call(mcquad, f, logp, x0, fparams=(), pparams=(), method="mh", nsamples=ns, nburnout=nb, step_size=step)
    if o.exc is not None:
        return {"viol": [V("exception:" + _sig(o.exc), {"phase": "forward"}, phase="forward")],
                "obs": {"exc": _sig(o.exc)}, "status": "exception", "n": 1}
    viol = []
    burn = plog[:nb + 1]
    m_burn = max(burn) if burn else 0.0
    # the shape probe of f at x0 carries no weight; the samples are the last ns evaluation points of f
    samples = flog[-ns:]
    obs = {"p_calls": len(plog), "f_calls": len(flog), "burn_in_end_state": rnd(m_burn, 4),
           "first_sample": rnd(samples[0], 4) if samples else None}
    if len(plog) < nb + ns or len(samples) != ns:
        viol.append(V("mh-evaluation-counts", {"logp_calls": len(plog), "f_calls": len(flog), "nsamples": ns, "nburnout": nb}))
    elif m_burn > 3.0 * step and min(samples) < m_burn - 1.0 * step:
        viol.append(V("mh-samples-do-not-continue-from-the-burned-in-state",
                      {"burn_in_end_state": m_burn, "min_sample": min(samples), "first_sample": samples[0],
                       "nburnout": nb, "nsamples": ns, "step": step}))
    mean = float(o.value.detach().reshape(-1)[0])
    ref = sum(samples) / max(1, len(samples))
    if abs(mean - ref) > 1e-12 * max(1.0, abs(ref)):
        viol.append(V("value-is-not-the-weighted-sample-mean", {"observed": mean, "reference": ref, "mh_drift": True}))
    return {"viol": viol, "obs": obs, "status": "violation" if viol else "ok", "n": 1}


def _run_mh_multi(cfg):
    """standard normal density on a state of several components.  Deterministic necessary condition for a chain that
    can reach the whole space: once at least d + 2 distinct states were collected, their increments have rank d (a
    Gaussian random-walk proposal that moves every component produces rank-deficient increments with probability
    zero); the value is the mean of f over the collected samples and has the shape of the state."""
    from xitorch.integrate import mcquad
    ns, nb, step = cfg["nsamples"], cfg["nburnout"], cfg["step"]
    shape = tuple(int(t) for t in cfg["shape"].split("x"))
    flog = []

    def logp(x):
        return -0.5 * (x * x).sum()

    def f(x):
        flog.append(x.detach().clone())
        return x.clone()
    x0 = torch.zeros(shape, dtype=torch.float64)
    torch.manual_seed(5100 + cfg["mseed"])
    o = call(mcquad, f, logp, x0, fparams=(), pparams=(), method="mh", nsamples=ns, nburnout=nb, step_size=step)
    if o.exc is not None:
        return {"viol": [V("exception:" + _sig(o.exc), {"phase": "forward"}, phase="forward")],
                "obs": {"exc": _sig(o.exc)}, "status": "exception", "n": 1}
    viol = []
    samples = flog[-ns:]
    d = int(x0.numel())
    if len(samples) != ns or any(tuple(t.shape) != shape for t in samples):
        viol.append(V("mh-evaluation-counts", {"f_calls": len(flog), "nsamples": ns,
                                               "shapes": sorted({str(tuple(t.shape)) for t in flog})}))
        return {"viol": viol, "obs": {"f_calls": len(flog)}, "status": "violation", "n": 1}
    S = torch.stack([t.reshape(-1) for t in samples])
    distinct = len({tuple(r.tolist()) for r in S})
    sv = torch.linalg.svdvals(S - S[0])
    rank = int((sv > 1e-9 * max(float(sv[0]), 1e-300)).sum())
    obs = {"distinct": distinct, "rank": rank, "d": d}
    if distinct >= d + 2 and rank < d:
        viol.append(V("mh-chain-confined-to-a-subspace", {"rank_of_increments": rank, "dimension": d,
                                                           "distinct_states": distinct}))
    val = o.value.detach()
    ref = S.mean(dim=0).reshape(shape)
    if tuple(val.shape) != shape or float((val - ref).abs().max()) > 1e-12:
        viol.append(V("value-is-not-the-weighted-sample-mean", {"shape": list(val.shape), "mh_multi": True}))
    return {"viol": viol, "obs": obs, "status": "violation" if viol else "ok", "n": 1, "trivial": distinct < d + 2}


def _run_mh_support(cfg):
    """a density with bounded support whose logarithm is NaN (not -inf) outside it: Gamma(3, 1) written as
    2 log x - x.  A proposal outside the support has no acceptance probability (NaN): it must not become a state
    of the chain, so every evaluation point of f lies in the support - for every seed (no statistics involved);
    the value is the mean of f over the collected samples."""
    from xitorch.integrate import mcquad
    ns, nb, step = cfg["nsamples"], cfg["nburnout"], cfg["step"]
    plog, flog = [], []
    neg_inf = cfg.get("outside") == "-inf"

    def logp(x):
        plog.append(float(x.detach().reshape(-1)[0]))
        if neg_inf:
            return torch.where(x > 0, 2.0 * torch.log(x.clamp(min=1e-300)) - x, torch.full_like(x, -math.inf)).sum()
        return (2.0 * torch.log(x) - x).sum()

    def f(x):
        flog.append(float(x.detach().reshape(-1)[0]))
        return x * x
    x0 = torch.full((1,), 0.3, dtype=torch.float64)
    torch.manual_seed(5000 + cfg["mseed"])
    o = call(mcquad, f, logp, x0, fparams=(), pparams=(), method="mh", nsamples=ns, nburnout=nb, step_size=step)
    if o.exc is not None:
        return {"viol": [V("exception:" + _sig(o.exc), {"phase": "forward"}, phase="forward")],
                "obs": {"exc": _sig(o.exc)}, "status": "exception", "n": 1}
    viol = []
    samples = flog[-ns:]
    proposals_outside = sum(1 for v in plog if not v > 0)
    outside = [v for v in flog if not v > 0]
    obs = {"p_calls": len(plog), "f_calls": len(flog), "proposals_outside": proposals_outside}
    if outside:
        viol.append(V("mh-sample-outside-the-support-of-p", {"n_outside": len(outside), "first": outside[0],
                                                              "nsamples": ns, "proposals_outside": proposals_outside}))
    val = float(o.value.detach().reshape(-1)[0])
    ref = sum(v * v for v in samples) / max(1, len(samples))
    if not abs(val - ref) <= 1e-12 * max(1.0, abs(ref)):
        viol.append(V("value-is-not-the-weighted-sample-mean", {"observed": val, "reference": ref, "mh_support": True}))
    return {"viol": viol, "obs": obs, "status": "violation" if viol else "ok", "n": 1,
            "trivial": proposals_outside == 0}


def run_case(cfg):
    from xitorch.integrate import mcquad
    if cfg["sampler"] == "mh_support":
        return _run_mh_support(cfg)
    if cfg["sampler"] == "mh_drift":
        return _run_mh_drift(cfg)
    if cfg["sampler"] == "mh_multi":
        return _run_mh_multi(cfg)
    sampler = cfg["sampler"]
    ns = cfg["nsamples"]
    nbo = cfg.get("nburnout", 0)
    fout, fk, pk, unused, order, loss = cfg["fout"], cfg["fkind"], cfg["pkind"], cfg["unused"], cfg["order"], cfg["loss"]
    flin, plin = cfg.get("linear") == "f", cfg.get("linear") == "p"
    eps = float(torch.finfo(torch.float64).eps)
    viol = []
    obs = {}
    nexec = 0
    x0 = x0_of(cfg)
    if fout == "ident":
        if not x0.is_floating_point():
            return {"viol": [], "obs": {"skipped": "identity integrand on an integer state"}, "status": "ok", "n": 0,
                    "trivial": True}
        cot = [torch.tensor(0.8, dtype=torch.float64)] if x0.dim() == 0 else \
            [torch.tensor([0.5, -0.6], dtype=torch.float64)[:x0.numel()].reshape(x0.shape)]
    else:
        cot = COT[fout]

    # ---- tensors
    def mk(val, kind):
        t = torch.tensor(val, dtype=torch.float64)
        if kind == "nn":
            return torch.nn.Parameter(t)
        if kind == "absent":
            return t
        return t.requires_grad_()
    shared = fk in ("shared", "shared_nn")
    fa, fb = mk(F_VALS["a"], "nn" if fk == "shared_nn" else fk), mk(F_VALS["b"], "nn" if fk == "shared_nn" else fk)
    pw, pq = mk(P_VALS["w"], pk), mk(P_VALS["q"], "nn" if pk == "shared_nn" else pk)
    if shared:
        # one object holds a, b, q; log p's width is the held tensor a shifted by a constant
        pw = fa + (P_VALS["w"] - F_VALS["a"])
    un_t = None
    if unused in ("f_explicit", "p_explicit"):
        un_t = torch.tensor([0.4, -0.2], dtype=torch.float64, requires_grad=True)
    elif unused in ("f_held", "p_held"):
        un_t = torch.nn.Parameter(torch.tensor([1.5, -2.5], dtype=torch.float64))

    logs = {"f": [], "p": [], "step": []}
    phase = ["fwd"]

    def f_body(x, named, rest):
        logs["f"].append((phase[0], _xkey(x)))
        return f_math(fout, x, named["a"], named["b"], flin)

    def p_body(x, named, rest):
        logs["p"].append((phase[0], _xkey(x)))
        return logp_math(x, named["w"], named["q"], plin)

    if shared:
        import xitorch as _xt
        wshift = P_VALS["w"] - F_VALS["a"]

        class _ShBase:
            def f(self, x, *args):
                return f_body(x, {"a": self.a, "b": self.b}, args)

            def logp(self, x, *args):
                return p_body(x, {"w": self.a + wshift, "q": self.q}, args)

        if fk == "shared":
            class Sh(_ShBase, _xt.EditableModule):
                def __init__(self):
                    self.a, self.b, self.q = fa, fb, pq

                def getparamnames(self, methodname, prefix=""):
                    if methodname == "f":
                        return [prefix + "a", prefix + "b"]
                    if methodname == "logp":
                        return [prefix + "a", prefix + "q"]
                    raise KeyError(methodname)
        else:
            class Sh(_ShBase, torch.nn.Module):
                def __init__(self):
                    torch.nn.Module.__init__(self)
                    self.a, self.b, self.q = fa, fb, pq
        shobj = Sh()
        ffcn, fpar, fmod = shobj.f, [], shobj
        pfcn, ppar, pmod = shobj.logp, [], shobj
    else:
        ffcn, fpar, fmod = _make_callable(fk, ["a", "b"], [fa, fb], f_body, un_t if unused == "f_held" else None)
        pfcn, ppar, pmod = _make_callable(pk, ["w", "q"], [pw, pq], p_body, un_t if unused == "p_held" else None)
    if unused == "f_explicit":
        fpar = fpar + [un_t]
    if unused == "p_explicit":
        ppar = ppar + [un_t]

    stepbuf = []

    def custom_step(x, *pp):
        logs["step"].append((phase[0], _xkey(x)))
        nxt = g_step(cfg["g"], x)
        if cfg.get("stepmode") == "buffer":
            # a step function that returns its (reused) work buffer: the sampler has to copy the state it stores
            if not stepbuf:
                stepbuf.append(torch.empty_like(nxt))
            stepbuf[0].copy_(nxt)
            return stepbuf[0]
        return nxt

    if sampler == "mhcustom":
        method = "mhcustom"
        opts = {"nsamples": ns, "nburnout": nbo, "custom_step": custom_step}
    elif sampler == "dummy1d":
        method = "_dummy1d"
        lb, ub = {"inf": (-math.inf, math.inf), "fin": (-1.5, 2.0), "half": (0.25, math.inf)}[cfg["bounds"]]
        opts = {"nsamples": ns, "lb": lb, "ub": ub}
    else:
        method = "mh"
        opts = {"nsamples": ns, "nburnout": nbo, "step_size": cfg["step"]}

    kw = {}
    if cfg.get("bck"):
        # options of the backward pass that carry the sampler's own keywords with OTHER values: they are documented
        # to affect the backward operation only, so samples, weights, value and gradients must be those of the
        # forward options
        bo = {"nsamples": ns + 2 if cfg["bck"] == 1 else max(1, ns - 1)}
        if sampler == "dummy1d":
            bo.update({"lb": -0.5, "ub": 0.5})
        else:
            bo["nburnout"] = nbo + 1
            if sampler == "mh":
                bo["step_size"] = 0.11
        kw["bck_options"] = bo

    def run(f, fparams):
        if sampler == "mh":
            torch.manual_seed(1000 + cfg["mseed"])
        return call(mcquad, f, pfcn, x0, fparams=fparams, pparams=tuple(ppar), method=method, **opts, **kw)

    def clear():
        for k in logs:
            del logs[k][:]

    # ---- (1) weights and samples: integrand whose k-th answer is e_k
    N = ns + 3
    elog = []

    def f_unit(x):
        k = len(elog)
        elog.append(x.detach().clone())
        e = torch.zeros(N, dtype=torch.float64)
        if k < N:
            e[k] = 1.0
        return e

    def extract():
        del elog[:]
        clear()
        o = run(f_unit, ())
        return o, [t.clone() for t in elog], {k: list(v) for k, v in logs.items()}

    o, xs_all, lg = extract()
    nexec += 1
    if o.exc is not None:
        return {"viol": [V("exception:" + _sig(o.exc), {"phase": "forward"}, phase="forward")],
                "obs": {"exc": _sig(o.exc)}, "status": "exception", "n": nexec}
    r = o.value
    if not isinstance(r, torch.Tensor) or r.numel() != N:
        return {"viol": [V("result-structure", {"type": type(r).__name__}, phase="forward")], "obs": {}, "status": "violation", "n": nexec}
    wall = r.detach().reshape(-1).numpy()
    obs["f_calls"] = len(xs_all)
    obs["p_calls"] = len(lg["p"])
    obs["step_calls"] = len(lg["step"])
    samples, weights, probes = [], [], 0
    for k, xk in enumerate(xs_all[:N]):
        if wall[k] == 0.0 and _xkey(xk) == _xkey(x0) and probes == 0 and k == 0:
            probes += 1
            continue
        samples.append(xk)
        weights.append(float(wall[k]))
    weights = np.asarray(weights)
    obs["probes"] = probes
    if len(xs_all) > N or len(samples) != ns:
        viol.append(V("sample-count", {"f_evaluations_in_estimate": len(samples) if len(xs_all) <= N else ">%d" % N,
                                       "nsamples": ns, "nburnout": nbo, "f_calls": len(xs_all)}, observed_count=len(samples)))
    if any(tuple(s.shape) != tuple(x0.shape) for s in samples):
        viol.append(V("sample-shape", {"seen": sorted({str(tuple(s.shape)) for s in samples}), "x0": list(x0.shape)}))
        return {"viol": viol, "obs": obs, "status": "violation", "n": nexec}
    wsum = float(weights.sum()) if len(weights) else float("nan")
    if not abs(wsum - 1.0) <= 16 * max(ns, len(weights)) * eps:
        viol.append(V("weights-do-not-sum-to-one", {"sum": wsum, "count": len(weights)}))
    if sampler in ("mhcustom", "mh") and len(weights):
        dev = float(np.max(np.abs(weights - 1.0 / ns)))
        if dev > 16 * eps:
            viol.append(V("weights-not-one-over-nsamples", {"weights": rnd(torch.tensor(weights)), "nsamples": ns}))

    # ---- (2) the sample sequence
    if sampler == "mhcustom" and samples:
        chain = [x0.clone()]
        for _ in range(nbo + max(ns, len(samples)) + 3):
            chain.append(g_step(cfg["g"], chain[-1]))
        ckeys = [_xkey(c) for c in chain]
        skeys = [_xkey(s) for s in samples]
        starts = [s for s in range(len(chain) - len(skeys) + 1) if ckeys[s:s + len(skeys)] == skeys]
        obs["chain_start"] = starts[:3]
        accepted = [s for s in (nbo - 1, nbo, nbo + 1) if s >= 0]
        if not starts:
            idx = [ckeys.index(k) if k in ckeys else None for k in skeys]
            viol.append(V("samples-are-not-a-contiguous-run-of-the-chain", {"chain_indices": idx[:12], "nsamples": ns, "nburnout": nbo}))
        elif len(skeys) == ns and not any(s in accepted for s in starts):
            viol.append(V("samples-do-not-start-after-the-burn-in", {"first_sampled_chain_index": starts[0], "accepted": accepted,
                                                                    "nsamples": ns, "nburnout": nbo}, first_index=starts[0]))
    if sampler == "dummy1d" and len(samples) == ns:
        # independent model of the deterministic sampler: tan of Gauss nodes, weights ~ w sec^2 p
        from scipy.special import roots_legendre
        tg, wg = roots_legendre(ns)
        tl, tu = math.atan(lb), math.atan(ub)
        t = tg * 0.5 * (tu - tl) + 0.5 * (tu + tl)
        xr = np.tan(t)
        with torch.no_grad():
            lpv = np.asarray([float(logp_math(torch.tensor(float(v), dtype=torch.float64), pw, pq, plin)) for v in xr])
        u = wg * 0.5 * (tu - tl) / np.cos(t) ** 2 * np.exp(lpv)
        wr = u / u.sum()
        xs_ = np.asarray([float(s) for s in samples])
        tolx = 64 * eps * ((1 + xr * xr) * (abs(tl) + abs(tu)) + np.abs(xr))
        if np.any(np.abs(xs_ - xr) > tolx):
            viol.append(V("dummy1d-abscissae", {"max_diff": float(np.max(np.abs(xs_ - xr)))}))
        # weights: absolute deviations summed (Gauss weights are only accurate to ~n eps in the aggregate)
        lpsens = 2.0 + (1 + xr * xr) * (abs(tl) + abs(tu)) * (2 * np.abs(xr) + np.abs(xr) / 0.81 + 0.6 * np.abs(xr) ** 3)
        excess = float(np.sum(np.maximum(0.0, np.abs(weights - wr) - 64 * eps * wr * lpsens)))
        obs["d1w"] = rnd(excess / (64 * ns * eps), 2)
        if excess > 64 * ns * eps:
            viol.append(V("dummy1d-weights", {"summed_excess": excess, "tol": 64 * ns * eps}))
    if sampler == "mh":
        o2, xs2, lg2 = extract()
        nexec += 1
        same = o2.exc is None and len(xs2) == len(xs_all) and all(_xkey(a) == _xkey(b) for a, b in zip(xs2, xs_all)) \
            and bool(torch.equal(o2.value, r)) and lg2["p"] == lg["p"]
        obs["repro"] = bool(same)
        if not same:
            viol.append(V("not-reproducible-under-equal-seed", {"exc": _sig(o2.exc) if o2.exc is not None else None}))

    # ---- (3) constant integrand
    cval = torch.tensor([2.5, -1.0], dtype=torch.float64)
    clear()
    ckeep = cval.clone()
    oc = run(lambda x: cval, ())        # returns a tensor the caller holds: it must come back untouched
    nexec += 1
    if not torch.equal(cval, ckeep):
        viol.append(V("tensor-returned-by-the-integrand-modified-in-place", {"before": [2.5, -1.0], "after": rnd(cval, 12)}))
        cval = ckeep.clone()
    if oc.exc is not None:
        viol.append(V("exception:" + _sig(oc.exc), {"phase": "constant"}, phase="constant"))
    else:
        dc = float((oc.value.detach() - cval).abs().max())
        obs["const"] = rnd(dc / eps, 2)
        if not dc <= 16 * ns * eps * 2.5:
            viol.append(V("constant-integrand-not-returned", {"observed": rnd(oc.value.detach(), 12), "constant": [2.5, -1.0]}))
    if len(samples) != ns or any(v["failure"].startswith("weights") for v in viol):
        return {"viol": viol, "obs": obs, "status": "violation", "n": nexec}

    # ---- (4) the real integrand: value = explicit weighted mean on the same samples
    clear()
    phase[0] = "fwd"
    om = run(ffcn, tuple(fpar))
    nexec += 1
    if om.exc is not None:
        viol.append(V("exception:" + _sig(om.exc), {"phase": "forward"}, phase="forward"))
        return {"viol": viol, "obs": obs, "status": "exception", "n": nexec}
    y = om.value
    is_tuple = fout == "tuple"
    ys = list(y) if is_tuple else [y]
    struct_ok = (isinstance(y, (tuple, list)) if is_tuple else isinstance(y, torch.Tensor)) and len(ys) == len(cot) and \
        all(isinstance(t, torch.Tensor) and tuple(t.shape) == tuple(v.shape) for t, v in zip(ys, cot))
    if not struct_ok:
        viol.append(V("result-structure", {"type": type(y).__name__, "shapes": [list(getattr(t, "shape", [])) for t in ys]}, phase="forward"))
        return {"viol": viol, "obs": obs, "status": "violation", "n": nexec}
    fkeys = [k for (ph, k) in logs["f"]]
    skeys = [_xkey(s) for s in samples]
    if fkeys[-ns:] != skeys or len(fkeys) > ns + 1:
        viol.append(V("samples-depend-on-integrand", {"f_calls": len(fkeys), "nsamples": ns}))
        return {"viol": viol, "obs": obs, "status": "violation", "n": nexec}

    wt = torch.tensor(weights, dtype=torch.float64)

    def surrogate(with_p):
        """R = sum_i W_i f(x_i); W_i reweighted by exp(log p - stopgrad log p) when log p has differentiable parameters"""
        if with_p:
            lps = torch.stack([logp_math(s, pw, pq, plin).reshape(()) for s in samples])
            rho = torch.exp(lps - lps.detach())
            W = wt * rho
            W = W / W.sum()
        else:
            W = wt
        fs = [f_math(fout, s, fa, fb, flin) for s in samples]
        if is_tuple:
            return [sum(W[i] * fs[i][c] for i in range(ns)) for c in range(len(cot))]
        return [sum(W[i] * fs[i] for i in range(ns))]

    R0 = surrogate(False)
    worst = 0.0
    with torch.no_grad():
        fabs = [f_math(fout, s, fa, fb, flin) for s in samples]
        for c in range(len(cot)):
            mag = sum(abs(weights[i]) * (fabs[i][c] if is_tuple else fabs[i]).abs() for i in range(ns))
            tol = 16 * (ns + 2) * eps * mag + 1e-300
            e = (ys[c].detach() - R0[c].detach()).abs()
            worst = max(worst, float((e / tol).max()))
            if not bool(torch.all(e <= tol)):
                viol.append(V("value-is-not-the-weighted-sample-mean", {"component": c, "observed": rnd(ys[c].detach(), 12),
                                                                       "reference": rnd(R0[c].detach(), 12)}))
    obs["val"] = rnd(worst, 2)

    # ---- gradients
    inputs = []
    if fk != "absent":
        inputs += [("a", fa, "f"), ("b", fb, "f")]
    if shared:
        inputs += [("q", pq, "p")]          # w is a function of the shared tensor a
    elif pk != "absent":
        inputs += [("w", pw, "p"), ("q", pq, "p")]
    if un_t is not None:
        inputs.append(("unused", un_t, "unused"))
    if order == 0 or not inputs:
        obs["requires_grad"] = bool(any(t.requires_grad for t in ys))
        return {"viol": viol, "obs": obs, "status": "violation" if viol else "ok", "n": nexec}
    tens = [t for (_, t, _) in inputs]

    def objective(vals):
        if loss == "lin":
            return sum((v * t).sum() for v, t in zip(cot, vals))
        if loss == "sq0":
            # least squares at a perfect fit: the cotangent reaching mcquad is exactly zero, the second-order
            # content (Gauss-Newton term) is not
            return sum((v * (t - t.detach()) * (t - t.detach())).sum() for v, t in zip(cot, vals))
        return sum((v * t * t).sum() for v, t in zip(cot, vals))
    L = objective(ys)
    if not L.requires_grad:
        viol.append(V("result-not-differentiable", {}, phase="forward"))
        return {"viol": viol, "obs": obs, "status": "violation", "n": nexec}
    phase[0] = "bwd1"
    o1 = call(torch.autograd.grad, L, tens, create_graph=(order == 2), allow_unused=True)
    nexec += 1
    if o1.exc is not None:
        viol.append(V("exception:" + _sig(o1.exc), {"phase": "backward1"}, phase="backward1"))
        obs["exc"] = _sig(o1.exc)
        return {"viol": viol, "obs": obs, "status": "exception", "n": nexec}
    g1 = list(o1.value)
    obs["none1"] = [g is None for g in g1]
    off = [k for (ph, k) in logs["f"] if ph == "bwd1" and k not in set(skeys)]
    off_sample = bool(off)
    obs["bwd1_p_calls"] = sum(1 for (ph, k) in logs["p"] if ph == "bwd1")
    obs["bwd1_step_calls"] = sum(1 for (ph, k) in logs["step"] if ph == "bwd1")
    if off:
        viol.append(V("backward-evaluates-f-off-sample", {"count": len(off), "step_calls_in_backward": obs["bwd1_step_calls"],
                                                          "logp_calls_in_backward": obs["bwd1_p_calls"]}, phase="backward1"))

    # magnitude bound M from per-sample quantities
    used = [t for (_, t, role) in inputs if role != "unused"]
    M = 0.0
    cmax = max(float(v.abs().max()) for v in cot)
    Wn = weights
    mF = mS = mK = 0.0
    per = []
    for i, s in enumerate(samples):
        fv = f_math(fout, s, fa, fb, flin)
        fl = torch.cat([t.reshape(-1) for t in (fv if is_tuple else [fv])])
        F = float(fl.detach().abs().sum())
        dF = 0.0
        if fk != "absent":
            for comp in fl:
                if not comp.requires_grad:
                    continue
                gs = torch.autograd.grad(comp, [fa, fb], retain_graph=True, allow_unused=True)
                dF += sum(float(g.abs().sum()) for g in gs if g is not None)
        S = 0.0
        if pk != "absent":
            gs = torch.autograd.grad(logp_math(s, pw, pq, plin), [pw, pq], allow_unused=True)
            S = sum(float(g.abs().sum()) for g in gs if g is not None)
        x2 = float((s * s).sum())
        K = 1.0 + x2 + x2 * x2
        per.append((F, dF, S, K))
        M += abs(Wn[i]) * (1 + F + dF) * (1 + S) ** 2 * K
        mF += abs(Wn[i]) * (1 + F + dF)
        mS += abs(Wn[i]) * (1 + S)
        mK += abs(Wn[i]) * K
    M = max(M, mF * mS * mS * mK)
    ymax = max(1.0, max(float(t.detach().abs().max()) for t in ys))
    if loss in ("sq", "sq0"):
        M = M * 2 * ymax * (1 + mF)
    tol1 = 1e3 * ns * eps * M * cmax
    obs["M"] = rnd(M, 3)

    Rg = surrogate(pk != "absent")
    Lr = objective(Rg)
    if used and Lr.requires_grad:
        g1r = torch.autograd.grad(Lr, used, create_graph=(order == 2), allow_unused=True)
    else:       # only tensors that enter neither f nor log p were passed
        g1r = [None for _ in used]
    g1ref = {}
    ui = 0
    for (lab, t, role) in inputs:
        if role != "unused":
            g1ref[lab] = g1r[ui]
            ui += 1
    worst = 0.0
    for (lab, t, role), g in zip(inputs, g1):
        if role == "unused":
            if not (g is None or bool(torch.all(g == 0))):
                viol.append(V("unused-tensor-has-nonzero-gradient:order1", {"grad": rnd(g.detach())}, wrt=lab))
            continue
        ref = g1ref[lab]
        refv = torch.zeros_like(t) if ref is None else ref.detach()
        gv = torch.zeros_like(t) if g is None else g.detach()
        e = float((gv - refv).abs().max())
        worst = max(worst, e / tol1)
        if not e <= tol1:
            viol.append(V("grad-mismatch:%s-param:order1" % role, {"wrt": lab, "observed": rnd(gv, 12), "reference": rnd(refv, 12),
                                                                  "tol": tol1}, wrt=lab, off_sample=off_sample))
    obs["r1"] = rnd(worst, 2)
    if order == 1:
        return {"viol": viol, "obs": obs, "status": "violation" if viol else "ok", "n": nexec}

    # ---- second order
    S_lib = None
    S_ref = None
    terms = []
    rsum = 0.0
    for k, ((lab, t, role), g) in enumerate(zip(inputs, g1)):
        if role == "unused":
            if g is not None and g.requires_grad:
                S_lib = (g.sum() if S_lib is None else S_lib + g.sum())
            continue
        rr = math.cos(1.3 * k + 0.4)
        gr = g1ref[lab]
        if g is not None and g.requires_grad:
            S_lib = rr * g.sum() if S_lib is None else S_lib + rr * g.sum()
            terms.append(lab)
        elif gr is not None and gr.requires_grad:
            viol.append(V("first-order-gradient-not-differentiable", {"wrt": lab}, wrt=lab, phase="backward1"))
            continue
        if gr is not None and gr.requires_grad:
            S_ref = rr * gr.sum() if S_ref is None else S_ref + rr * gr.sum()
        rsum += abs(rr)
    obs["s_terms"] = terms
    if S_lib is None:
        return {"viol": viol, "obs": obs, "status": "violation" if viol else "ok", "n": nexec}
    phase[0] = "bwd2"
    o2 = call(torch.autograd.grad, S_lib, tens, allow_unused=True)
    nexec += 1
    if o2.exc is not None:
        viol.append(V("exception:" + _sig(o2.exc), {"phase": "backward2", "s_terms": terms}, phase="backward2"))
        obs["exc"] = _sig(o2.exc)
        return {"viol": viol, "obs": obs, "status": "exception", "n": nexec}
    g2 = list(o2.value)
    obs["none2"] = [g is None for g in g2]
    off2 = [k for (ph, k) in logs["f"] if ph == "bwd2" and k not in set(skeys)]
    if off2:
        off_sample = True
        viol.append(V("backward-evaluates-f-off-sample", {"count": len(off2)}, phase="backward2"))
    if S_ref is not None and used:
        g2r = torch.autograd.grad(S_ref, used, allow_unused=True)
    else:
        g2r = [None for _ in used]
    tol2 = tol1 * max(rsum, 1.0) * (1 + mS) * 4
    worst = 0.0
    ui = 0
    for (lab, t, role), g in zip(inputs, g2):
        if role == "unused":
            if not (g is None or bool(torch.all(g == 0))):
                viol.append(V("unused-tensor-has-nonzero-gradient:order2", {"grad": rnd(g.detach())}, wrt=lab))
            continue
        ref = g2r[ui]
        ui += 1
        refv = torch.zeros_like(t) if ref is None else ref.detach()
        gv = torch.zeros_like(t) if g is None else g.detach()
        e = float((gv - refv).abs().max())
        worst = max(worst, e / tol2)
        if not e <= tol2:
            viol.append(V("grad-mismatch:%s-param:order2" % role, {"wrt": lab, "observed": rnd(gv, 12), "reference": rnd(refv, 12),
                                                                  "tol": tol2}, wrt=lab, off_sample=off_sample))
    obs["r2"] = rnd(worst, 2)
    return {"viol": viol, "obs": obs, "status": "violation" if viol else "ok", "n": nexec}

# ---- call-order plane (executed by mc/core.py in fresh interpreters, see mc/props/_hist_common.py): the result of
# a call must not depend on which other calls (other dtype / method / size / options) were made before it
_HIST_LABELS = [('float32', 5, -2.0), ('float64', 5, -2.0), ('float64', 6, -2.0), ('float64', 5, -1.0)]
HISTORY = {"labels": ["/".join(str(x) for x in c) for c in _HIST_LABELS], "tol": [0.0001, 1e-12, 1e-12, 1e-12],
           "depth": {"quick": 2, "thorough": 3},
           "prelude": r'''import torch, xitorch
from xitorch.integrate import mcquad
CALLS = %r
def do(i):
    dtn, ns, lb = CALLS[i]
    dt = getattr(torch, dtn)
    a = torch.tensor(0.8, dtype=dt)
    w = torch.tensor(0.9, dtype=dt)
    y = mcquad(lambda x, a: (a * x * x + torch.cos(x)).sum(), lambda x, w: (-x * x / (2 * w * w)).sum(), torch.zeros(1, dtype=dt),
               fparams=(a,), pparams=(w,), method="_dummy1d", nsamples=ns, lb=lb, ub=2.0)
    return y.double().reshape(-1).tolist()
''' % (_HIST_LABELS,)}
