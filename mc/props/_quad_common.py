"""Shared pieces for the quadrature checks C12 / C13: reference Gauss-Legendre data that does not come from the
code under test, Legendre tables, limit builders, and extraction of the rule that `xitorch.integrate.quad`
really applies (engine E4: call-programmed integrand)."""
from __future__ import annotations
import math
import numpy as np
import torch

INF = float("inf")

DTYPES = {"float64": torch.float64, "float32": torch.float32}
NPDT = {"float64": np.float64, "float32": np.float32}

# name -> (xl, xu)
INTERVALS = {
    "unit": (0.0, 1.0),
    "sym": (-1.0, 1.0),
    "rev": (2.0, -3.0),
    "tiny": (1e-6, 2e-6),
    "big": (-1e3, 1e3),
    "micro": (0.0, 1e-9),                   # far below any "is the interval empty" tolerance
    "offset": (1e6, 1e6 + 1.0),             # short relative to its distance from the origin
    "0_inf": (0.0, INF),
    "ninf_0": (-INF, 0.0),
    "ninf_inf": (-INF, INF),
    "inf_0": (INF, 0.0),
    "1_inf": (1.0, INF),
}


def eps_of(dtname):
    return float(torch.finfo(DTYPES[dtname]).eps)


def is_inf_interval(xl, xu):
    return math.isinf(xl) or math.isinf(xu)


def rounded(val, dtname):
    """value of a python number after the cast to the working dtype"""
    if math.isinf(val):
        return val
    return float(NPDT[dtname](val))


# ------------------------------------------------------------------ reference data (independent of xitorch)

_LG = {}


def leg_ref(n):
    """Gauss-Legendre nodes / weights on [-1, 1] from scipy (xitorch takes its own from numpy)"""
    if n not in _LG:
        from scipy.special import roots_legendre
        x, w = roots_legendre(int(n))
        _LG[n] = (np.asarray(x, dtype=np.float64), np.asarray(w, dtype=np.float64))
    return _LG[n]


def ref_rule(n, xl, xu):
    """reference nodes/weights (float64) of the n-point rule on [xl, xu]; tan substitution for infinite limits.
    returns x, w, t (t = abscissae in the variable the Gauss rule lives in)"""
    g, wg = leg_ref(n)
    if is_inf_interval(xl, xu):
        tl, tu = math.atan(xl), math.atan(xu)
    else:
        tl, tu = xl, xu
    h = 0.5 * (tu - tl)
    c = 0.5 * (tu + tl)
    t = g * h + c
    w = wg * h
    if is_inf_interval(xl, xu):
        sec2 = 1.0 / np.cos(t) ** 2
        return np.tan(t), w * sec2, t
    return t, w, t


def legendre_table(t, kmax):
    """P_k(t_i) for k = 0..kmax by the three-term recurrence: array (kmax+1, len(t))"""
    t = np.asarray(t, dtype=np.float64)
    out = np.empty((kmax + 1, t.shape[0]), dtype=np.float64)
    out[0] = 1.0
    if kmax >= 1:
        out[1] = t
    for k in range(1, kmax):
        out[k + 1] = ((2 * k + 1) * t * out[k] - k * out[k - 1]) / (k + 1)
    return out


def gauss_defect(n):
    """sum_i w_i P_2n(t_i) on [-1, 1] for the true n-point Gauss-Legendre rule (the exact integral is 0):
    -k_2n * h_n with k_2n the leading coefficient of P_2n and h_n the squared norm of the monic P_n."""
    lg = math.lgamma
    return -math.exp(lg(4 * n + 1) + math.log(2.0) + 4 * lg(n + 1) - math.log(2 * n + 1) - 4 * lg(2 * n + 1))


# ------------------------------------------------------------------ limits

def make_limit(kind, val, dtname, requires_grad=False):
    """kind in float | int | t0 | t1 ; returns the object handed to quad"""
    if kind == "float":
        return float(val)
    if kind == "int":
        if math.isinf(val):
            return float(val)
        assert float(int(val)) == float(val)
        return int(val)
    dt = DTYPES[dtname]
    if kind == "t0":
        t = torch.tensor(float(val), dtype=dt)
    elif kind == "t1":
        t = torch.tensor([float(val)], dtype=dt)
    else:
        raise ValueError(kind)
    if requires_grad:
        t.requires_grad_()
    return t


FORMS = {  # form name -> (kind of xl, kind of xu)
    "float": ("float", "float"),
    "int": ("int", "int"),
    "t0": ("t0", "t0"),
    "t1": ("t1", "t1"),
    "mixed": ("float", "t1"),
    "mixed2": ("t0", "int"),
    "mixed3": ("t1", "t0"),
}


def int_ok(val):
    return math.isinf(val) or float(int(val)) == float(val)


def xval(x):
    """float value of whatever the library handed to the integrand as abscissa"""
    if isinstance(x, torch.Tensor):
        if x.numel() != 1:
            return float("nan")
        return float(x.detach().reshape(()).item())
    return float(x)


# ------------------------------------------------------------------ rule extraction

class Extracted:
    __slots__ = ("nodes", "weights", "n_calls", "n_probe", "probe_weight", "overflow", "xshape", "xdtype",
                 "res_shape", "exc")


def extract_rule(quad, xl_obj, xu_obj, n, dtname, end_values, extra_opts=None):
    """Run the real quad once with the integrand whose k-th answer is e_k.
    end_values: floats that identify a call as "evaluation at a limit" (dtype probe / boundary), not a node.
    Returns Extracted (exc set when the library raised)."""
    from mc.util import call
    dt = DTYPES[dtname]
    N = n + 4
    log = []

    def spy(x):
        k = len(log)
        log.append((xval(x), tuple(x.shape) if isinstance(x, torch.Tensor) else None,
                    str(x.dtype) if isinstance(x, torch.Tensor) else type(x).__name__))
        e = torch.zeros(N, dtype=dt)
        if k < N:
            e[k] = 1.0
        return e

    opts = {"method": "leggauss", "n": n}
    if extra_opts:
        opts.update(extra_opts)
    o = call(quad, spy, xl_obj, xu_obj, **opts)
    ex = Extracted()
    ex.exc = o.exc
    ex.n_calls = len(log)
    ex.overflow = len(log) > N
    ex.nodes = ex.weights = None
    ex.n_probe = 0
    ex.probe_weight = 0.0
    ex.xshape = ex.xdtype = ex.res_shape = None
    if o.exc is not None:
        return ex
    r = o.value
    ex.res_shape = tuple(r.shape) if isinstance(r, torch.Tensor) else None
    if not isinstance(r, torch.Tensor) or r.numel() != N:
        ex.exc = TypeError("result of quad is not a tensor with the integrand's number of elements: %r" % (ex.res_shape,))
        return ex
    r = r.detach().reshape(-1).to(torch.float64).numpy()
    ends = set(end_values)
    nodes, weights = [], []
    shapes, dts = set(), set()
    for k, (xv, shp, xdt) in enumerate(log[:N]):
        if xv in ends:
            ex.n_probe += 1
            ex.probe_weight = max(ex.probe_weight, abs(float(r[k])))
        else:
            nodes.append(xv)
            weights.append(float(r[k]))
            shapes.add(shp)
            dts.add(xdt)
    ex.nodes = np.asarray(nodes, dtype=np.float64)
    ex.weights = np.asarray(weights, dtype=np.float64)
    ex.xshape = sorted(shapes, key=str)
    ex.xdtype = sorted(dts)
    return ex
