"""Shared pieces of C14 (Interp1D) and C15 (SQuad): sample grids, fixed permutations and the boring
numpy/scipy reference models.  Nothing here imports xitorch."""
from __future__ import annotations
import math
import numpy as np
import torch

A0, B0 = -1.0, 2.0          # sample range; deliberately not [0, 1] (the repo tests only use [0, 1])

DTYPES = {"float64": torch.float64, "float32": torch.float32}


def grid_np(kind, n, seed=0, plane=0):
    """n strictly increasing positions in [A0, B0] (float64 numpy); max/min spacing ratio <= ~20"""
    i = np.arange(n, dtype=np.float64)
    if kind == "uniform":
        u = i / (n - 1)
    elif kind == "cheb":            # clustered towards both ends
        u = (1.0 - np.cos(np.pi * i / (n - 1))) / 2.0
    elif kind == "geom":            # geometric spacings, clustered towards the left end
        r = min(2.0, 20.0 ** (1.0 / max(n - 2, 1)))
        d = r ** np.arange(n - 1, dtype=np.float64)
        u = np.concatenate([[0.0], np.cumsum(d)]) / d.sum()
    elif kind == "nearuni":         # uniform up to a relative jitter of 3e-6 of a spacing: NOT equidistant
        u = (i + 3e-6 * np.cos(2.4 * i + 0.3)) / (n - 1)
    elif kind == "jitter":          # value plane: uniform grid with bounded seed-dependent jitter (ratio <= 4)
        rng = np.random.RandomState((int(seed) * 7919 + int(plane) * 104729 + n) % (2 ** 31 - 1))
        u = (i + 0.6 * (rng.rand(n) - 0.5)) / (n - 1)
        u[0], u[-1] = 0.0, 1.0
    else:
        raise ValueError(kind)
    u[0], u[-1] = 0.0, 1.0
    return A0 + (B0 - A0) * u


def grid(kind, n, dtype, seed=0, plane=0):
    """returns (torch tensor of dtype, float64 numpy array holding exactly the same numbers)"""
    x = torch.tensor(grid_np(kind, n, seed, plane), dtype=torch.float64).to(dtype)
    xs = x.to(torch.float64).numpy().copy()
    assert np.all(np.diff(xs) > 0)
    return x, xs


def fixed_perm(n):
    """a fixed permutation of range(n) that is neither the identity nor the reversal (n >= 3)"""
    if n <= 1:
        return list(range(n))
    if n == 2:
        return [1, 0]
    s = 2
    while math.gcd(s, n) != 1:
        s += 1
    p = [(i * s + 1) % n for i in range(n)]
    if p == list(range(n)) or p == list(range(n - 1, -1, -1)):
        p = p[1:] + p[:1]
    return p


def dense_coeffs(nb, seed=0, plane=0):
    """fixed dense coefficient vector with entries in [-2, 2], bounded away from 0"""
    rng = np.random.RandomState((int(seed) * 31337 + int(plane) * 977 + nb + 5) % (2 ** 31 - 1))
    c = rng.uniform(0.3, 2.0, size=nb) * np.where(rng.rand(nb) < 0.5, -1.0, 1.0)
    return c


def basis_np(n, periodic):
    """columns span the admissible sample vectors: all of R^n, or the y[0] == y[-1] subspace"""
    if not periodic:
        return np.eye(n)
    b = np.zeros((n, n - 1))
    b[0, 0] = 1.0
    b[n - 1, 0] = 1.0
    for j in range(1, n - 1):
        b[j, j] = 1.0
    return b


# ------------------------------------------------------------------ reference interpolants

def scipy_bc(bc):
    return "not-a-knot" if bc in (None, "None", "not-a-knot") else bc


def cubic_spline(xs, ycols, bc):
    from scipy.interpolate import CubicSpline
    return CubicSpline(xs, ycols, bc_type=scipy_bc(bc), axis=0)


def interp_matrix(xs, method, bc, basis, xq, nu=0, free=None):
    """(len(xq), nb) matrix of the reference interpolant (nu = 0) or of its first derivative (nu = 1) at points xq
    inside [xs[0], xs[-1]].  `free` (only for 3 knots with the not-a-knot condition, where the two end conditions
    coincide and the cubic through the samples is not unique): (position, per-column value) fixing the member."""
    xq = np.asarray(xq, dtype=np.float64)
    nb = basis.shape[1]
    if xq.size == 0:
        return np.zeros((0, nb))
    if method == "linear":
        if nu == 0:
            return np.stack([np.interp(xq, xs, basis[:, j]) for j in range(nb)], axis=1)
        idx = np.clip(np.searchsorted(xs, xq, side="left"), 1, len(xs) - 1)
        slope = (basis[1:, :] - basis[:-1, :]) / np.diff(xs)[:, None]
        return slope[idx - 1, :]
    if free is not None:
        pos, vals = free
        out = np.zeros((xq.size, nb))
        px = np.concatenate([xs, [pos]])
        for j in range(nb):
            co = np.polyfit(px - xs[0], np.concatenate([basis[:, j], [vals[j]]]), 3)
            if nu:
                co = np.polyder(co, nu)
            out[:, j] = np.polyval(co, xq - xs[0])
        return out
    cs = cubic_spline(xs, basis, bc)
    return cs(xq, nu)


def extrap_map(xq, a, b, mode):
    """independent model of the documented meaning of the position-mapping modes.
    returns (mapped positions inside [a, b], d mapped / d xq)"""
    xq = np.asarray(xq, dtype=np.float64)
    L = b - a
    u = (xq - a) / L
    if mode == "bound":             # left / right bound value
        w = np.clip(u, 0.0, 1.0)
        s = np.where((u >= 0) & (u <= 1), 1.0, 0.0)
    elif mode == "periodic":        # f(x + k L) = f(x)
        w = np.mod(u, 1.0)
        s = np.ones_like(u)
    elif mode == "mirror":          # even reflection about both ends: triangle wave of period 2 L
        v = np.mod(u, 2.0)
        w = np.where(v <= 1.0, v, 2.0 - v)
        s = np.where(v <= 1.0, 1.0, -1.0)
    else:
        raise ValueError(mode)
    return a + L * w, s
