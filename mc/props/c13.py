"""C13 -- quad gradients in parameters and limits.

Lattice: integrand family x n x bck_options x (form of xl) x (form of xu) x function kind x extra unused explicit
parameter x order.  Each point is executed against the real quad; every call of the integrand is logged together
with the phase (forward / first backward / second backward).  The reference is the rule that quad itself applies for
the n the statement prescribes (extracted through the public forward call with the e_k integrand, as in C12),
applied by explicit autograd to the derivative of the integrand; limits follow Leibniz."""
from __future__ import annotations
import math
import numpy as np
import torch
from mc.util import V, call, rnd, gen
from mc.props import _quad_common as qc

ID = "C13"
LEVEL = "exploration"
DESIGN_REF = "DESIGN.md §5 C13"
RULE = ("case = (integrand family, n, bck_options n' or absent, form of xl, form of xu out of {python number, tensor "
        "requiring grad, tensor not requiring grad, python +-inf, tensor +-inf}, function kind {pure function, "
        "nn.Module, EditableModule, nn.Module holding an extra parameter the integrand ignores}, extra explicit unused "
        "tensor parameter, (order, objective) out of {(1, linear), (2, linear), (2, quadratic in the result)} where order 1 "
        "uses create_graph=False and order 2 differentiates a fixed combination of the first-order gradients again, "
        "value plane); "
        "complete cross product (finite families for finite limits, decaying families when a limit is infinite); "
        "distinct = distinct observation hashes (call counts per phase, None pattern, rounded residual ratios)")
RULE_ADDED = 'Added later: limits-only plane (no differentiable parameter), caller-supplied method callable (composite midpoint rule) x bck_options present / absent (the backward abscissae must be those of the inherited callable), call-order plane in fresh interpreters. Round 4: objective sq0 (exactly zero cotangent with second-order content), kinds pure_twice / nn_twice (one tensor in two places). Round 6: the object is given other tensors between the forward call and the backward pass (kinds nn, edit).'
ASSUMPTIONS = [
    "finite limits are xl=-0.5, xu=1.25 (thorough adds the reversed orientation); float64 only",
    "the rule for the prescribed n is extracted from quad's own forward pass (C12 judges that rule); the reference "
    "gradient is explicit autograd through sum_i w_i f(x_i; theta) with constant nodes/weights, limits by Leibniz",
    "tolerance 64*n*eps * sum_i |w_i| |d f/d theta (x_i)| (magnitudes computed per node by the harness)",
    "integrand evaluations at an abscissa equal to a limit are boundary/dtype-probe evaluations; the distinct interior "
    "abscissae of a backward pass must be exactly the nodes of the prescribed rule (multiplicity is not judged)",
    "second order: S = sum <r, first-order gradients> with fixed r is differentiated again; the backward integral "
    "uses the backward options at every order",
    "objective 'lin' = <v, y> with constant v; 'sq' = <v, y*y>, whose cotangent 2 v y depends on the inputs through y "
    "(the Hessian of a nonlinear function of the integral); the reference chains through y with the same rule",
    "family 'lin' is linear in its parameter: its second-order parameter gradient is zero and must be returned as "
    "zero/None, not raised",
    "value plane 0 is fixed; planes >= 1 (thorough) draw the parameter values from VERIF_SEED",
]
BUDGET_S = {"quick": 600, "thorough": 3000}

XL_FIN, XU_FIN = -0.5, 1.25
LIMIT_FORMS = ["num", "tg", "tn", "inf", "tinf"]
KINDS = ["pure", "nn", "edit", "nn_extra"]
FIN_FAMILIES = ["cheb", "exp", "tuple", "lin"]
INF_FAMILIES = ["rat", "rat_tuple"]
NB_QUICK = {2: 5, 3: 2, 7: 3, 100: 6}


def cases(tier, seed):
    out = []
    if tier == "quick":
        ns = [2, 3, 7, 100]
        planes = [0]
        orients = ["fwd"]
    else:
        ns = [1, 2, 3, 4, 5, 7, 10, 33, 100]
        planes = [0, 1]
        orients = ["fwd", "rev"]
    for n in ns:
        if tier == "quick":
            nbs = [None, NB_QUICK[n]]
        else:
            nbs = [None] + sorted({max(1, n - 1), n + 1, 100 if n != 100 else 50} - {n})
        for nb in nbs:
            for fl in LIMIT_FORMS:
                for fu in LIMIT_FORMS:
                    infinite = fl in ("inf", "tinf") or fu in ("inf", "tinf")
                    for fam in (INF_FAMILIES if infinite else FIN_FAMILIES):
                        for kind in KINDS:
                            for extra in (False, True):
                                for order, loss in ((1, "lin"), (2, "lin"), (2, "sq"), (2, "sq0")):
                                    if loss == "sq0" and (kind not in ("pure", "nn") or extra):
                                        continue
                                    for plane in planes:
                                        for orient in orients:
                                            if orient == "rev" and infinite:
                                                continue
                                            if plane > 0 and (kind != "pure" or extra):
                                                continue
                                            c = {"family": fam, "n": n, "nb": nb, "xl_form": fl, "xu_form": fu, "kind": kind,
                                                 "extra": extra, "order": order, "loss": loss}
                                            if tier != "quick":
                                                c["plane"] = plane
                                                c["orient"] = orient
                                                if plane > 0:
                                                    c["seed"] = int(seed)
                                            out.append(c)
    # ---- one differentiable tensor in two places (two slots of params / held by the module and passed explicitly)
    for n in (3, 7):
        for nb in (None, NB_QUICK[n]):
            for fl in ("num", "tg", "inf"):
                for fu in ("num", "tg", "inf"):
                    infinite = "inf" in (fl, fu)
                    for fam in (INF_FAMILIES if infinite else FIN_FAMILIES):
                        for kind in ("pure_twice", "nn_twice"):
                            for order, loss in ((1, "lin"), (2, "lin"), (2, "sq")):
                                out.append({"family": fam, "n": n, "nb": nb, "xl_form": fl, "xu_form": fu, "kind": kind,
                                            "extra": False, "order": order, "loss": loss})
    # ---- the object is given other tensors between the forward call and the backward pass
    for n in (3, 7):
        for nb in (None, NB_QUICK[n]):
            for fl in ("num", "tg", "inf"):
                for fu in ("num", "tg", "inf"):
                    infinite = "inf" in (fl, fu)
                    for fam in (INF_FAMILIES if infinite else FIN_FAMILIES):
                        for kind in ("nn", "edit"):
                            for order, loss in ((1, "lin"), (2, "lin"), (2, "sq")):
                                out.append({"family": fam, "n": n, "nb": nb, "xl_form": fl, "xu_form": fu, "kind": kind,
                                            "extra": False, "order": order, "loss": loss, "mut": 1})
    # ---- caller-supplied method callable (composite midpoint rule): inherited by the backward integral
    for n in (3, 7):
        for nb in (None, NB_QUICK[n]):
            for fl in ("num", "tg", "inf"):
                for fu in ("num", "tg", "inf"):
                    infinite = "inf" in (fl, fu)
                    for fam in (INF_FAMILIES if infinite else FIN_FAMILIES):
                        for kind in (("pure", "nn") if tier == "quick" else KINDS):
                            for order, loss in ((1, "lin"), (2, "lin"), (2, "sq")):
                                out.append({"family": fam, "n": n, "nb": nb, "xl_form": fl, "xu_form": fu, "kind": kind,
                                            "extra": False, "order": order, "loss": loss, "methc": 1})
    # ---- limits-only plane: no parameter of the integrand is differentiable (frozen / plain tensors), only the
    # limits are; every combination of limit forms with at least one tensor limit that requires grad
    for n in ([3, 7] if tier == "quick" else [1, 2, 3, 7, 33]):
        for fl in LIMIT_FORMS:
            for fu in LIMIT_FORMS:
                if "tg" not in (fl, fu):
                    continue
                infinite = fl in ("inf", "tinf") or fu in ("inf", "tinf")
                for fam in (INF_FAMILIES if infinite else FIN_FAMILIES):
                    for kind in ("pure", "nn", "edit"):
                        for order, loss in ((1, "lin"), (2, "lin"), (2, "sq")):
                            out.append({"family": fam, "n": n, "nb": None, "xl_form": fl, "xu_form": fu, "kind": kind,
                                        "extra": False, "order": order, "loss": loss, "pgrad": 0})
    return out


# ------------------------------------------------------------------ integrand families

def _cheb(m, t):
    """Chebyshev polynomial T_m(t) in product form (one op, smooth everywhere)"""
    j = torch.arange(1, m + 1, dtype=torch.float64)
    roots = torch.cos((2 * j - 1) * math.pi / (2 * m))
    return torch.prod(2.0 * (t.reshape(()) - roots)) / 2.0


class Family:
    """f(x, *P) -> tensor or tuple of tensors; P = list of parameter tensors; v = cotangents (constants)"""

    def __init__(self, name, n, a, b, plane, seed):
        self.name = name
        self.n = n
        self.a, self.b = a, b        # finite reference interval for the affine coordinate
        g = gen(1000 * int(seed) + plane) if plane > 0 else None

        def val(base):
            base = torch.tensor(base, dtype=torch.float64)
            if g is None:
                return base
            return base * (0.6 + 0.8 * torch.rand(base.shape, dtype=torch.float64, generator=g))
        if name == "cheb":
            self.pvals = [val([0.7, -1.3, 0.9])]
            self.cot = [torch.tensor(0.8, dtype=torch.float64)]
        elif name == "exp":
            self.pvals = [val(1.1)]
            self.cot = [torch.tensor([0.8, -0.6], dtype=torch.float64)]
        elif name == "tuple":
            self.pvals = [val([0.7, -1.3, 0.9]), val(1.1)]
            self.cot = [torch.tensor(0.8, dtype=torch.float64), torch.tensor([0.5, -0.6], dtype=torch.float64)]
        elif name == "lin":
            self.pvals = [val([0.7, -1.3])]
            self.cot = [torch.tensor(0.8, dtype=torch.float64)]
        elif name == "rat":
            self.pvals = [val(1.3), val(0.7)]
            self.cot = [torch.tensor(0.8, dtype=torch.float64)]
        elif name == "rat_tuple":
            self.pvals = [val(1.3), val(0.7)]
            self.cot = [torch.tensor(0.8, dtype=torch.float64), torch.tensor([0.5, -0.6], dtype=torch.float64)]
        else:
            raise ValueError(name)
        self.is_tuple = name in ("tuple", "rat_tuple")

    def t(self, x):
        return (2.0 * x - (self.a + self.b)) / (self.b - self.a)

    def __call__(self, x, *P):
        x = torch.as_tensor(x, dtype=torch.float64)
        x = x.reshape(())
        n = self.n
        nm = self.name
        if nm == "cheb":
            c = P[0]
            t = self.t(x)
            return c[0] * c[1] * _cheb(2 * n, t) + c[2] * c[2] * _cheb(2 * n + 2, t) + c[0] + c[2] * t
        if nm == "exp":
            a = P[0]
            t = self.t(x)
            return torch.stack([torch.exp(a * t), t * torch.exp(-a * t)])
        if nm == "tuple":
            c, a = P
            t = self.t(x)
            return (c[0] * c[1] * _cheb(2 * n, t) + c[2] * c[2] * t,
                    torch.stack([torch.exp(a * t), c[0] * torch.exp(-a * t)]))
        if nm == "lin":
            c = P[0]
            t = self.t(x)
            return c[0] * _cheb(2 * n, t) + c[1] * t * t
        if nm == "rat":
            a, b = P
            return a / (1.0 + (b * x) ** 2)
        if nm == "rat_tuple":
            a, b = P
            bx2 = (b * x) ** 2
            return (a / (1.0 + bx2), torch.stack([a * torch.exp(-bx2), b / (1.0 + x * x) ** 2]))
        raise ValueError(nm)

    def phi(self, x, P, U):
        """scalar <U, f(x; P)>  (U = one cotangent tensor per output tensor)"""
        y = self(x, *P)
        ys = list(y) if self.is_tuple else [y]
        return sum((u * yy).sum() for u, yy in zip(U, ys))

    def phi_abs(self, x, P, U):
        with torch.no_grad():
            y = self(x, *P)
            ys = list(y) if self.is_tuple else [y]
            return sum((u.abs() * yy.abs()).sum() for u, yy in zip(U, ys))

    @property
    def ncomp(self):
        return sum(v.numel() for v in self.cot)

    @staticmethod
    def flat(ts):
        return torch.cat([t.detach().reshape(-1) for t in ts])

    def comp(self, x, P, c):
        """c-th scalar component of the (flattened) output"""
        y = self(x, *P)
        ys = list(y) if self.is_tuple else [y]
        return torch.cat([yy.reshape(-1) for yy in ys])[c]


def _sig(e):
    import re
    return "%s:%s" % (type(e).__name__, re.sub(r"\d+", "#", str(e).strip().split("\n")[0])[:70])


def _build(kind, fam, P, extra, dtens, spy):
    """returns (callable for quad, explicit params tuple)"""
    import xitorch
    npar = len(P)

    if kind == "pure":
        if extra:
            def f(x, *args):
                return spy(x, args[:npar])
            return f, tuple(P) + (dtens,)

        def f(x, *args):
            return spy(x, args)
        return f, tuple(P)

    if kind == "pure_twice":
        # the first differentiable tensor occupies TWO slots of params (it enters as the mean of the two)
        def f(x, *args):
            a = list(args[:npar])
            a[0] = 0.5 * (a[0] + args[npar])
            return spy(x, a)
        return f, tuple(P) + (P[0],)

    if kind == "nn_twice":
        # a parameter of the module is ALSO passed explicitly
        class M2(torch.nn.Module):
            def __init__(self):
                super().__init__()
                for i, p in enumerate(P):
                    setattr(self, "p%d" % i, p)

            def forward(self, x, p0again):
                a = [getattr(self, "p%d" % i) for i in range(npar)]
                a[0] = 0.5 * (a[0] + p0again)
                return spy(x, a)
        m = M2()
        return m.forward, (P[0],)

    if kind in ("nn", "nn_extra"):
        class M(torch.nn.Module):
            def __init__(self):
                super().__init__()
                for i, p in enumerate(P):
                    setattr(self, "p%d" % i, p)

            def forward(self, x, *args):
                return spy(x, [getattr(self, "p%d" % i) for i in range(npar)])
        m = M()
        return m.forward, ((dtens,) if extra else ())

    class E(xitorch.EditableModule):
        def __init__(self):
            for i, p in enumerate(P):
                setattr(self, "p%d" % i, p)

        def forward(self, x, *args):
            return spy(x, [getattr(self, "p%d" % i) for i in range(npar)])

        def getparamnames(self, methodname, prefix=""):
            return [prefix + "p%d" % i for i in range(npar)]
    m = E()
    return m.forward, ((dtens,) if extra else ())


def _limit(form, val):
    if form == "num":
        return float(val)
    if form == "inf":
        return float(val)
    t = torch.tensor(float(val), dtype=torch.float64)
    if form == "tg":
        t.requires_grad_()
    return t


def _zero_or_none(g):
    return g is None or (isinstance(g, torch.Tensor) and bool(torch.all(g == 0)))


class _Anti(torch.autograd.Function):
    """harness-side antiderivative surrogate of one output tensor: value 0, derivative f_k(x) (evaluated with autograd
    enabled, so it can be differentiated again)"""

    @staticmethod
    def forward(ctx, x, fk):
        ctx.fk = fk
        ctx.save_for_backward(x)
        with torch.no_grad():
            return torch.zeros_like(fk(x))

    @staticmethod
    def backward(ctx, g):
        x, = ctx.saved_tensors
        with torch.enable_grad():
            return (g * ctx.fk(x)).sum(), None


def _run_limits_only(cfg):
    """only the limits are differentiable: Leibniz rule to first and second order (reference: the returned value
    plus an antiderivative surrogate whose derivative is the integrand itself)"""
    from xitorch.integrate import quad
    fam_name, n = cfg["family"], cfg["n"]
    fl, fu, kind, order, loss = cfg["xl_form"], cfg["xu_form"], cfg["kind"], cfg["order"], cfg["loss"]
    eps = qc.eps_of("float64")
    xlv = -qc.INF if fl in ("inf", "tinf") else XL_FIN
    xuv = qc.INF if fu in ("inf", "tinf") else XU_FIN
    fam = Family(fam_name, n, XL_FIN, XU_FIN, 0, 0)
    if kind == "nn":
        P = [torch.nn.Parameter(p.clone(), requires_grad=False) for p in fam.pvals]
    else:
        P = [p.clone() for p in fam.pvals]
    log = []

    def spy(x, Pargs):
        log.append(qc.xval(x))
        return fam(x, *Pargs)
    fcn, params = _build(kind, fam, P, False, None, spy)
    xl, xu = _limit(fl, xlv), _limit(fu, xuv)
    viol, obs, nexec = [], {}, 1
    o = call(quad, fcn, xl, xu, params=params, method="leggauss", n=n)
    if o.exc is not None:
        return {"viol": [V("exception:" + _sig(o.exc), {"phase": "forward"}, phase="forward")],
                "obs": {"exc": _sig(o.exc)}, "status": "exception", "n": nexec}
    ys = list(o.value) if fam.is_tuple else [o.value]

    def objective(vals):
        if loss == "lin":
            return sum((v * yy).sum() for v, yy in zip(fam.cot, vals))
        return sum((v * yy * yy).sum() for v, yy in zip(fam.cot, vals))
    L = objective(ys)
    lims = [(lab, t) for lab, t, f in (("xl", xl, fl), ("xu", xu, fu)) if f == "tg"]
    tens = [t for _, t in lims]
    if not L.requires_grad:
        return {"viol": [V("result-not-differentiable", {"phase": "forward"}, phase="forward")], "obs": obs,
                "status": "violation", "n": nexec}
    o1 = call(torch.autograd.grad, L, tens, create_graph=(order == 2), allow_unused=True)
    nexec += 1
    if o1.exc is not None:
        return {"viol": [V("exception:" + _sig(o1.exc), {"phase": "backward1"}, phase="backward1")],
                "obs": {"exc": _sig(o1.exc)}, "status": "exception", "n": nexec}
    g1 = list(o1.value)
    # reference
    xr = {lab: t.detach().clone().requires_grad_() for lab, t in lims}
    nout = len(ys)

    def fk(k):
        def f(x):
            y = fam(x, *P)
            return (list(y) if fam.is_tuple else [y])[k]
        return f
    ysur = []
    for k in range(nout):
        val = ys[k].detach()
        if "xu" in xr:
            val = val + _Anti.apply(xr["xu"], fk(k))
        if "xl" in xr:
            val = val - _Anti.apply(xr["xl"], fk(k))
        ysur.append(val)
    Lr = objective(ysur)
    rt = [xr[lab] for lab, _ in lims]
    g1r = list(torch.autograd.grad(Lr, rt, create_graph=(order == 2), allow_unused=True))
    mag = 1.0 + max(float(fam.phi_abs(t.detach(), P, [c.abs() for c in fam.cot])) for _, t in lims)
    ymax = max(1.0, max(float(yy.detach().abs().max()) for yy in ys))
    tol1 = 64.0 * eps * mag * (2.0 * ymax if loss == "sq" else 1.0)
    worst = 0.0
    for (lab, _), g, r in zip(lims, g1, g1r):
        gv = torch.zeros(()) if g is None else g.detach()
        rv = torch.zeros(()) if r is None else r.detach()
        if tuple(gv.shape) != tuple(rv.shape):
            viol.append(V("grad-shape:%s:order1" % lab, {"seen": list(gv.shape), "expected": list(rv.shape)}, wrt=lab))
            continue
        e = float((gv - rv).abs().max())
        worst = max(worst, e / tol1)
        if not e <= tol1:
            viol.append(V("grad-mismatch:%s:order1" % lab, {"observed": rnd(gv, 12), "reference": rnd(rv, 12), "tol": tol1,
                                                            "limits_only": True}, wrt=lab))
    obs["r1"] = rnd(worst, 2)
    if order == 2 and not viol:
        S = None
        Sr = None
        for k, (g, r) in enumerate(zip(g1, g1r)):
            w = math.cos(1.3 * k + 0.4)
            if g is not None and g.requires_grad:
                S = w * g.sum() if S is None else S + w * g.sum()
            if r is not None and r.requires_grad:
                Sr = w * r.sum() if Sr is None else Sr + w * r.sum()
        if S is None and Sr is not None:
            viol.append(V("first-order-gradient-not-differentiable", {"limits_only": True}, phase="backward1"))
        elif S is not None:
            o2 = call(torch.autograd.grad, S, tens, allow_unused=True)
            nexec += 1
            if o2.exc is not None:
                viol.append(V("exception:" + _sig(o2.exc), {"phase": "backward2"}, phase="backward2"))
            else:
                g2r = list(torch.autograd.grad(Sr, rt, allow_unused=True)) if Sr is not None else [None] * len(rt)
                # derivative magnitude of the integrand at the limits
                dm = 0.0
                for _, t in lims:
                    xd = t.detach().clone().requires_grad_()
                    dv, = torch.autograd.grad(fam.phi(xd, P, [c.abs() for c in fam.cot]), xd, allow_unused=True)
                    dm = max(dm, 0.0 if dv is None else float(dv.abs()))
                tol2 = 256.0 * eps * (mag * mag + dm * ymax + mag + dm + 1.0) * 2.0
                w2 = 0.0
                for (lab, _), g, r in zip(lims, o2.value, g2r):
                    gv = torch.zeros(()) if g is None else g.detach()
                    rv = torch.zeros(()) if r is None else r.detach()
                    e = float((gv - rv).abs().max())
                    w2 = max(w2, e / tol2)
                    if not e <= tol2:
                        viol.append(V("grad-mismatch:%s:order2" % lab, {"observed": rnd(gv, 12), "reference": rnd(rv, 12),
                                                                        "tol": tol2, "limits_only": True}, wrt=lab))
                obs["r2"] = rnd(w2, 2)
    return {"viol": viol, "obs": obs, "status": "violation" if viol else "ok", "n": nexec}


def _midpoint(fcn, xl, xu, params, n, **unused):
    """a caller-supplied quadrature method (composite midpoint rule with n panels): the backward integral inherits
    it - and its option n unless bck_options says otherwise - like a built-in method"""
    h = (xu - xl) / n
    res = None
    for i in range(n):
        v = fcn(xl + (i + 0.5) * h, *params) * h
        res = v if res is None else res + v
    return res


def run_case(cfg):
    from xitorch.integrate import quad
    if cfg.get("pgrad") == 0:
        return _run_limits_only(cfg)
    fam_name, n, nb = cfg["family"], cfg["n"], cfg["nb"]
    fl, fu, kind, extra, order = cfg["xl_form"], cfg["xu_form"], cfg["kind"], cfg["extra"], cfg["order"]
    plane, seed, orient = cfg.get("plane", 0), cfg.get("seed", 0), cfg.get("orient", "fwd")
    loss = cfg.get("loss", "lin")
    eps = qc.eps_of("float64")
    a_fin, b_fin = (XL_FIN, XU_FIN) if orient == "fwd" else (XU_FIN, XL_FIN)
    xlv = -qc.INF if fl in ("inf", "tinf") else a_fin
    xuv = qc.INF if fu in ("inf", "tinf") else b_fin
    n_b = nb if nb is not None else n            # the n the backward integral must use
    fam = Family(fam_name, n, a_fin, b_fin, plane, seed)
    viol = []
    obs = {}
    nexec = 0

    # ---- parameters
    if kind in ("nn", "nn_extra", "nn_twice"):
        P = [torch.nn.Parameter(p.clone()) for p in fam.pvals]
    else:
        P = [p.clone().requires_grad_() for p in fam.pvals]
    dtens = torch.tensor([0.4, -0.2], dtype=torch.float64, requires_grad=True) if extra else None
    phase = ["fwd"]
    log = []

    def spy(x, Pargs):
        log.append((phase[0], qc.xval(x), torch.is_grad_enabled()))
        return fam(x, *Pargs)

    fcn, params = _build(kind, fam, P, extra, dtens, spy)
    held_unused = None
    if kind == "nn_extra":
        held_unused = torch.nn.Parameter(torch.tensor([1.5, -2.5], dtype=torch.float64))
        fcn.__self__.unused = held_unused
    xl = _limit(fl, xlv)
    xu = _limit(fu, xuv)
    ends = {xlv, xuv}

    # ---- the rule the statement prescribes for the backward integral, from quad's own forward pass
    ex = qc.extract_rule(quad, float(xlv), float(xuv), n_b, "float64", ends,
                         extra_opts=({"method": _midpoint} if cfg.get("methc") else None))
    nexec += 1
    if ex.exc is not None or len(ex.nodes) != n_b:
        # the forward rule itself is C12's business; without it nothing can be judged here
        return {"viol": [V("rule-extraction-failed", {"exc": _sig(ex.exc) if ex.exc is not None else None,
                                                      "nodes": None if ex.nodes is None else len(ex.nodes)}, phase="extract")],
                "obs": {"extract": "failed"}, "status": "violation", "n": nexec}
    X, W = ex.nodes, ex.weights

    # ---- forward
    opts = {"method": (_midpoint if cfg.get("methc") else "leggauss"), "n": n}
    if nb is not None:
        opts["bck_options"] = {"n": nb}
    o = call(quad, fcn, xl, xu, params=params, **opts)
    nexec += 1
    if o.exc is not None:
        return {"viol": [V("exception:" + _sig(o.exc), {"phase": "forward"}, phase="forward")],
                "obs": {"exc": _sig(o.exc)}, "status": "exception", "n": nexec}
    y = o.value
    ys = list(y) if fam.is_tuple else [y]
    if cfg.get("mut") and hasattr(fcn, "__self__"):
        # object history: after the forward call the owner gives the object OTHER tensors (the next problem of a
        # loop re-using one module); every gradient of the first integral - also the one w.r.t. the limits, which
        # needs the integrand at the limits - is that of the integrand of the forward call
        owner = fcn.__self__
        for i in range(len(P)):
            old = getattr(owner, "p%d" % i)
            with torch.no_grad():
                val = old.detach() * 1.4 + 0.3
            setattr(owner, "p%d" % i, torch.nn.Parameter(val) if isinstance(old, torch.nn.Parameter)
                    else val.requires_grad_(old.requires_grad))
    obs["fwd_calls"] = len(log)
    fwd_inner = sorted({xv for (ph, xv, ge) in log if xv not in ends})
    if len(fwd_inner) != n:
        viol.append(V("evaluation-count:forward", {"distinct_interior_abscissae": len(fwd_inner), "expected": n}, phase="forward"))
    if len(ys) != len(fam.cot) or any(tuple(a.shape) != tuple(v.shape) for a, v in zip(ys, fam.cot)):
        # a one-element limit never changes the shape here (limits are 0-d)
        viol.append(V("result-shape", {"seen": [list(a.shape) for a in ys], "expected": [list(v.shape) for v in fam.cot]}, phase="forward"))
        return {"viol": viol, "obs": obs, "status": "violation", "n": nexec}
    # scalar objective: linear (fixed cotangent v) or quadratic (cotangent 2 v y depends on the result)
    if loss == "lin":
        Ly = sum((v * yy).sum() for v, yy in zip(fam.cot, ys))
        U = [v.clone() for v in fam.cot]
    elif loss == "sq0":
        # quadratic objective AT its minimum: the cotangent 2 v (y - y*) that reaches quad is exactly zero, the
        # first-order gradients are exactly zero, but they depend on the inputs (second order = Gauss-Newton term)
        Ly = sum((v * (yy - yy.detach()) ** 2).sum() for v, yy in zip(fam.cot, ys))
        U = [torch.zeros_like(v) for v in fam.cot]
    else:
        Ly = sum((v * yy * yy).sum() for v, yy in zip(fam.cot, ys))
        U = [2.0 * v * yy.detach() for v, yy in zip(fam.cot, ys)]

    # ---- which inputs are differentiated
    inputs = []       # (label, tensor, role)
    for i, p in enumerate(P):
        inputs.append(("p%d" % i, p, "param"))
    if extra:
        inputs.append(("extra", dtens, "unused"))
    if held_unused is not None:
        inputs.append(("held_unused", held_unused, "unused"))
    if fl == "tg":
        inputs.append(("xl", xl, "xl"))
    if fu == "tg":
        inputs.append(("xu", xu, "xu"))
    tens = [t for (_, t, _) in inputs]
    obs["requires_grad"] = bool(Ly.requires_grad)
    if not Ly.requires_grad:
        viol.append(V("result-not-differentiable", {"phase": "forward"}, phase="forward"))
        return {"viol": viol, "obs": obs, "status": "violation", "n": nexec}

    # ---- first backward
    phase[0] = "bwd1"
    o1 = call(torch.autograd.grad, Ly, tens, create_graph=(order == 2), allow_unused=True)
    nexec += 1
    if o1.exc is not None:
        viol.append(V("exception:" + _sig(o1.exc), {"phase": "backward1"}, phase="backward1"))
        obs["exc"] = _sig(o1.exc)
        return {"viol": viol, "obs": obs, "status": "exception", "n": nexec}
    g1 = list(o1.value)
    obs["bwd1_calls"] = sum(1 for e in log if e[0] == "bwd1")
    obs["none1"] = [g is None for g in g1]

    def check_nodes(ph):
        inner = sorted({xv for (p_, xv, ge) in log if p_ == ph and xv not in ends})
        tolx = 16.0 * eps * ((1.0 + X * X) * (abs(math.atan(xlv)) + abs(math.atan(xuv))) + np.abs(X)) if qc.is_inf_interval(xlv, xuv) \
            else 16.0 * eps * max(abs(xlv), abs(xuv)) * np.ones(len(X))
        Xs = np.sort(X)
        good = len(inner) == len(Xs) and bool(np.all(np.abs(np.asarray(inner) - Xs) <= tolx[np.argsort(X)]))
        if not good:
            viol.append(V("backward-abscissae-are-not-the-prescribed-rule:%s" % ph,
                          {"distinct_interior_abscissae": len(inner), "prescribed_n": n_b, "forward_n": n,
                           "bck_options_n": nb}, phase=ph, observed_n=len(inner)))
        return len(inner)
    obs["bwd1_nodes"] = check_nodes("bwd1")

    # ---- reference, first order (per node so that magnitudes come for free)
    Xt = [torch.tensor(float(v), dtype=torch.float64) for v in X]
    Pl = list(P)
    cg = order == 2

    def rule_grads(fn_of_x, wrt, create_graph):
        """sum_i W_i d fn(X_i)/d wrt  and  sum_i |W_i| |d fn(X_i)/d wrt|"""
        acc = [torch.zeros_like(p) for p in wrt]
        mag = [torch.zeros_like(p) for p in wrt]
        for xi, wi in zip(Xt, W):
            val = fn_of_x(xi)
            if not val.requires_grad:
                continue
            gs = torch.autograd.grad(val, wrt, create_graph=create_graph, allow_unused=True)
            for k, gk in enumerate(gs):
                if gk is None:
                    continue
                acc[k] = acc[k] + float(wi) * gk
                mag[k] = mag[k] + abs(float(wi)) * gk.detach().abs()
        return acc, mag

    gP_ref, gP_mag = rule_grads(lambda xi: fam.phi(xi, Pl, U), Pl, cg)

    def cmp(label, got, ref, mag, tag, factor=None):
        """compare one gradient tensor with its reference; tolerance factor * eps * mag"""
        if got is None:
            got = torch.zeros_like(ref)
        if tuple(got.shape) != tuple(ref.shape):
            viol.append(V("grad-shape:%s" % tag, {"label": label, "seen": list(got.shape), "expected": list(ref.shape)}, wrt=label))
            return 0.0
        tol = (64.0 * n_b if factor is None else factor) * eps * mag + 1e-300
        e = (got.detach() - ref.detach()).abs()
        ratio = float((e / tol).max())
        if not (ratio <= 1.0):
            viol.append(V("grad-mismatch:%s" % tag, {"label": label, "observed": rnd(got.detach(), 12), "reference": rnd(ref.detach(), 12),
                                                    "tol": rnd(tol, 4), "prescribed_n": n_b}, wrt=label))
        return ratio

    worst = 0.0
    gmap = {lab: g for (lab, _, _), g in zip(inputs, g1)}
    for i, p in enumerate(P):
        worst = max(worst, cmp("p%d" % i, gmap["p%d" % i], gP_ref[i], gP_mag[i], "param:order1"))
    for (lab, t_, role), g in zip(inputs, g1):
        if role == "unused" and not _zero_or_none(g):
            viol.append(V("unused-tensor-has-nonzero-gradient:order1", {"label": lab, "grad": rnd(g.detach())}, wrt=lab))
    lims = {}          # label -> (sign, value tensor detached)
    if fl == "tg":
        lims["xl"] = (-1.0, xl.detach().clone())
    if fu == "tg":
        lims["xu"] = (1.0, xu.detach().clone())
    for lab, (sign, xv) in lims.items():
        ref = sign * fam.phi(xv, Pl, U).detach()
        mag = fam.phi_abs(xv, Pl, U)
        worst = max(worst, cmp(lab, gmap[lab], ref, mag, "%s:order1" % lab, factor=16.0))
    obs["r1"] = rnd(worst, 2)

    # how visible is the n used by the backward in the value?  (reference with n_b+1 points; information, not an oracle)
    if plane == 0 and n_b <= 20:
        xa, wa, _ = qc.ref_rule(n_b + 1, xlv, xuv)
        vis = 0.0
        acc = [torch.zeros_like(p) for p in Pl]
        for xi, wi in zip(xa, wa):
            val = fam.phi(torch.tensor(float(xi), dtype=torch.float64), Pl, U)
            gs = torch.autograd.grad(val, Pl, allow_unused=True)
            for k, gk in enumerate(gs):
                if gk is not None:
                    acc[k] = acc[k] + float(wi) * gk
        for k in range(len(Pl)):
            tol = 64.0 * n_b * eps * gP_mag[k] + 1e-300
            vis = max(vis, float(((acc[k] - gP_ref[k].detach()).abs() / tol).max()))
        obs["n_visible_in_value"] = bool(vis > 100.0)

    if order == 1:
        return {"viol": viol, "obs": obs, "status": "violation" if viol else "ok", "n": nexec}

    # ---- second order: S = sum <r, g1> differentiated again
    rs = {}
    S = None
    for k, ((lab, t_, role), g) in enumerate(zip(inputs, g1)):
        if g is None or not g.requires_grad:
            continue
        r = torch.cos(torch.arange(g.numel(), dtype=torch.float64) * 1.3 + 0.4 + k).reshape(g.shape)
        rs[lab] = r
        term = (r * g).sum()
        S = term if S is None else S + term
    obs["s_terms"] = sorted(rs.keys())
    if S is None:
        obs["second"] = "first-order gradients carry no graph"
        # legitimate only if every first-order reference gradient is constant in all inputs
        dep = any(gr.requires_grad for gr in gP_ref) or bool(lims) or loss in ("sq", "sq0")
        if dep:
            viol.append(V("first-order-gradient-not-differentiable", {"inputs": [lab for lab, _, _ in inputs]}, phase="backward1"))
        return {"viol": viol, "obs": obs, "status": "violation" if viol else "ok", "n": nexec}
    phase[0] = "bwd2"
    o2 = call(torch.autograd.grad, S, tens, allow_unused=True)
    nexec += 1
    if o2.exc is not None:
        viol.append(V("exception:" + _sig(o2.exc), {"phase": "backward2", "s_terms": sorted(rs.keys())}, phase="backward2"))
        obs["exc"] = _sig(o2.exc)
        return {"viol": viol, "obs": obs, "status": "exception", "n": nexec}
    g2 = list(o2.value)
    obs["bwd2_calls"] = sum(1 for e in log if e[0] == "bwd2")
    obs["none2"] = [g is None for g in g2]
    g2map = {lab: g for (lab, _, _), g in zip(inputs, g2)}
    if any(("p%d" % i) in rs for i in range(len(P))):
        obs["bwd2_nodes"] = check_nodes("bwd2")

    # reference.  With cotangent u held fixed:  psi(x) = sum_theta <r_theta, d phi/d theta (x)>,
    #   dS/dtheta' = sum_i W_i d psi/d theta'(X_i) + r_u d phi/d theta'(xu) - r_l d phi/d theta'(xl)
    #   dS/dxu = psi(xu) + r_u d phi/dx (xu),  dS/dxl = -psi(xl) - r_l d phi/dx (xl)
    # and for the quadratic objective additionally  sum_c (dS/du_c) * 2 v_c * d y_c / d(.)   (chain through u = 2 v y),
    # where d y / d(.) is again the prescribed rule applied to the derivative / Leibniz.
    Ul = [u.clone().requires_grad_() for u in U]
    nP = len(Pl)

    def psi(x):
        val = fam.phi(x, Pl, Ul)
        gs = torch.autograd.grad(val, Pl, create_graph=True, allow_unused=True)
        tot = torch.zeros((), dtype=torch.float64)
        for i, gk in enumerate(gs):
            if gk is not None and ("p%d" % i) in rs:
                tot = tot + (rs["p%d" % i] * gk).sum()
        return tot

    accA, magA = rule_grads(psi, Pl + Ul, False)
    refP = [a.detach().clone() for a in accA[:nP]]
    magP = [m.clone() for m in magA[:nP]]
    zU = [a.detach().clone() for a in accA[nP:]]
    zUmag = [m.clone() for m in magA[nP:]]
    for lab, (sign, xv) in lims.items():
        if lab not in rs:
            continue
        val = fam.phi(xv, Pl, Ul)
        gs = torch.autograd.grad(val, Pl + Ul, allow_unused=True)
        rr = float(rs[lab])
        for i, gk in enumerate(gs):
            if gk is None:
                continue
            if i < nP:
                refP[i] = refP[i] + sign * rr * gk
                magP[i] = magP[i] + abs(rr) * gk.abs()
            else:
                zU[i - nP] = zU[i - nP] + sign * rr * gk
                zUmag[i - nP] = zUmag[i - nP] + abs(rr) * gk.abs()
    Wc = None
    if loss in ("sq", "sq0"):
        Wc = [2.0 * v * z for v, z in zip(fam.cot, zU)]
        Wm = [2.0 * v.abs() * (z.abs() + m) for v, z, m in zip(fam.cot, zU, zUmag)]
        accB, _ = rule_grads(lambda xi: fam.phi(xi, Pl, Wc), Pl, False)
        for i in range(nP):
            refP[i] = refP[i] + accB[i].detach()
        # magnitude component by component: sum_c Wm_c * sum_i |W_i| |d f_c / d theta (X_i)|
        for c in range(fam.ncomp):
            _, mg = rule_grads(lambda xi: fam.comp(xi, Pl, c), Pl, False)
            wmc = float(fam.flat(Wm)[c])
            for i in range(nP):
                magP[i] = magP[i] + wmc * mg[i]
    worst = 0.0
    for i in range(nP):
        worst = max(worst, cmp("p%d" % i, g2map["p%d" % i], refP[i], magP[i], "param:order2"))
    for lab, (sign, xv) in lims.items():
        xd = xv.clone().requires_grad_()
        ps = psi(xd)
        ref = sign * ps.detach()
        mag = ps.detach().abs()
        if any(("p%d" % i) in rs for i in range(nP)) and ps.requires_grad:
            # magnitude of psi's terms
            mag = sum((rs["p%d" % i].abs() * gk.detach().abs()).sum() for i, gk in enumerate(
                torch.autograd.grad(fam.phi(xd, Pl, Ul), Pl, allow_unused=True)) if gk is not None and ("p%d" % i) in rs)
        if lab in rs:
            dphidx, = torch.autograd.grad(fam.phi(xd, Pl, U), xd)
            ref = ref + sign * float(rs[lab]) * dphidx
            mag = mag + (float(rs[lab]) * dphidx).abs()
        if Wc is not None:
            ref = ref + sign * fam.phi(xv, Pl, Wc).detach()
            mag = mag + fam.phi_abs(xv, Pl, Wm)
        mag = torch.as_tensor(mag, dtype=torch.float64)
        worst = max(worst, cmp(lab, g2map[lab], ref.reshape(()), mag.reshape(()), "%s:order2" % lab))
    for (lab, t_, role), g in zip(inputs, g2):
        if role == "unused" and not _zero_or_none(g):
            viol.append(V("unused-tensor-has-nonzero-gradient:order2", {"label": lab, "grad": rnd(g.detach())}, wrt=lab))
    obs["r2"] = rnd(worst, 2)
    return {"viol": viol, "obs": obs, "status": "violation" if viol else "ok", "n": nexec}

# ---- call-order plane (executed by mc/core.py in fresh interpreters, see mc/props/_hist_common.py): the result of
# a call must not depend on which other calls (other dtype / method / size / options) were made before it
_HIST_LABELS = [('float32', 3, 0), ('float64', 3, 0), ('float64', 9, 0), ('float64', 3, 7), ('float64', 9, 4)]
HISTORY = {"labels": ["/".join(str(x) for x in c) for c in _HIST_LABELS], "tol": [0.0001, 1e-12, 1e-12, 1e-12, 1e-12],
           "depth": {"quick": 2, "thorough": 3},
           "prelude": r'''import torch, xitorch
from xitorch.integrate import quad
CALLS = %r
def do(i):
    dtn, n, nb = CALLS[i]
    dt = getattr(torch, dtn)
    a = torch.tensor(0.8, dtype=dt, requires_grad=True)
    xu = torch.tensor(1.25, dtype=dt, requires_grad=True)
    kw = {"bck_options": {"n": nb}} if nb else {}
    y = quad(lambda x, a: torch.exp(-a * x * x) * (1.0 + x), -0.5, xu, params=(a,), n=n, **kw)
    ga, gu = torch.autograd.grad(y, (a, xu))
    return [float(y), float(ga), float(gu)]
''' % (_HIST_LABELS,)}
