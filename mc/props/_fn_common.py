"""Shared by C09 and C10: one mathematical function per functional, expressed in every representation
xitorch accepts (pure function, scripted function, nn.Module variants, EditableModule variants, siblings,
callable objects), plus a call counter / crash-point injector and state snapshots of the user's objects.

Nothing here judges anything; the oracles live in c09.py / c10.py."""
from __future__ import annotations
import itertools
import torch

from mc.util import HarnessBaseFault

DT = torch.float64


class Injected(Exception):
    """private exception type raised by the crash-point injector"""


class InjectedBase(HarnessBaseFault):
    """injected fault that is not an Exception (KeyboardInterrupt-like): `except Exception` does not see it"""


class Probe:
    """counts evaluations of the user's function per phase and raises `Injected` at the k-th call of one phase"""

    def __init__(self):
        self.phase = "forward"
        self.counts = {}
        self.arm = None          # (phase, k)
        self.raised = None
        self.base = False        # raise the BaseException-derived fault instead

    def tick(self):
        ph = self.phase
        c = self.counts.get(ph, 0) + 1
        self.counts[ph] = c
        if self.arm is not None and self.arm[0] == ph and self.arm[1] == c:
            e = (InjectedBase if self.base else Injected)("injected@%s#%d" % (ph, c))
            self.raised = e
            raise e


# ------------------------------------------------------------------ the mathematical functions
# every core is a function of (inputs..., asq, b, p, s) where asq = a*a; a, b, p are the three leaves (shape (2,))
# and s is the optional non-tensor parameter (1.0 when absent)

CORE_SRC = '''
def core_rootfinder(y, asq, b, p, s: float):
    return y + 0.5 * torch.tanh(asq * y + b) - p * s

def core_equilibrium(y, asq, b, p, s: float):
    return 0.5 * torch.tanh(asq * y + b) + p * s

def core_minimize(y, asq, b, p, s: float):
    return (0.5 * (asq + 1.0) * y * y - b * p * s * y + 0.1 * y * y * y * y).sum()

def core_solve_ivp(t, y, asq, b, p, s: float):
    return b * torch.sin(t * p) * s - asq * y

def core_quad(x, asq, b, p, s: float):
    return torch.exp(-asq * x) * torch.sin(b) + torch.cos(p * x) * s

def core_mcquad(x, asq, b, p, s: float):
    return torch.cos(asq * x) * torch.sin(b) + torch.exp(0.3 * p * x) * s

def core_jac(y, asq, b, p, s: float):
    return torch.tanh(asq * y + b) * p * s + y * y * asq + b * y.sum() + 3.0 * y

def core_hess(y, asq, b, p, s: float):
    return (torch.tanh(asq * y + b) * p * s).sum() + (y * y * y * asq).sum() + y.prod() * b.sum()

def core_logp(x, asq, b):
    return (-(0.5 + 0.25 * asq.sum()) * (x - b.sum()) * (x - b.sum())).sum()
'''
_ns = {"torch": torch}
exec(CORE_SRC, _ns)
CORES = {k[5:]: v for k, v in _ns.items() if k.startswith("core_")}

FUNCTIONALS = ["rootfinder", "equilibrium", "minimize", "solve_ivp", "quad", "mcquad", "jac", "hess"]
NX = {"solve_ivp": 2}
CORE_OF = {"jac_solve": "jac"}          # number of leading inputs of the user's function (default 1)

_SCRIPT_CU = {}


def _script_fns(fname, extra):
    """ScriptFunction f(inputs..., a, b, p[, s]) and logp(x, b), compiled from source once per process"""
    key = (fname, extra)
    if key not in _SCRIPT_CU:
        xs = "t, y" if fname == "solve_ivp" else "x"
        fname = CORE_OF.get(fname, fname)
        if extra:
            src = CORE_SRC + "\ndef fn(%s, a, b, p, s: float):\n    return core_%s(%s, a * a, b, p, s)\n" % (xs, fname, xs)
        else:
            src = CORE_SRC + "\ndef fn(%s, a, b, p):\n    return core_%s(%s, a * a, b, p, 1.0)\n" % (xs, fname, xs)
        src += "\ndef logp(x, a, b):\n    return core_logp(x, a * a, b)\n"
        _SCRIPT_CU[key] = torch.jit.CompilationUnit(src)
    cu = _SCRIPT_CU[key]
    return cu.fn, cu.logp


# ------------------------------------------------------------------ leaves

LEAF_VALUES = {"a": [0.9, 0.7], "b": [0.3, -0.2], "p": [0.5, 0.4]}
S_VALUE = 0.8
LEAVES = ["a", "b", "p"]


def leaf_values(plane=0, seed=0):
    """plane 0 is the fixed alphabet; further planes are drawn from well-conditioned boxes with the check seed"""
    if plane == 0:
        return {k: torch.tensor(v, dtype=DT) for k, v in LEAF_VALUES.items()}
    g = torch.Generator()
    g.manual_seed(1000003 + 7919 * int(seed) + int(plane))
    u = torch.rand((3, 2), dtype=DT, generator=g)
    return {"a": 0.6 + 0.4 * u[0], "b": -0.4 + 0.8 * u[1], "p": 0.3 + 0.4 * u[2]}


def rg_subsets():
    out = []
    for n in range(len(LEAVES) + 1):
        for c in itertools.combinations(LEAVES, n):
            out.append("".join(c))
    return out          # "", "a", "b", "p", "ab", "ap", "bp", "abp"


# ------------------------------------------------------------------ representations

import xitorch  # noqa: E402
from xitorch import EditableModule, make_sibling  # noqa: E402

BASE_KINDS = ["pure", "script",
              "nn_flat", "nn_nested", "nn_tied", "nn_method", "nn_call", "nn_extra",
              "em_leaves", "em_derived", "em_alias", "em_list", "em_dict", "em_nn", "em_call", "em_cplx"]
SIB_BASES = ["pure", "nn_flat", "nn_nested", "nn_tied", "em_leaves", "em_derived", "em_alias", "em_list",
             "em_dict", "em_nn"]
# multi_em2_em: the FIRST parent declares two names for one tensor
MULTI_KINDS = ["multi_em_em", "multi_em_nn", "multi_nn_em", "multi_em2_em"]
ALL_KINDS = BASE_KINDS + ["sib:" + b for b in SIB_BASES] + MULTI_KINDS


class _Inner(torch.nn.Module):
    def __init__(self, w):
        super().__init__()
        self.w = w


class _Inner2(torch.nn.Module):
    """two registered Parameters, w first; only w is used (and declared) by the enclosing EditableModule"""

    def __init__(self, w):
        super().__init__()
        self.w = w
        self.v = torch.nn.Parameter(torch.tensor([1.5, -0.5], dtype=torch.float64))


class Rep:
    """one representation of the function `fname` holding the leaves a and b (p is always an explicit parameter).

    fcn        the callable handed to the functional
    params     explicit parameters after the leading inputs
    logp, pparams   second callable for mcquad (log density, depends on b only)
    leaves     {"a","b","p"} -> leaf tensor (what gradients are taken with respect to)
    holders    user's objects whose state must be preserved
    slots      [(holder, declared name, index into the unique object-parameter list)]
    nobj       number of unique object parameters xitorch should see
    objfn      evaluate the function from an explicit list of unique object parameters (reference for `call`)
    """

    def __init__(self):
        self.fcn = None
        self.params = ()
        self.logp = None
        self.pparams = ()
        self.leaves = {}
        self.holders = []
        self.slots = []
        self.nobj = 0
        self.objfn = None
        self.objtensors = []


def _mk_leaf(val, rg, as_param):
    t = val.clone()
    if as_param:
        return torch.nn.Parameter(t, requires_grad=bool(rg))
    return t.requires_grad_() if rg else t


def build(kind, fname, extra, rg, probe, vals=None):
    """construct representation `kind` of functional `fname`'s function; rg = string subset of "abp" """
    if vals is None:
        vals = leaf_values()
    core = CORES[CORE_OF.get(fname, fname)]
    logp_core = CORES["logp"]
    nx = NX.get(fname, 1)
    s_tuple = (S_VALUE,) if extra else ()

    def split(args):
        xs = args[:nx]
        p = args[nx]
        s = args[nx + 1] if extra else 1.0
        return xs, p, s

    rep = Rep()
    rep.kind = kind
    base = kind[4:] if kind.startswith("sib:") else kind

    nnk = ("nn_flat", "nn_nested", "nn_tied", "nn_method", "nn_call", "nn_extra")
    need_param = {"a": base in nnk + ("em_nn", "em_nn2", "multi_nn_em", "multi3"), "b": base in nnk + ("multi_em_nn", "both", "both_rev")}
    a = _mk_leaf(vals["a"], "a" in rg, need_param["a"])
    b = _mk_leaf(vals["b"], "b" in rg, need_param["b"])
    p = _mk_leaf(vals["p"], "p" in rg, False)
    rep.leaves = {"a": a, "b": b, "p": p}

    # ---------------- functions without object state
    if base == "pure":
        def fn(*args):
            probe.tick()
            xs, aa, bb, pp = args[:nx], args[nx], args[nx + 1], args[nx + 2]
            s = args[nx + 3] if extra else 1.0
            return core(*xs, aa * aa, bb, pp, s)

        def logp(x, aa, bb):
            probe.tick()
            return logp_core(x, aa * aa, bb)
        rep.fcn, rep.params = fn, (a, b, p) + s_tuple
        rep.logp, rep.pparams = logp, (a, b)
    elif base == "pure_derived":
        # the explicit parameter is the derived tensor a*a itself (reference for objects holding a derived tensor)
        asq = a * a

        def fn(*args):
            probe.tick()
            xs, a2, bb, pp = args[:nx], args[nx], args[nx + 1], args[nx + 2]
            s = args[nx + 3] if extra else 1.0
            return core(*xs, a2, bb, pp, s)

        def logp(x, a2, bb):
            probe.tick()
            return logp_core(x, a2, bb)
        rep.fcn, rep.params = fn, (asq, b, p) + s_tuple
        rep.logp, rep.pparams = logp, (asq, b)
    elif base in ("pure_dep", "pure_depref"):
        # dependent parameters: the tensor supplied as second parameter is b + 0.3 a, a function of the tensor
        # supplied as first parameter (pure_dep); pure_depref is the same mathematical function of independent
        # leaves (the dependency is evaluated inside the function) and serves as its reference
        inside = base == "pure_depref"

        def fn(*args):
            probe.tick()
            xs, aa, bb, pp = args[:nx], args[nx], args[nx + 1], args[nx + 2]
            s = args[nx + 3] if extra else 1.0
            return core(*xs, aa * aa, (bb + 0.3 * aa) if inside else bb, pp, s)

        def logp(x, aa, bb):
            probe.tick()
            return logp_core(x, aa * aa, (bb + 0.3 * aa) if inside else bb)
        bsup = b if inside else b + 0.3 * a
        rep.fcn, rep.params = fn, (a, bsup, p) + s_tuple
        rep.logp, rep.pparams = logp, (a, bsup)
    elif base == "pure_twice":
        # the same tensor object supplied at two positions of the explicit parameters
        def fn(*args):
            probe.tick()
            xs, a1, a2, bb, pp = args[:nx], args[nx], args[nx + 1], args[nx + 2], args[nx + 3]
            s = args[nx + 4] if extra else 1.0
            return core(*xs, a1 * a2, bb, pp, s)

        def logp(x, a1, a2, bb):
            probe.tick()
            return logp_core(x, a1 * a2, bb)
        rep.fcn, rep.params = fn, (a, a, b, p) + s_tuple
        rep.logp, rep.pparams = logp, (a, a, b)
    elif base == "em_pexp":
        # the function is a method of an object holding b; a is explicit.  The log density of mcquad is a PLAIN
        # function with its own explicit parameters (a, b): object tensors of f and explicit tensors of log p
        # must not be mixed up
        class EMHoldB(EditableModule):
            def __init__(self):
                self.b = b

            def fn(self, *args):
                probe.tick()
                xs, aa, pp = args[:nx], args[nx], args[nx + 1]
                s = args[nx + 2] if extra else 1.0
                return core(*xs, aa * aa, self.b, pp, s)

            def getparamnames(self, methodname, prefix=""):
                if methodname == "fn":
                    return [prefix + "b"]
                raise KeyError(methodname)

        def logp(x, aa, bb):
            probe.tick()
            return logp_core(x, aa * aa, bb)
        m = EMHoldB()
        rep.fcn, rep.params, rep.logp, rep.pparams = m.fn, (a, p) + s_tuple, logp, (a, b)
        rep.holders = [m]
        rep.slots = [(m, "b", 0)]
        rep.nobj = 1
    elif base == "em_twice":
        # a tensor held by the object is also passed explicitly
        class EMTwice(EditableModule):
            def __init__(self):
                self.a = a
                self.b = b

            def fn(self, *args):
                probe.tick()
                xs, a2, pp = args[:nx], args[nx], args[nx + 1]
                s = args[nx + 2] if extra else 1.0
                return core(*xs, self.a * a2, self.b, pp, s)

            def logp(self, x, a2):
                probe.tick()
                return logp_core(x, self.a * a2, self.b)

            def getparamnames(self, methodname, prefix=""):
                if methodname in ("fn", "logp"):
                    return [prefix + "a", prefix + "b"]
                raise KeyError(methodname)
        m = EMTwice()
        rep.fcn, rep.params, rep.logp, rep.pparams = m.fn, (a, p) + s_tuple, m.logp, (a,)
        rep.holders = [m]
        rep.slots = [(m, "a", 0), (m, "b", 1)]
        rep.nobj = 2
    elif base == "multi3":
        # a sibling of THREE methods of three different objects (nn.Module, EditableModule, EditableModule)
        class EM3(EditableModule):
            def __init__(self, t):
                self.t = t

            def val(self):
                return self.t

            def getparamnames(self, methodname, prefix=""):
                if methodname == "val":
                    return [prefix + "t"]
                raise KeyError(methodname)

        class NN3(torch.nn.Module):
            def __init__(self, t):
                super().__init__()
                self.t = t

            def sq(self):
                return self.t * self.t
        o1, o2, o3 = NN3(a), EM3(b), EM3(p)

        @make_sibling(o1.sq, o2.val, o3.val)
        def fn(*args):
            probe.tick()
            xs = args[:nx]
            s = args[nx] if extra else 1.0
            return core(*xs, o1.sq(), o2.val(), o3.val(), s)

        @make_sibling(o1.sq, o2.val)
        def logp(x):
            probe.tick()
            return logp_core(x, o1.sq(), o2.val())
        rep.fcn, rep.params, rep.logp = fn, s_tuple, logp
        rep.holders = [o1, o2, o3]
        rep.slots = [(o1, "t", 0), (o2, "t", 1), (o3, "t", 2)]
        rep.nobj = 3
    elif base == "em_dep":
        class EMDep(EditableModule):
            def __init__(self):
                self.a = a
                self.bd = b + 0.3 * a    # a held tensor that is a function of another held tensor

            def fn(self, *args):
                probe.tick()
                xs, pp, s = split(args)
                return core(*xs, self.a * self.a, self.bd, pp, s)

            def logp(self, x):
                probe.tick()
                return logp_core(x, self.a * self.a, self.bd)

            def getparamnames(self, methodname, prefix=""):
                if methodname in ("fn", "logp"):
                    return [prefix + "a", prefix + "bd"]
                raise KeyError(methodname)
        m = EMDep()
        rep.fcn, rep.params, rep.logp = m.fn, (p,) + s_tuple, m.logp
        rep.holders = [m]
        rep.slots = [(m, "a", 0), (m, "bd", 1)]
        rep.nobj = 2
    elif base == "script":
        sf, sl = _script_fns(fname, extra)
        rep.fcn, rep.params = sf, (a, b, p) + s_tuple
        rep.logp, rep.pparams = sl, (a, b)

    # ---------------- torch.nn.Module
    elif base in ("nn_flat", "nn_method", "nn_call", "nn_extra"):
        class NNFlat(torch.nn.Module):
            def __init__(self):
                super().__init__()
                self.a = a
                if base == "nn_extra":
                    # a registered parameter that this function does not use (e.g. used by another method)
                    self.c = torch.nn.Parameter(torch.tensor([1.5, -0.5], dtype=DT))
                self.b = b

            def _f(self, *args):
                probe.tick()
                xs, pp, s = split(args)
                return core(*xs, self.a * self.a, self.b, pp, s)

            def forward(self, *args):
                return self._f(*args)

            def fn(self, *args):
                return self._f(*args)

            def logp(self, x):
                probe.tick()
                return logp_core(x, self.a * self.a, self.b)
        m = NNFlat()
        rep.fcn = {"nn_flat": m.forward, "nn_method": m.fn, "nn_call": m, "nn_extra": m.forward}[base]
        rep.params = (p,) + s_tuple
        rep.logp = m.logp
        rep.holders = [m]
        if base == "nn_extra":
            rep.slots = [(m, "a", 0), (m, "c", 1), (m, "b", 2)]
            rep.nobj = 3
        else:
            rep.slots = [(m, "a", 0), (m, "b", 1)]
            rep.nobj = 2
    elif base == "nn_nested":
        class NNNested(torch.nn.Module):
            def __init__(self):
                super().__init__()
                self.b = b
                self.sub = _Inner(a)

            def forward(self, *args):
                probe.tick()
                xs, pp, s = split(args)
                return core(*xs, self.sub.w * self.sub.w, self.b, pp, s)

            def logp(self, x):
                probe.tick()
                return logp_core(x, self.sub.w * self.sub.w, self.b)
        m = NNNested()
        rep.fcn, rep.params, rep.logp = m.forward, (p,) + s_tuple, m.logp
        rep.holders = [m]
        rep.slots = [(m, "b", 0), (m, "sub.w", 1)]
        rep.nobj = 2
    elif base == "nn_tied":
        class NNTied(torch.nn.Module):
            def __init__(self):
                super().__init__()
                self.a = a
                self.a2 = self.a        # the same Parameter registered under a second name
                self.b = b

            def forward(self, *args):
                probe.tick()
                xs, pp, s = split(args)
                return core(*xs, self.a * self.a2, self.b, pp, s)

            def logp(self, x):
                probe.tick()
                return logp_core(x, self.a * self.a2, self.b)
        m = NNTied()
        rep.fcn, rep.params, rep.logp = m.forward, (p,) + s_tuple, m.logp
        rep.holders = [m]
        rep.slots = [(m, "a", 0), (m, "a2", 0), (m, "b", 1)]
        rep.nobj = 2

    # ---------------- xitorch.EditableModule
    elif base in ("em_leaves", "em_call", "em_cplx"):
        class EMLeaves(EditableModule):
            def __init__(self):
                if base == "em_cplx":
                    # tensors of other dtypes that the function does not use (used by other methods of the user's
                    # object): a complex one FIRST, an integer one, then the real ones
                    self.zc = torch.tensor([0.6 + 0.8j, 1.0j], dtype=torch.complex128)
                    self.zi = torch.tensor([3, 1, 2])
                self.a = a
                self.b = b
                if base == "em_cplx":
                    self.zr = torch.tensor([0.25, -1.5], dtype=DT)

            def fn(self, *args):
                probe.tick()
                xs, pp, s = split(args)
                return core(*xs, self.a * self.a, self.b, pp, s)

            def __call__(self, *args):
                probe.tick()
                xs, pp, s = split(args)
                return core(*xs, self.a * self.a, self.b, pp, s)

            def logp(self, x):
                probe.tick()
                return logp_core(x, self.a * self.a, self.b)

            def getparamnames(self, methodname, prefix=""):
                if methodname in ("fn", "__call__"):
                    return [prefix + "a", prefix + "b"]
                if methodname == "logp":
                    return [prefix + "a", prefix + "b"]
                raise KeyError(methodname)
        m = EMLeaves()
        rep.fcn = m if base == "em_call" else m.fn
        rep.params, rep.logp = (p,) + s_tuple, m.logp
        rep.holders = [m]
        rep.slots = [(m, "a", 0), (m, "b", 1)]
        rep.nobj = 2
    elif base == "em_derived":
        class EMDerived(EditableModule):
            def __init__(self):
                self.a2 = a * a          # derived, non-leaf when a requires grad
                self.b = b

            def fn(self, *args):
                probe.tick()
                xs, pp, s = split(args)
                return core(*xs, self.a2, self.b, pp, s)

            def logp(self, x):
                probe.tick()
                return logp_core(x, self.a2, self.b)

            def getparamnames(self, methodname, prefix=""):
                if methodname == "fn":
                    return [prefix + "a2", prefix + "b"]
                if methodname == "logp":
                    return [prefix + "a2", prefix + "b"]
                raise KeyError(methodname)
        m = EMDerived()
        rep.fcn, rep.params, rep.logp = m.fn, (p,) + s_tuple, m.logp
        rep.holders = [m]
        rep.slots = [(m, "a2", 0), (m, "b", 1)]
        rep.nobj = 2
    elif base in ("both", "both_rev"):
        # a class that is a torch.nn.Module AND an EditableModule (either order of the bases): it is an
        # EditableModule, so what getparamnames declares counts - here a derived tensor that is no registered
        # Parameter next to a registered Parameter
        bases = (torch.nn.Module, EditableModule) if base == "both" else (EditableModule, torch.nn.Module)

        class Both(*bases):
            def __init__(self):
                torch.nn.Module.__init__(self)
                self.a2 = a * a          # derived, not a Parameter
                self.b = b               # registered Parameter

            def fn(self, *args):
                probe.tick()
                xs, pp, s = split(args)
                return core(*xs, self.a2, self.b, pp, s)

            def logp(self, x):
                probe.tick()
                return logp_core(x, self.a2, self.b)

            def getparamnames(self, methodname, prefix=""):
                if methodname in ("fn", "logp"):
                    return [prefix + "a2", prefix + "b"]
                raise KeyError(methodname)
        m = Both()
        rep.fcn, rep.params, rep.logp = m.fn, (p,) + s_tuple, m.logp
        rep.holders = [m]
        rep.slots = [(m, "a2", 0), (m, "b", 1)]
        rep.nobj = 2
    elif base == "em_alias":
        class EMAlias(EditableModule):
            def __init__(self):
                self.a = a
                self.aa = a              # the same tensor under two names
                self.b = b

            def fn(self, *args):
                probe.tick()
                xs, pp, s = split(args)
                return core(*xs, self.a * self.aa, self.b, pp, s)

            def logp(self, x):
                probe.tick()
                return logp_core(x, self.a * self.aa, self.b)

            def getparamnames(self, methodname, prefix=""):
                if methodname == "fn":
                    return [prefix + "a", prefix + "aa", prefix + "b"]
                if methodname == "logp":
                    return [prefix + "a", prefix + "aa", prefix + "b"]
                raise KeyError(methodname)
        m = EMAlias()
        rep.fcn, rep.params, rep.logp = m.fn, (p,) + s_tuple, m.logp
        rep.holders = [m]
        rep.slots = [(m, "a", 0), (m, "aa", 0), (m, "b", 1)]
        rep.nobj = 2
    elif base == "em_list":
        class EMList(EditableModule):
            def __init__(self):
                self.lst = [a, b]

            def fn(self, *args):
                probe.tick()
                xs, pp, s = split(args)
                return core(*xs, self.lst[0] * self.lst[0], self.lst[1], pp, s)

            def logp(self, x):
                probe.tick()
                return logp_core(x, self.lst[0] * self.lst[0], self.lst[1])

            def getparamnames(self, methodname, prefix=""):
                if methodname == "fn":
                    return [prefix + "lst[0]", prefix + "lst[1]"]
                if methodname == "logp":
                    return [prefix + "lst[0]", prefix + "lst[1]"]
                raise KeyError(methodname)
        m = EMList()
        rep.fcn, rep.params, rep.logp = m.fn, (p,) + s_tuple, m.logp
        rep.holders = [m]
        rep.slots = [(m, "lst[0]", 0), (m, "lst[1]", 1)]
        rep.nobj = 2
    elif base == "em_dict":
        class EMDict(EditableModule):
            def __init__(self):
                self.dct = {"a": a, 1: b}

            def fn(self, *args):
                probe.tick()
                xs, pp, s = split(args)
                return core(*xs, self.dct["a"] * self.dct["a"], self.dct[1], pp, s)

            def logp(self, x):
                probe.tick()
                return logp_core(x, self.dct["a"] * self.dct["a"], self.dct[1])

            def getparamnames(self, methodname, prefix=""):
                if methodname == "fn":
                    return [prefix + "dct['a']", prefix + "dct[1]"]
                if methodname == "logp":
                    return [prefix + "dct['a']", prefix + "dct[1]"]
                raise KeyError(methodname)
        m = EMDict()
        rep.fcn, rep.params, rep.logp = m.fn, (p,) + s_tuple, m.logp
        rep.holders = [m]
        rep.slots = [(m, "dct['a']", 0), (m, "dct[1]", 1)]
        rep.nobj = 2
    elif base == "em_dict_rev":
        # dict-held tensors used POSITIONALLY (iteration order of the dict) and declared in the reverse of the
        # insertion order: a substitution must not reorder the dict
        class EMDictRev(EditableModule):
            def __init__(self):
                self.dct = {"a": a, 1: b}

            def fn(self, *args):
                probe.tick()
                xs, pp, s = split(args)
                vals = list(self.dct.values())
                return core(*xs, vals[0] * vals[0], vals[1], pp, s)

            def logp(self, x):
                probe.tick()
                vals = list(self.dct.values())
                return logp_core(x, vals[0] * vals[0], vals[1])

            def getparamnames(self, methodname, prefix=""):
                if methodname in ("fn", "logp"):
                    return [prefix + "dct[1]", prefix + "dct['a']"]
                raise KeyError(methodname)
        m = EMDictRev()
        rep.fcn, rep.params, rep.logp = m.fn, (p,) + s_tuple, m.logp
        rep.holders = [m]
        rep.slots = [(m, "dct[1]", 0), (m, "dct['a']", 1)]
        rep.nobj = 2
    elif base in ("em_nn", "em_nn2"):
        class EMNN(EditableModule):
            def __init__(self):
                # an nn.Module held by an EditableModule (em_nn2: the inner module has a second registered
                # Parameter that the EditableModule does not declare)
                self.mod = _Inner(a) if base == "em_nn" else _Inner2(a)
                self.b = b

            def fn(self, *args):
                probe.tick()
                xs, pp, s = split(args)
                return core(*xs, self.mod.w * self.mod.w, self.b, pp, s)

            def logp(self, x):
                probe.tick()
                return logp_core(x, self.mod.w * self.mod.w, self.b)

            def getparamnames(self, methodname, prefix=""):
                if methodname == "fn":
                    return [prefix + "mod.w", prefix + "b"]
                if methodname == "logp":
                    return [prefix + "mod.w", prefix + "b"]
                raise KeyError(methodname)
        m = EMNN()
        rep.fcn, rep.params, rep.logp = m.fn, (p,) + s_tuple, m.logp
        rep.holders = [m]
        rep.slots = [(m, "mod.w", 0), (m, "b", 1)]
        rep.nobj = 2

    # ---------------- a sibling function over two objects
    elif base in MULTI_KINDS:
        class EMA(EditableModule):
            def __init__(self, t):
                self.t = t

            def sq(self):
                return self.t * self.t

            def val(self):
                return self.t

            def getparamnames(self, methodname, prefix=""):
                if methodname in ("sq", "val"):
                    return [prefix + "t"]
                raise KeyError(methodname)

        class NNA(torch.nn.Module):
            def __init__(self, t):
                super().__init__()
                self.t = t

            def sq(self):
                return self.t * self.t

            def val(self):
                return self.t
        class EMA2(EditableModule):
            """two declared names for ONE tensor"""

            def __init__(self, t):
                self.t = t
                self.tt = t

            def sq(self):
                return self.t * self.tt

            def getparamnames(self, methodname, prefix=""):
                if methodname == "sq":
                    return [prefix + "t", prefix + "tt"]
                raise KeyError(methodname)
        o1 = NNA(a) if base == "multi_nn_em" else (EMA2(a) if base == "multi_em2_em" else EMA(a))
        o2 = NNA(b) if base == "multi_em_nn" else EMA(b)

        @make_sibling(o1.sq, o2.val)
        def fn(*args):
            probe.tick()
            xs, pp, s = split(args)
            return core(*xs, o1.sq(), o2.val(), pp, s)

        @make_sibling(o1.sq, o2.val)
        def logp(x):
            probe.tick()
            return logp_core(x, o1.sq(), o2.val())
        rep.fcn, rep.params, rep.logp = fn, (p,) + s_tuple, logp
        rep.holders = [o1, o2]
        rep.slots = [(o1, "t", 0), (o2, "t", 1)]
        if base == "multi_em2_em":
            rep.slots = [(o1, "t", 0), (o1, "tt", 0), (o2, "t", 1)]
        rep.nobj = 2
    else:
        raise ValueError(kind)

    # how the function's (asq, b) are obtained from the list of unique object parameters, in xitorch's order
    if base in ("em_derived", "both", "both_rev"):
        rep.from_unique = lambda U: (U[0], U[1])
    elif base == "nn_nested":
        rep.from_unique = lambda U: (U[1] * U[1], U[0])
    elif base == "nn_extra":
        rep.from_unique = lambda U: (U[0] * U[0], U[2])
    else:
        rep.from_unique = lambda U: (U[0] * U[0], U[1])
    rep.core = core
    rep.nx = nx

    # ---------------- single sibling of the base representation
    if kind.startswith("sib:"):
        bf, bl = rep.fcn, rep.logp

        @make_sibling(bf)
        def sfn(*args):
            return bf(*args)

        @make_sibling(bl)
        def slogp(*args):
            return bl(*args)
        rep.fcn, rep.logp = sfn, slogp
    return rep


# ------------------------------------------------------------------ running a functional on a representation

def _inputs(fname):
    if fname in ("rootfinder", "equilibrium"):
        return torch.zeros(2, dtype=DT)
    if fname == "minimize":
        return torch.tensor([0.2, -0.1], dtype=DT)
    if fname in ("jac", "hess"):
        return torch.tensor([0.4, -0.3], dtype=DT).requires_grad_()
    return None


METHODS = {
    # first entry = the method of the quick tier; options are always passed explicitly
    "rootfinder": ["broyden1", "broyden2", "linearmixing"],
    "equilibrium": ["broyden1", "anderson_acc"],
    "minimize": ["broyden1", "gd"],
    "solve_ivp": ["rk4", "rk4:list", "rk38", "euler", "rk45", "rk45:list"],
    "quad": ["leggauss"],
    "mcquad": ["_dummy1d", "mh"],
    "jac": ["-"],
    "hess": ["-"],
    "jac_solve": ["bicgstab", "gmres"],
}
BCK = {"rootfinder": ["exactsolve", "bicgstab"], "equilibrium": ["exactsolve", "bicgstab"],
       "minimize": ["exactsolve", "cg"]}
ADAPTIVE = ("rk45", "rk23")


def _solve_options():
    return {"rtol": 1e-12, "atol": 1e-14, "max_niter": 40, "posdef": False}


def _bck_options(bck):
    if bck in (None, "-", "exactsolve"):
        return {"method": "exactsolve"}
    return dict(_solve_options(), method=bck)


def run_functional(fname, rep, method=None, bck=None, light=False):
    """call the functional once; returns a list of output tensors (graph attached)"""
    import xitorch.optimize as xo
    import xitorch.integrate as xi
    import xitorch.grad as xg
    import xitorch.linalg as xl
    fcn, params = rep.fcn, rep.params
    method = method if method not in (None, "-") else METHODS[fname][0]
    if fname in ("rootfinder", "equilibrium", "minimize"):
        if method == "gd":
            opts = dict(step=0.2, gamma=0.5, maxiter=80, f_tol=0.0, f_rtol=0.0, x_tol=1e-13, x_rtol=0.0)
        elif method == "anderson_acc":
            opts = dict(msize=3, beta=1.0, lmbda=1e-8, maxiter=40, f_tol=1e-13, x_tol=1e-13)
        elif method == "linearmixing":
            opts = dict(alpha=-0.7, f_tol=1e-13, x_tol=1e-13, maxiter=80)
        else:
            opts = dict(f_tol=1e-13, x_tol=1e-13, maxiter=60)
        if light:
            opts.update(f_tol=1e-7, x_tol=1e-7)
        y = getattr(xo, fname)(fcn, _inputs(fname), params=params, method=method,
                               bck_options=_bck_options(bck), **opts)
        return [y]
    if fname == "solve_ivp":
        ts = torch.tensor([0.0, 0.4] if light else [0.0, 0.3, 0.7], dtype=DT)
        y0 = torch.tensor([0.5, -0.4], dtype=DT)
        as_list = method.endswith(":list")
        method = method.split(":")[0]
        opts = dict(atol=1e-9, rtol=1e-8) if method in ADAPTIVE else {}
        if as_list:
            # the state as a list of two tensors: the same function wrapped as a sibling working on the pieces
            @make_sibling(fcn)
            def fcn_list(t, ys, *ps):
                out = fcn(t, torch.cat([v.reshape(-1) for v in ys]), *ps)
                return [out[:1], out[1:]]
            yt = xi.solve_ivp(fcn_list, ts, [y0[:1], y0[1:]], params=params, method=method, bck_options={}, **opts)
            return [torch.cat([v.reshape(v.shape[0], -1) for v in yt], dim=1)]
        yt = xi.solve_ivp(fcn, ts, y0, params=params, method=method, bck_options={}, **opts)
        return [yt]
    if fname == "quad":
        xl_ = torch.tensor(0.0, dtype=DT)
        xu_ = torch.tensor(1.0, dtype=DT)
        y = xi.quad(fcn, xl_, xu_, params=params, method=method, n=3 if light else 6, bck_options={})
        return [y]
    if fname == "mcquad":
        x0 = torch.zeros(1, dtype=DT)
        if method == "mh":
            opts = dict(nsamples=12, nburnout=4, step_size=0.8)
        else:
            opts = dict(nsamples=3 if light else 7, lb=-3.0, ub=3.0)
        y = xi.mcquad(fcn, rep.logp, x0, fparams=params, pparams=rep.pparams, method=method,
                      bck_options={}, **opts)
        return [y]
    if fname == "jac":
        y = _inputs(fname)
        J = xg.jac(fcn, params=(y,) + tuple(params), idxs=0)
        v = torch.tensor([0.7, -1.3], dtype=DT)
        w = torch.tensor([1.1, 0.6], dtype=DT)
        return [J.mv(v), J.rmv(w), J.fullmatrix()]
    if fname == "hess":
        y = _inputs(fname)
        H = xg.hess(fcn, params=(y,) + tuple(params), idxs=0)
        v = torch.tensor([0.7, -1.3], dtype=DT)
        return [H.mv(v), H.fullmatrix()]
    if fname == "jac_solve":
        # the Jacobian operator consumed by a matrix-free linear solve (solve substitutes the operator's
        # parameters through uselinopparams in its forward and backward)
        y = _inputs("jac")
        rhs = torch.tensor([[1.0], [0.5]], dtype=DT)
        J = xg.jac(fcn, params=(y,) + tuple(params), idxs=0)
        return [xl.solve(J, rhs, method=method, bck_options=_bck_options(method), **_solve_options())]
    raise ValueError(fname)


def cotangent(t, salt=0):
    n = t.numel()
    w = torch.linspace(0.6, 1.4, n, dtype=DT) if n > 1 else torch.tensor([0.9], dtype=DT)
    if salt:
        w = torch.flip(w, [0]) * 1.3 - 0.2
    return w.reshape(t.shape)


def loss_of(outs):
    return sum((o * cotangent(o)).sum() for o in outs)


def loss2_of(grads):
    tot = None
    for g in grads:
        if g is None or not g.requires_grad:
            continue
        term = (g * cotangent(g, 1)).sum()
        tot = term if tot is None else tot + term
    return tot


# ------------------------------------------------------------------ state snapshots of the user's objects

_CACHE_KEYS = ("_paramnames_", "_unique_params_idxs", "_unique_params_maps", "_number_of_params",
               "_unique_params_frozen")


def _walk(obj, path, out, seen):
    """record (path, kind, object, value clone / len) for everything reachable from a holder"""
    if isinstance(obj, torch.Tensor):
        out.append((path, "tensor", obj, obj.detach().clone(), type(obj).__name__))
        return
    if id(obj) in seen:
        return
    if isinstance(obj, torch.nn.Module):
        seen.add(id(obj))
        out.append((path, "module", obj, (tuple(obj._parameters.keys()), tuple(obj._modules.keys()),
                                          tuple(sorted(k for k in obj.__dict__ if not k.startswith("_")))), None))
        for k, v in obj._parameters.items():
            if v is not None:
                _walk(v, path + "." + k, out, seen)
        for k, v in obj._modules.items():
            _walk(v, path + "." + k, out, seen)
        return
    if isinstance(obj, list):
        seen.add(id(obj))
        out.append((path, "list", obj, len(obj), None))
        for i, v in enumerate(obj):
            _walk(v, path + "[%d]" % i, out, seen)
        return
    if isinstance(obj, dict):
        seen.add(id(obj))
        out.append((path, "dict", obj, tuple(repr(k) for k in obj.keys()), None))
        for k, v in obj.items():
            _walk(v, path + "[%r]" % (k,), out, seen)
        return
    if obj is None:
        out.append((path, "none", None, None, None))
        return
    if hasattr(obj, "__dict__") and isinstance(obj, EditableModule):
        seen.add(id(obj))
        keys = tuple(k for k in obj.__dict__ if k not in _CACHE_KEYS)
        out.append((path, "object", obj, keys, None))
        for k in keys:
            _walk(obj.__dict__[k], path + "." + k, out, seen)
        return
    # anything else (numbers, strings, functions ...) is not state we track


class Snapshot:
    def __init__(self, holders):
        self.holders = list(holders)
        self.rec = []
        for i, h in enumerate(self.holders):
            _walk(h, "h%d" % i, self.rec, set())
        self.named = [[(n, q) for n, q in h.named_parameters()] for h in self.holders
                      if isinstance(h, torch.nn.Module)]

    def diff(self):
        """list of (failure class, detail) describing how the holders differ from the snapshot"""
        now = []
        for i, h in enumerate(self.holders):
            _walk(h, "h%d" % i, now, set())
        fails = []
        old = {r[0]: r for r in self.rec}
        new = {r[0]: r for r in now}
        for path, r in old.items():
            if path not in new:
                fails.append(("state:entry-missing", path))
                continue
            q = new[path]
            if q[1] != r[1]:
                fails.append(("state:%s-became-%s" % (r[1], q[1]), path))
                continue
            if r[1] == "tensor":
                if q[2] is not r[2]:
                    same_val = q[2].shape == r[3].shape and torch.equal(q[2].detach(), r[3])
                    fails.append(("state:tensor-replaced", "%s (%s -> %s, value %s)" % (
                        path, r[4], type(q[2]).__name__, "equal" if same_val else "different")))
                else:
                    if type(q[2]).__name__ != r[4]:
                        fails.append(("state:tensor-type-changed", path))
                    if q[2].shape != r[3].shape or not torch.equal(q[2].detach(), r[3]):
                        fails.append(("state:tensor-value-changed", path))
            elif r[1] in ("list", "dict", "object", "module"):
                if q[2] is not r[2]:
                    fails.append(("state:container-replaced", path))
                if q[3] != r[3]:
                    cls = {"module": "state:module-registration-changed", "list": "state:list-length-changed",
                           "dict": "state:dict-keys-changed", "object": "state:attributes-changed"}[r[1]]
                    fails.append((cls, "%s: %s -> %s" % (path, r[3], q[3])))
        for path in new:
            if path not in old:
                fails.append(("state:entry-added", path))
        k = 0
        for h in self.holders:
            if isinstance(h, torch.nn.Module):
                cur = [(n, q) for n, q in h.named_parameters()]
                ref = self.named[k]
                k += 1
                if [n for n, _ in cur] != [n for n, _ in ref]:
                    fails.append(("state:named_parameters-changed",
                                  "%s -> %s" % ([n for n, _ in ref], [n for n, _ in cur])))
                elif any(x[1] is not y[1] for x, y in zip(cur, ref)):
                    fails.append(("state:named_parameters-identity-changed", ""))
                elif any(not isinstance(x[1], torch.nn.Parameter) for x in cur):
                    fails.append(("state:parameter-type-lost", ""))
        # dedupe keeping order
        seen = set()
        out = []
        for f in fails:
            if f not in seen:
                seen.add(f)
                out.append(f)
        return out
