"""Shared scenario construction for C18 / C19: one small, well-conditioned problem instance per functional,
for every function/operator kind, with closed-form custom methods and wrappers of the built-in methods.
No oracle lives here."""
from __future__ import annotations
import math
import numpy as np
import torch
import xitorch
import xitorch.linalg
import xitorch.optimize
import xitorch.integrate
import xitorch.interpolate
import xitorch.grad
from xitorch import LinearOperator, EditableModule
from mc.util import gen, randn, spd, herm_from_spectrum

DT = torch.float64

# registered method names of every functional (keys of the dispatch tables + the names handled before dispatch)
BUILTINS = {
    "solve": ["exactsolve", "custom_exactsolve", "cg", "bicgstab", "gmres", "broyden1", "scipy_gmres"],
    "symeig": ["exacteig", "custom_exacteig", "davidson"],
    "rootfinder": ["newton", "broyden1", "broyden2", "linearmixing"],
    "equilibrium": ["newton", "broyden1", "broyden2", "linearmixing", "anderson_acc"],
    "minimize": ["newton", "broyden1", "broyden2", "linearmixing", "gd", "adam"],
    "solve_ivp": ["euler", "rk4", "rk38", "rk23", "rk45"],
    "quad": ["leggauss"],
    "mcquad": ["_dummy1d", "mh", "mhcustom"],
    "Interp1D": ["linear", "cspline"],
    "SQuad": ["trapz", "simpson", "cspline"],
}
FUNCTIONALS = list(BUILTINS.keys())
# forward implemented as a torch.autograd.Function (callable must see grad mode disabled)
AUTOGRAD_FN = {"solve", "symeig", "rootfinder", "equilibrium", "minimize", "solve_ivp", "quad", "mcquad"}
# functionals whose backward re-uses the forward method by documented default
BCK_INHERITS = {"solve_ivp", "quad"}

_ROOT = {"f_tol": 1e-11, "x_tol": 1e-11, "maxiter": 400}
# explicit options for every built-in (never rely on a default); "res" = accuracy the options ask for
OPTS = {
    "solve": {
        "exactsolve": {}, "custom_exactsolve": {},
        "cg": {"rtol": 1e-12, "atol": 1e-13, "max_niter": 60, "posdef": True},
        "bicgstab": {"rtol": 1e-12, "atol": 1e-13, "max_niter": 60, "posdef": True},
        "gmres": {"rtol": 1e-12, "atol": 1e-13, "max_niter": 30, "posdef": True},
        "broyden1": {"f_tol": 1e-12, "x_tol": 1e-12, "maxiter": 200},
        "scipy_gmres": {"min_eps": 1e-12, "max_niter": 50},
    },
    "symeig": {
        "exacteig": {}, "custom_exacteig": {},
        "davidson": {"min_eps": 1e-10, "max_niter": 300, "v_init": "eye"},
    },
    "rootfinder": {"newton": dict(_ROOT), "broyden1": dict(_ROOT), "broyden2": dict(_ROOT),
                   "linearmixing": dict(_ROOT, alpha=-0.5, maxiter=1500)},
    "equilibrium": {"newton": dict(_ROOT), "broyden1": dict(_ROOT), "broyden2": dict(_ROOT),
                    "linearmixing": dict(_ROOT, alpha=-1.0, maxiter=1500),
                    "anderson_acc": {"f_tol": 1e-11, "x_tol": 1e-11, "maxiter": 400, "msize": 4}},
    "minimize": {"newton": dict(_ROOT), "broyden1": dict(_ROOT), "broyden2": dict(_ROOT),
                 "linearmixing": dict(_ROOT, alpha=-0.4, maxiter=1500),
                 "gd": {"step": 0.15, "gamma": 0.5, "maxiter": 1500, "f_tol": 0.0, "f_rtol": 0.0,
                        "x_tol": 1e-12, "x_rtol": 0.0},
                 "adam": {"step": 0.03, "maxiter": 1500, "f_tol": 0.0, "f_rtol": 0.0, "x_tol": 1e-12, "x_rtol": 0.0}},
    "solve_ivp": {"euler": {}, "rk4": {}, "rk38": {},
                  "rk23": {"rtol": 1e-8, "atol": 1e-9}, "rk45": {"rtol": 1e-9, "atol": 1e-10}},
    "quad": {"leggauss": {"n": 24}},
    "mcquad": {"_dummy1d": {"nsamples": 60}, "mh": {"nsamples": 40, "nburnout": 10, "step_size": 0.8},
               "mhcustom": {"nsamples": 40, "nburnout": 10}},
    "Interp1D": {"linear": {}, "cspline": {"bc_type": "natural"}},
    "SQuad": {"trapz": {}, "simpson": {}, "cspline": {"bc_type": "natural"}},
}
# resolution of the backward pass a method asks for when it is (re)used to integrate the backward problem
BCK_RES = {"rk23": 1e-6, "rk45": 1e-7}


def opts_of(functional, method):
    return dict(OPTS[functional][method])


# ---------------------------------------------------------------------------------------------- helpers

class MFreeOp(LinearOperator):
    """matrix-free Hermitian operator defined by a dense matrix it keeps as a parameter"""

    def __init__(self, a):
        super().__init__(shape=a.shape, is_hermitian=True, dtype=a.dtype, device=a.device)
        self.a = a

    def _mv(self, x):
        return torch.matmul(self.a, x.unsqueeze(-1)).squeeze(-1)

    def _getparamnames(self, prefix=""):
        return [prefix + "a"]


class MFreeRect(LinearOperator):
    """matrix-free rectangular operator (for svd)"""

    def __init__(self, a):
        super().__init__(shape=a.shape, is_hermitian=False, dtype=a.dtype, device=a.device)
        self.a = a

    def _mv(self, x):
        return torch.matmul(self.a, x.unsqueeze(-1)).squeeze(-1)

    def _rmv(self, x):
        return torch.matmul(self.a.transpose(-2, -1), x.unsqueeze(-1)).squeeze(-1)

    def _getparamnames(self, prefix=""):
        return [prefix + "a"]


def _sym(a):
    return (a + a.transpose(-2, -1)) * 0.5


class Scen:
    """one problem instance; `leaves` are the differentiable inputs, `call` invokes the functional"""
    functional = None
    kinds = ()
    tuple_out = False

    def __init__(self, kind, vseed):
        self.kind = kind
        self.g = gen(vseed)
        self.leaves = []
        self.kappa = 1.0
        self.track = True      # remember the last operator / object handed to the library (C18 identity checks)

    # --- to be provided
    def call(self, method, fwd, bck):
        raise NotImplementedError

    def loss(self, outs):
        raise NotImplementedError

    def canon(self, outs):
        """value used to measure the distance between two forward results (gauge fixed)"""
        return torch.cat([o.detach().reshape(-1) for o in outs])

    def closed(self):
        raise NotImplementedError

    def builtin_impl(self, name):
        raise NotImplementedError

    def wrap(self, name):
        impl = self.builtin_impl(name)

        def wrapped(*a, **k):
            return impl(*a, **k)
        return wrapped

    def check_args(self, args):
        """documented positional arguments; returns list of problem strings"""
        raise NotImplementedError

    def returned_matches(self, ret, outs):
        """is what the callable returned what the functional returned"""
        if isinstance(ret, torch.Tensor):
            ret = (ret,)
        if len(ret) != len(outs):
            return False
        return all(torch.is_tensor(r) and r.shape == o.shape and torch.equal(r.detach(), o.detach())
                   for r, o in zip(ret, outs))

    def seed(self):
        torch.manual_seed(771)


def _leaf(t):
    return t.detach().clone().requires_grad_()


def _teq(a, b):
    return torch.is_tensor(a) and torch.is_tensor(b) and a.shape == b.shape and torch.equal(a.detach(), b.detach())


# ---------------------------------------------------------------------------------------------- solve

class SolveScen(Scen):
    functional = "solve"
    kinds = ("dense", "mfree")

    def __init__(self, kind, vseed, withE=False, bscale=None, withM=False):
        super().__init__(kind, vseed)
        g = self.g
        ncols = 3 if withM else 2       # with M: as many columns as rows (layouts that only work for 1 column or
        #                                 only fail for ncols != nrows are visible)
        self.a = _leaf(spd(3, 3.0, g=g))
        self.B = _leaf(randn((3, ncols), g=g) * (1.0 if bscale is None else bscale))
        self.W = randn((3, ncols), g=g)
        self.withE = withE or withM
        self.leaves = [self.a, self.B]
        if self.withE:
            self.E = _leaf(torch.tensor([-0.5, 0.3, -0.2][:ncols], dtype=DT))
            self.leaves.append(self.E)
        else:
            self.E = None
        self.m = None
        if withM:
            self.m = _leaf(spd(3, 2.0, g=g))
            self.leaves.append(self.m)
        self.kappa = (3.0 / (1.0 - 0.3) if self.withE else 3.0) * (4.0 if withM else 1.0)
        self.last_op = None

    def mop(self):
        if self.m is None:
            return None
        s = _sym(self.m)
        op = LinearOperator.m(s, is_hermitian=True) if self.kind == "dense" else MFreeOp(s)
        if self.track:
            self.last_mop = op
        return op

    def op(self):
        s = _sym(self.a)
        op = LinearOperator.m(s, is_hermitian=True) if self.kind == "dense" else MFreeOp(s)
        if self.track:
            self.last_op = op
        return op

    def call(self, method, fwd, bck):
        self.seed()
        return (xitorch.linalg.solve(self.op(), self.B, self.E, self.mop(), bck_options=bck, method=method, **fwd),)

    def loss(self, outs):
        x = outs[0]
        return (x * x * self.W).sum() + x.sum()

    def closed(self):
        def closed_solve(A, B, E, M, **opts):
            with torch.no_grad():
                am = A.fullmatrix()
                if E is None:
                    return torch.linalg.solve(am, B).detach()
                eye = torch.eye(am.shape[-1], dtype=am.dtype) if M is None else M.fullmatrix()
                cols = [torch.linalg.solve(am - E[c] * eye, B[:, c]) for c in range(B.shape[-1])]
                return torch.stack(cols, dim=-1).detach()
        return closed_solve

    def builtin_impl(self, name):
        from xitorch._impls.linalg import solve as S
        from xitorch.linalg.solve import custom_exactsolve
        return {"exactsolve": S.exactsolve, "custom_exactsolve": custom_exactsolve, "cg": S.cg,
                "bicgstab": S.bicgstab, "gmres": S.gmres, "broyden1": S.broyden1_solve,
                "scipy_gmres": S.wrap_gmres}[name]

    def wrap(self, name):
        impl = self.builtin_impl(name)
        if name == "exactsolve":
            return lambda A, B, E, M, **k: impl(A, B, E, M)
        return lambda A, B, E, M, **k: impl(A, B, E, M, **k)

    def check_args(self, args):
        p = []
        if len(args) != 4:
            return ["nargs=%d" % len(args)]
        if args[0] is not self.last_op:
            p.append("A-not-callers-operator")
        if not _teq(args[1], self.B):
            p.append("B-differs")
        if (self.E is None) != (args[2] is None) or (self.E is not None and not _teq(args[2], self.E)):
            p.append("E-differs")
        if (self.m is None) != (args[3] is None) or (self.m is not None and args[3] is not self.last_mop):
            p.append("M-differs")
        return p


# ---------------------------------------------------------------------------------------------- symeig

class SymeigScen(Scen):
    functional = "symeig"
    kinds = ("dense", "mfree")
    tuple_out = True

    def __init__(self, kind, vseed):
        super().__init__(kind, vseed)
        g = self.g
        lam = torch.tensor([1.0, 2.0, 3.5, 5.0], dtype=DT)
        self.a = _leaf(herm_from_spectrum(lam, g=g))
        self.C = _sym(randn((4, 4), g=g))
        self.w = torch.tensor([0.7, -0.4], dtype=DT)
        self.leaves = [self.a]
        self.neig = 2
        self.kappa = 5.0   # spread / smallest gap
        self.last_op = None

    def op(self):
        s = _sym(self.a)
        op = LinearOperator.m(s, is_hermitian=True) if self.kind == "dense" else MFreeOp(s)
        if self.track:
            self.last_op = op
        return op

    def call(self, method, fwd, bck):
        self.seed()
        return tuple(xitorch.linalg.symeig(self.op(), self.neig, "lowest", None, bck_options=bck, method=method, **fwd))

    def loss(self, outs):
        ev, v = outs
        q = torch.einsum("ak,ab,bk->k", v, self.C, v)
        return (ev * ev * self.w).sum() + (q * q).sum() + q.sum()

    def canon(self, outs):
        ev, v = outs
        ev, v = ev.detach(), v.detach()
        proj = torch.einsum("ak,bk->kab", v, v)
        return torch.cat([ev.reshape(-1), proj.reshape(-1)])

    def closed(self):
        def closed_eig(A, neig, mode, M, **opts):
            with torch.no_grad():
                ev, v = torch.linalg.eigh(A.fullmatrix())
                if mode == "lowest":
                    return ev[:neig].detach().clone(), v[:, :neig].detach().clone()
                return ev[-neig:].detach().clone(), v[:, -neig:].detach().clone()
        return closed_eig

    def builtin_impl(self, name):
        from xitorch._impls.linalg import symeig as S
        from xitorch.linalg.symeig import custom_exacteig
        return {"exacteig": S.exacteig, "custom_exacteig": custom_exacteig, "davidson": S.davidson}[name]

    def wrap(self, name):
        impl = self.builtin_impl(name)
        if name == "exacteig":
            return lambda A, neig, mode, M, **k: impl(A, neig, mode, M)
        return lambda A, neig, mode, M, **k: impl(A, neig, mode, M, **k)

    def check_args(self, args):
        if len(args) != 4:
            return ["nargs=%d" % len(args)]
        p = []
        if args[0] is not self.last_op:
            p.append("A-not-callers-operator")
        if args[1] != self.neig:
            p.append("neig-differs")
        if args[2] != "lowest":
            p.append("mode-differs")
        if args[3] is not None:
            p.append("M-differs")
        return p


class SvdScen(Scen):
    functional = "svd"
    kinds = ("dense", "mfree")
    tuple_out = True

    def __init__(self, kind, vseed):
        super().__init__(kind, vseed)
        g = self.g
        u, _ = torch.linalg.qr(randn((4, 3), g=g))
        v, _ = torch.linalg.qr(randn((3, 3), g=g))
        self.a = _leaf((u * torch.tensor([3.0, 2.0, 1.0], dtype=DT)) @ v.T)
        self.leaves = [self.a]
        self.kappa = 9.0

    def call(self, method, fwd, bck):
        self.seed()
        A = LinearOperator.m(self.a * 1.0) if self.kind == "dense" else MFreeRect(self.a * 1.0)
        return tuple(xitorch.linalg.svd(A, 2, "uppest", bck_options=bck, method=method, **fwd))

    def loss(self, outs):
        u, s, vh = outs
        return (s * s).sum() + ((u @ torch.diag(s) @ vh) ** 2).sum()


# ---------------------------------------------------------------------------------------------- root family

class _FnHolderNN(torch.nn.Module):
    def __init__(self, A, b, which):
        super().__init__()
        self.A = torch.nn.Parameter(A.detach().clone())
        self.b = torch.nn.Parameter(b.detach().clone())
        self.which = which

    def forward(self, y):
        return _root_family(self.which, y, self.A, self.b)


class _FnHolderEd(EditableModule):
    def __init__(self, A, b, which):
        self.A = A
        self.b = b
        self.which = which

    def forward(self, y):
        return _root_family(self.which, y, self.A, self.b)

    def getparamnames(self, methodname, prefix=""):
        return [prefix + "A", prefix + "b"]


_ALPHA_EQ = 0.4


def _root_family(which, y, A, b):
    if which == "rootfinder":
        return A @ torch.sinh(y) - b
    if which == "equilibrium":
        return y - _ALPHA_EQ * (A @ torch.sinh(y) - b)
    s = torch.sinh(y)                                   # minimize
    As = _sym(A)
    return 0.5 * (s * (As @ s)).sum() - (b * s).sum()


def _fn_rootfinder(y, A, b):
    return _root_family("rootfinder", y, A, b)


def _fn_equilibrium(y, A, b):
    return _root_family("equilibrium", y, A, b)


def _fn_minimize(y, A, b):
    return _root_family("minimize", y, A, b)


class RootScen(Scen):
    kinds = ("pure", "nnmod", "edmod")

    def __init__(self, functional, kind, vseed):
        super().__init__(kind, vseed)
        self.functional = functional
        g = self.g
        A0 = spd(3, 2.0, g=g)
        if functional != "minimize":
            r = randn((3, 3), g=g)
            A0 = A0 + 0.08 * (r - r.T)
        ystar = torch.tensor([0.3, -0.2, 0.5], dtype=DT) + 0.05 * randn((3,), g=g)
        b0 = A0 @ torch.sinh(ystar)
        self.W = randn((3,), g=g)
        self.y0 = torch.zeros(3, dtype=DT)
        if kind == "nnmod":
            self.mod = _FnHolderNN(A0, b0, functional)
            self.A, self.b = self.mod.A, self.mod.b
        else:
            self.A, self.b = _leaf(A0), _leaf(b0)
            if kind == "edmod":
                self.mod = _FnHolderEd(self.A, self.b, functional)
        self.leaves = [self.A, self.b]
        self.kappa = 2.0 * math.cosh(0.8) ** 2
        self.fn = {"rootfinder": _fn_rootfinder, "equilibrium": _fn_equilibrium, "minimize": _fn_minimize}[functional]

    def call(self, method, fwd, bck):
        self.seed()
        api = getattr(xitorch.optimize, self.functional)
        if self.kind == "pure":
            return (api(self.fn, self.y0, params=(self.A, self.b), bck_options=bck, method=method, **fwd),)
        return (api(self.mod.forward, self.y0, params=(), bck_options=bck, method=method, **fwd),)

    def loss(self, outs):
        y = outs[0]
        return (y * y * self.W).sum() + torch.cos(y).sum()

    def closed(self):
        minim = self.functional == "minimize"

        def closed_root(fcn, y0, params, **opts):
            with torch.no_grad():
                if len(params) == 2:
                    A, b = params
                else:                       # module kinds: read the tensors the module holds right now
                    A, b = self.mod.A, self.mod.b
                A = _sym(A) if minim else A
                return torch.asinh(torch.linalg.solve(A.detach(), b.detach())).detach()
        return closed_root

    def builtin_impl(self, name):
        from xitorch._impls.optimize.root import rootsolver as R
        from xitorch._impls.optimize.equilibrium import anderson_acc
        from xitorch._impls.optimize.minimizer import gd, adam
        return {"newton": R.newton, "broyden1": R.broyden1, "broyden2": R.broyden2, "linearmixing": R.linearmixing,
                "anderson_acc": anderson_acc, "gd": gd, "adam": adam}[name]

    def wrap(self, name):
        impl = self.builtin_impl(name)
        if self.functional == "equilibrium" and name == "anderson_acc":
            # a callable passed to equilibrium receives the root form y - f(y); anderson wants the map f
            def wrapped_aa(fcn, y0, params, **k):
                return impl(lambda y, *p: y - fcn(y, *p), y0, params, **k)
            return wrapped_aa
        if self.functional == "minimize" and name not in ("gd", "adam"):
            # a callable passed to minimize receives the (value, gradient) function
            def wrapped_rf(fcn, y0, params, **k):
                return impl(lambda y, *p: fcn(y, *p)[1], y0, params, **k)
            return wrapped_rf
        return lambda fcn, y0, params, **k: impl(fcn, y0, params, **k)

    def check_args(self, args):
        if len(args) != 3:
            return ["nargs=%d" % len(args)]
        p = []
        if not callable(args[0]):
            p.append("fcn-not-callable")
        if not _teq(args[1], self.y0):
            p.append("y0-differs")
        want = (self.A, self.b) if self.kind == "pure" else ()
        got = tuple(args[2])
        if len(got) != len(want) or any(not _teq(a, b) for a, b in zip(got, want)):
            p.append("params-differ")
        if not p:
            # the function handed over must be the caller's problem: its root / stationary point is the closed form
            with torch.no_grad():
                Ad = _sym(self.A) if self.functional == "minimize" else self.A
                ys = torch.asinh(torch.linalg.solve(Ad.detach(), self.b.detach()))
            try:
                r = args[0](ys, *got)
                if self.functional == "minimize":
                    r = r[1] if isinstance(r, (tuple, list)) else r
                if not torch.is_tensor(r) or r.shape != ys.shape or float(r.detach().abs().max()) > 1e-9:
                    p.append("fcn-not-callers-problem")
            except Exception as e:          # noqa
                p.append("fcn-raises:%s" % type(e).__name__)
        return p


# ---------------------------------------------------------------------------------------------- solve_ivp

class _IvpNN(torch.nn.Module):
    def __init__(self, A):
        super().__init__()
        self.A = torch.nn.Parameter(A.detach().clone())

    def forward(self, t, y):
        return self.A @ y


class _IvpEd(EditableModule):
    def __init__(self, A):
        self.A = A

    def forward(self, t, y):
        return self.A @ y

    def getparamnames(self, methodname, prefix=""):
        return [prefix + "A"]


def _fn_ivp(t, y, A):
    return A @ y


class IvpScen(Scen):
    functional = "solve_ivp"
    # pure_list: the plain function with the state given as a list of two tensors
    kinds = ("pure", "nnmod", "edmod", "pure_list")

    def __init__(self, kind, vseed, nt=5):
        super().__init__(kind, vseed)
        g = self.g
        A0 = torch.tensor([[-0.5, 0.8], [-0.6, -0.3]], dtype=DT) + 0.1 * randn((2, 2), g=g)
        self.y0 = _leaf(torch.tensor([1.0, 0.5], dtype=DT) + 0.1 * randn((2,), g=g))
        self.ts = torch.linspace(0.0, 0.4, nt, dtype=DT)
        self.W = randn((nt, 2), g=g)
        if kind == "nnmod":
            self.mod = _IvpNN(A0)
            self.A = self.mod.A
        else:
            self.A = _leaf(A0)
            if kind == "edmod":
                self.mod = _IvpEd(self.A)
        self.leaves = [self.A, self.y0]
        self.kappa = 3.0

    def call(self, method, fwd, bck):
        self.seed()
        if self.kind == "pure":
            return (xitorch.integrate.solve_ivp(_fn_ivp, self.ts, self.y0, params=(self.A,), bck_options=bck,
                                                method=method, **fwd),)
        if self.kind == "pure_list":
            def f_list(t, ys, A):
                out = _fn_ivp(t, torch.cat([v.reshape(-1) for v in ys]), A)
                return [out[:1], out[1:]]
            yt = xitorch.integrate.solve_ivp(f_list, self.ts, [self.y0[:1], self.y0[1:]], params=(self.A,),
                                             bck_options=bck, method=method, **fwd)
            return (torch.cat([v.reshape(v.shape[0], -1) for v in yt], dim=1),)
        return (xitorch.integrate.solve_ivp(self.mod.forward, self.ts, self.y0, params=(), bck_options=bck,
                                            method=method, **fwd),)

    def loss(self, outs):
        y = outs[0]
        return (y * y * self.W).sum() + y.sum()

    def closed(self):
        def closed_ivp(fcn, ts, y0, params, **opts):
            with torch.no_grad():
                A = params[0] if len(params) == 1 else self.mod.A
                if A.shape != (2, 2) or y0.shape != (2,):
                    raise RuntimeError("closed-form ivp formula used for a problem it was not written for")
                ys = [torch.linalg.matrix_exp(A.detach() * (t - ts[0])) @ y0.detach() for t in ts]
                return torch.stack(ys, dim=0).detach()
        return closed_ivp

    def builtin_impl(self, name):
        from xitorch._impls.integrate.ivp.explicit_rk import rk4_ivp, rk38_ivp, fwd_euler_ivp
        from xitorch._impls.integrate.ivp.adaptive_rk import rk23_adaptive, rk45_adaptive
        return {"rk4": rk4_ivp, "rk38": rk38_ivp, "euler": fwd_euler_ivp, "rk23": rk23_adaptive,
                "rk45": rk45_adaptive}[name]

    def wrap(self, name):
        impl = self.builtin_impl(name)
        return lambda fcn, ts, y0, params, **k: impl(fcn, ts, y0, params, **k)

    def check_args(self, args):
        if len(args) != 4:
            return ["nargs=%d" % len(args)]
        p = []
        if not callable(args[0]):
            p.append("fcn-not-callable")
        if not _teq(args[1], self.ts):
            p.append("ts-differs")
        if not _teq(args[2], self.y0):
            p.append("y0-differs")
        want = (self.A,) if self.kind in ("pure", "pure_list") else ()
        got = tuple(args[3])
        if len(got) != len(want) or any(not _teq(a, b) for a, b in zip(got, want)):
            p.append("params-differ")
        if not p:
            try:
                r = args[0](self.ts[1], self.y0.detach(), *got)
                if not _close(r, self.A.detach() @ self.y0.detach()):
                    p.append("fcn-not-callers-problem")
            except Exception as e:          # noqa
                p.append("fcn-raises:%s" % type(e).__name__)
        return p


def _close(a, b, tol=1e-12):
    return torch.is_tensor(a) and a.shape == b.shape and float((a.detach() - b).abs().max()) <= tol


# ---------------------------------------------------------------------------------------------- quad

class _QuadNN(torch.nn.Module):
    def __init__(self, a, b):
        super().__init__()
        self.a = torch.nn.Parameter(a.detach().clone())
        self.b = torch.nn.Parameter(b.detach().clone())

    def forward(self, x):
        return self.a * torch.cos(self.b * x)


class _QuadEd(EditableModule):
    def __init__(self, a, b):
        self.a, self.b = a, b

    def forward(self, x):
        return self.a * torch.cos(self.b * x)

    def getparamnames(self, methodname, prefix=""):
        return [prefix + "a", prefix + "b"]


def _fn_quad(x, a, b):
    return a * torch.cos(b * x)


class QuadScen(Scen):
    functional = "quad"
    kinds = ("pure", "nnmod", "edmod")

    def __init__(self, kind, vseed):
        super().__init__(kind, vseed)
        g = self.g
        a0 = torch.tensor([1.2, -0.7], dtype=DT) + 0.1 * randn((2,), g=g)
        b0 = torch.tensor(1.3, dtype=DT) + 0.1 * randn((), g=g)
        self.xl = _leaf(torch.tensor(0.2, dtype=DT))
        self.xu = _leaf(torch.tensor(1.1, dtype=DT))
        self.W = randn((2,), g=g)
        if kind == "nnmod":
            self.mod = _QuadNN(a0, b0)
            self.a, self.b = self.mod.a, self.mod.b
        else:
            self.a, self.b = _leaf(a0), _leaf(b0)
            if kind == "edmod":
                self.mod = _QuadEd(self.a, self.b)
        self.leaves = [self.a, self.b, self.xl, self.xu]
        self.kappa = 2.0

    def call(self, method, fwd, bck):
        self.seed()
        if self.kind == "pure":
            return (xitorch.integrate.quad(_fn_quad, self.xl, self.xu, params=(self.a, self.b), bck_options=bck,
                                           method=method, **fwd),)
        return (xitorch.integrate.quad(self.mod.forward, self.xl, self.xu, params=(), bck_options=bck,
                                       method=method, **fwd),)

    def loss(self, outs):
        y = outs[0]
        return (y * y * self.W).sum() + y.sum()

    def closed(self):
        def closed_quad(fcn, xl, xu, params, **opts):
            with torch.no_grad():
                if len(params) == 2 and torch.is_tensor(params[0]) and params[0].shape == (2,):
                    a, b = params
                elif len(params) == 0:
                    a, b = self.mod.a, self.mod.b
                else:
                    raise RuntimeError("closed-form integral used for an integrand it was not written for")
                a, b = a.detach(), b.detach()
                return (a / b * (torch.sin(b * xu.detach()) - torch.sin(b * xl.detach()))).detach()
        return closed_quad

    def builtin_impl(self, name):
        from xitorch._impls.integrate.fixed_quad import leggauss
        return {"leggauss": leggauss}[name]

    def wrap(self, name):
        impl = self.builtin_impl(name)
        return lambda fcn, xl, xu, params, **k: impl(fcn, xl, xu, params, **k)

    def check_args(self, args):
        if len(args) != 4:
            return ["nargs=%d" % len(args)]
        p = []
        if not callable(args[0]):
            p.append("fcn-not-callable")
        if not _teq(args[1], self.xl):
            p.append("xl-differs")
        if not _teq(args[2], self.xu):
            p.append("xu-differs")
        want = (self.a, self.b) if self.kind == "pure" else ()
        got = tuple(args[3])
        if len(got) != len(want) or any(not _teq(a, b) for a, b in zip(got, want)):
            p.append("params-differ")
        if not p:
            try:
                x = torch.tensor(0.37, dtype=DT)
                r = args[0](x, *got)
                if not _close(r, (self.a * torch.cos(self.b * x)).detach()):
                    p.append("fcn-not-callers-problem")
            except Exception as e:          # noqa
                p.append("fcn-raises:%s" % type(e).__name__)
        return p


# ---------------------------------------------------------------------------------------------- mcquad

class _McNNf(torch.nn.Module):
    """integrand of the nn.Module kind (one module per function: each owns only the parameters it uses)"""

    def __init__(self, a):
        super().__init__()
        self.a = torch.nn.Parameter(a.detach().clone())

    def forward(self, x):
        return self.a * (x * x).sum()


class _McNNp(torch.nn.Module):
    def __init__(self, s):
        super().__init__()
        self.s = torch.nn.Parameter(s.detach().clone())

    def forward(self, x):
        return -(x * x).sum() / (2 * self.s * self.s)


class _McEd(EditableModule):
    def __init__(self, a, s):
        self.a, self.s = a, s

    def ffcn(self, x):
        return self.a * (x * x).sum()

    def logp(self, x):
        return -(x * x).sum() / (2 * self.s * self.s)

    def getparamnames(self, methodname, prefix=""):
        return [prefix + "a"] if methodname == "ffcn" else [prefix + "s"]


def _mc_f(x, a):
    return a * (x * x).sum()


def _mc_logp(x, s):
    return -(x * x).sum() / (2 * s * s)


def _mc_step(x, *pparams):
    # custom_step of mhcustom: an AR(1) move (its stationary law is a fixed Gaussian); draws from the global RNG
    return 0.5 * x + 0.6 * torch.randn_like(x)


class McquadScen(Scen):
    functional = "mcquad"
    kinds = ("pure", "nnmod", "edmod")

    def __init__(self, kind, vseed):
        super().__init__(kind, vseed)
        g = self.g
        a0 = torch.tensor([0.9, -1.4], dtype=DT) + 0.1 * randn((2,), g=g)
        s0 = torch.tensor(0.8, dtype=DT) + 0.05 * randn((), g=g)
        self.x0 = torch.zeros(1, dtype=DT)
        self.W = randn((2,), g=g)
        if kind == "nnmod":
            self.modf, self.modp = _McNNf(a0), _McNNp(s0)
            self.a, self.s = self.modf.a, self.modp.s
        else:
            self.a, self.s = _leaf(a0), _leaf(s0)
            if kind == "edmod":
                self.mod = _McEd(self.a, self.s)
        self.leaves = [self.a, self.s]
        self.kappa = 4.0
        self.grid = torch.linspace(-6.0, 6.0, 49, dtype=DT)

    def fix(self, method, fwd):
        """mhcustom needs a step function"""
        if method == "mhcustom" and "custom_step" not in fwd:
            fwd = dict(fwd, custom_step=_mc_step)
        return fwd

    def call(self, method, fwd, bck):
        self.seed()
        if self.kind == "pure":
            return (xitorch.integrate.mcquad(_mc_f, _mc_logp, self.x0, fparams=(self.a,), pparams=(self.s,),
                                             bck_options=bck, method=method, **fwd),)
        if self.kind == "nnmod":
            return (xitorch.integrate.mcquad(self.modf.forward, self.modp.forward, self.x0, fparams=(), pparams=(),
                                             bck_options=bck, method=method, **fwd),)
        return (xitorch.integrate.mcquad(self.mod.ffcn, self.mod.logp, self.x0, fparams=(), pparams=(),
                                         bck_options=bck, method=method, **fwd),)

    def loss(self, outs):
        y = outs[0]
        return (y * y * self.W).sum() + y.sum()

    def closed(self):
        grid = self.grid

        def closed_samples(logp, x0, pparams, **opts):
            with torch.no_grad():
                xs = grid.reshape(-1, 1).clone()
                lw = torch.stack([logp(x, *pparams).reshape(()) for x in xs])
                w = torch.softmax(lw, dim=0)
                return xs.detach(), w.detach()
        return closed_samples

    def expect(self, xs, ws):
        """value the functional must return for the sample set the callable produced"""
        with torch.no_grad():
            res = 0.0
            for x, w in zip(xs, ws):
                res = res + self.a.detach() * (x * x).sum() * w
        return res

    def returned_matches(self, ret, outs):
        try:
            xs, ws = ret
            e = self.expect(xs, ws)
        except Exception:
            return False
        return e.shape == outs[0].shape and float((e - outs[0].detach()).abs().max()) <= 1e-13 * (1 + float(e.abs().max()))

    def builtin_impl(self, name):
        from xitorch._impls.integrate.mcsamples.mcmc import mh, mhcustom, dummy1d
        return {"mh": mh, "mhcustom": mhcustom, "_dummy1d": dummy1d}[name]

    def wrap(self, name):
        impl = self.builtin_impl(name)
        return lambda logp, x0, pparams, **k: impl(logp, x0, pparams, **k)

    def check_args(self, args):
        if len(args) != 3:
            return ["nargs=%d" % len(args)]
        p = []
        if not callable(args[0]):
            p.append("log_pfcn-not-callable")
        if not _teq(args[1], self.x0):
            p.append("x0-differs")
        want = (self.s,) if self.kind == "pure" else ()
        got = tuple(args[2])
        if len(got) != len(want) or any(not _teq(a, b) for a, b in zip(got, want)):
            p.append("pparams-differ")
        if not p:
            try:
                x = torch.tensor([0.6], dtype=DT)
                r = args[0](x, *got)
                if not _close(r.reshape(()), (-(x * x).sum() / (2 * self.s * self.s)).detach()):
                    p.append("log_pfcn-not-callers-problem")
            except Exception as e:          # noqa
                p.append("log_pfcn-raises:%s" % type(e).__name__)
        return p


# ---------------------------------------------------------------------------------------------- Interp1D / SQuad

class _NpInterp:
    """closed-form interpolant (numpy.interp), detached"""

    def __init__(self, x, y):
        self.x, self.y = x, y

    def __call__(self, xq, y=None):
        yy = self.y if self.y is not None else y
        with torch.no_grad():
            return torch.as_tensor(np.interp(xq.detach().numpy(), self.x.detach().numpy(), yy.detach().numpy()),
                                   dtype=xq.dtype)

    def getparamnames(self):
        return []


class InterpScen(Scen):
    functional = "Interp1D"
    kinds = ("obj",)

    def __init__(self, kind, vseed):
        super().__init__(kind, vseed)
        g = self.g
        self.x = torch.tensor([0.0, 0.4, 1.0, 1.7, 2.1, 3.0], dtype=DT)
        self.y = _leaf(randn((6,), g=g))
        self.xq = _leaf(torch.tensor([0.2, 0.9, 1.85, 2.6], dtype=DT))
        self.W = randn((4,), g=g)
        self.leaves = [self.y, self.xq]
        self.kappa = 10.0
        self.last_obj = None

    def call(self, method, fwd, bck):
        ip = xitorch.interpolate.Interp1D(self.x, self.y, method=method, assume_sorted=True, **fwd)
        if self.track:
            self.last_obj = ip
        return (ip(self.xq),)

    def loss(self, outs):
        y = outs[0]
        return (y * y * self.W).sum() + y.sum()

    def closed(self):
        return lambda x, y, **opts: _NpInterp(x, y)

    def builtin_impl(self, name):
        from xitorch._impls.interpolate.interp_1d import CubicSpline1D, LinearInterp1D
        return {"cspline": CubicSpline1D, "linear": LinearInterp1D}[name]

    def wrap(self, name):
        impl = self.builtin_impl(name)
        return lambda x, y, **k: impl(x, y, **k)

    def check_args(self, args):
        if len(args) != 2:
            return ["nargs=%d" % len(args)]
        p = []
        if not _teq(args[0], self.x):
            p.append("x-differs")
        if not _teq(args[1], self.y):
            p.append("y-differs")
        return p

    def returned_matches(self, ret, outs):
        if self.last_obj is None or self.last_obj.obj is not ret:
            return False
        with torch.no_grad():
            again = ret(self.xq)
        return _teq(again, outs[0])


class _NpSQuad:
    """closed-form sampled quadrature: trapezoid rule evaluated with numpy, detached"""

    def __init__(self, x):
        self.x = x.detach().numpy()

    def cumsum(self, y):
        yn = y.detach().numpy()
        seg = 0.5 * (yn[..., 1:] + yn[..., :-1]) * (self.x[1:] - self.x[:-1])
        out = np.concatenate([np.zeros(yn.shape[:-1] + (1,)), np.cumsum(seg, axis=-1)], axis=-1)
        return torch.as_tensor(out, dtype=y.dtype)

    def integrate(self, y):
        return self.cumsum(y)[..., -1]

    def getparamnames(self, methodname, prefix=""):
        return []


class SQuadScen(Scen):
    functional = "SQuad"
    kinds = ("obj",)

    def __init__(self, kind, vseed):
        super().__init__(kind, vseed)
        g = self.g
        self.x = torch.tensor([0.0, 0.4, 1.0, 1.7, 2.1, 3.0, 3.3], dtype=DT)
        self.y = _leaf(randn((2, 7), g=g))
        self.W = randn((2, 7), g=g)
        self.leaves = [self.y]
        self.kappa = 10.0
        self.last_obj = None

    def call(self, method, fwd, bck):
        sq = xitorch.integrate.SQuad(self.x, method=method, **fwd)
        if self.track:
            self.last_obj = sq
        return (sq.cumsum(self.y, dim=-1), sq.integrate(self.y, dim=-1))

    def loss(self, outs):
        c, i = outs
        return (c * c * self.W).sum() + (i * i).sum() + c.sum()

    def closed(self):
        return lambda x, **opts: _NpSQuad(x)

    def builtin_impl(self, name):
        from xitorch._impls.integrate.samples_quad import CubicSplineSQuad, TrapzSQuad, SimpsonSQuad
        return {"cspline": CubicSplineSQuad, "trapz": TrapzSQuad, "simpson": SimpsonSQuad}[name]

    def wrap(self, name):
        impl = self.builtin_impl(name)
        return lambda x, **k: impl(x, **k)

    def check_args(self, args):
        if len(args) != 1:
            return ["nargs=%d" % len(args)]
        return [] if _teq(args[0], self.x) else ["x-differs"]

    def returned_matches(self, ret, outs):
        if self.last_obj is None or self.last_obj.obj is not ret:
            return False
        with torch.no_grad():
            c, i = ret.cumsum(self.y), ret.integrate(self.y)
        return _teq(c, outs[0]) and _teq(i, outs[1])


# ---------------------------------------------------------------------------------------------- jac / hess products

def _fn_jh(y, A, b):
    return A @ torch.sinh(y) - b * y * y


class JacScen(Scen):
    """products with the operators returned by xitorch.grad.jac / hess; `method` = which product"""
    functional = "jac"
    kinds = ("pure", "nnmod", "edmod")

    def __init__(self, kind, vseed):
        super().__init__(kind, vseed)
        g = self.g
        A0 = spd(3, 2.0, g=g)
        b0 = randn((3,), g=g)
        self.y = _leaf(torch.tensor([0.3, -0.2, 0.5], dtype=DT))
        self.v = randn((3,), g=g)
        if kind == "nnmod":
            self.mod = _JhNN(A0, b0)
            self.A, self.b = self.mod.A, self.mod.b
        else:
            self.A, self.b = _leaf(A0), _leaf(b0)
            if kind == "edmod":
                self.mod = _JhEd(self.A, self.b)
        self.leaves = [self.A, self.b, self.y]

    def call(self, method, fwd, bck):
        from xitorch.grad import jac, hess
        if self.kind == "pure":
            fcn, params = _fn_jh, (self.y, self.A, self.b)
        else:
            fcn, params = self.mod.forward, (self.y,)
        if method in ("jac_mv", "jac_rmv", "jac_full"):
            J = jac(fcn, params, idxs=0)
            if method == "jac_mv":
                return (J.mv(self.v),)
            if method == "jac_rmv":
                return (J.rmv(self.v),)
            return (J.fullmatrix(),)
        if self.kind == "pure":
            sfcn = _fn_jh_scalar
        else:
            sfcn = self.mod.scalar
        H = hess(sfcn, params, idxs=0)
        return (H.mv(self.v),)

    def loss(self, outs):
        o = outs[0]
        return (o * o).sum() + o.sum()


def _fn_jh_scalar(y, A, b):
    return (_fn_jh(y, A, b) ** 2).sum()


class _JhNN(torch.nn.Module):
    def __init__(self, A, b):
        super().__init__()
        self.A = torch.nn.Parameter(A.detach().clone())
        self.b = torch.nn.Parameter(b.detach().clone())

    def forward(self, y):
        return _fn_jh(y, self.A, self.b)

    def scalar(self, y):
        return (_fn_jh(y, self.A, self.b) ** 2).sum()


class _JhEd(EditableModule):
    def __init__(self, A, b):
        self.A, self.b = A, b

    def forward(self, y):
        return _fn_jh(y, self.A, self.b)

    def scalar(self, y):
        return (_fn_jh(y, self.A, self.b) ** 2).sum()

    def getparamnames(self, methodname, prefix=""):
        return [prefix + "A", prefix + "b"]


# ---------------------------------------------------------------------------------------------- factory

def make(functional, kind=None, vseed=0, **kw):
    if functional == "solve":
        return SolveScen(kind or "dense", vseed, **kw)
    if functional == "symeig":
        return SymeigScen(kind or "dense", vseed)
    if functional == "svd":
        return SvdScen(kind or "dense", vseed)
    if functional in ("rootfinder", "equilibrium", "minimize"):
        return RootScen(functional, kind or "pure", vseed)
    if functional == "solve_ivp":
        return IvpScen(kind or "pure", vseed, **kw)
    if functional == "quad":
        return QuadScen(kind or "pure", vseed)
    if functional == "mcquad":
        return McquadScen(kind or "pure", vseed)
    if functional == "Interp1D":
        return InterpScen("obj", vseed)
    if functional == "SQuad":
        return SQuadScen("obj", vseed)
    if functional == "jac":
        return JacScen(kind or "pure", vseed)
    raise KeyError(functional)
