"""C12 -- quad applies an exact n-point Gauss-Legendre rule on the requested interval.

Every point of the lattice (n, interval, limit form, output kind, dtype) is executed against the real
`xitorch.integrate.quad`.  The rule the implementation applies is *extracted* from one call whose integrand answers
its k-th call with the unit vector e_k (nodes = logged abscissae, weights = returned vector) and then judged against
Legendre moments (finite limits) or the tan-substituted reference rule (infinite limits)."""
from __future__ import annotations
import math
import numpy as np
import torch
from mc.util import V, call, rnd
from mc.props import _quad_common as qc

ID = "C12"
LEVEL = "exploration"
DESIGN_REF = "DESIGN.md §5 C12"
RULE = ("case = (n, interval out of 10 incl. reversed / tiny / large / half- and doubly-infinite, limit form out of "
        "{float, int, 0-d tensor, 1-element 1-d tensor, 3 mixed}, integrand output kind {scalar, (3,), (2,2), tuple}, "
        "dtype); complete cross product (int form only where the finite limits are integers). Per case the rule is "
        "extracted from the real call (k-th evaluation answers e_k) for the interval, the swapped interval and two "
        "adjacent sub-intervals, then a smooth integrand of the case's output kind is integrated; distinct = distinct "
        "observation hashes (call counts, shapes, rounded residual ratios)")
RULE_ADDED = 'Added later: micro / offset intervals, nested quad calls, call-order plane in fresh interpreters. Round 4: n in {129, 200, 257} in the quick tier. Round 6: bck_options naming another number of nodes (forward rule unchanged).'
ASSUMPTIONS = [
    "an evaluation whose abscissa equals one of the limits exactly is the documented dtype probe, not a node "
    "(Gauss nodes lie strictly inside); its answer must carry zero weight",
    "tensor limits have the dtype of the integrand's output; python-number limits are cast by the library",
    "moment tolerance 64*n*eps*(|xu-xl| + max|x|); reference Gauss data from scipy.special.roots_legendre, Legendre "
    "values by the three-term recurrence in float64",
    "for infinite limits the reference is tan of the Gauss nodes on [atan xl, atan xu] with weights w*sec^2; abscissa "
    "tolerance follows the conditioning of tan (sec^2 * eps)",
    "result shape is compared after reshape when the number of elements agrees (a (1,)-shaped limit broadcasts "
    "into the result; recorded in obs, not judged)",
]
BUDGET_S = {"quick": 300, "thorough": 3000}

NS_QUICK = list(range(1, 25)) + [32, 50, 64, 100, 128, 129, 200, 257]
NS_THOROUGH = list(range(1, 301))
FORMS_QUICK = ["float", "int", "t0", "t1", "mixed"]
FORMS_THOROUGH = ["float", "int", "t0", "t1", "mixed", "mixed2", "mixed3"]
OUTS = ["scalar", "vec3", "mat22", "tuple"]
SPLIT = 0.3125   # adjacent intervals meet at xl + SPLIT*(xu-xl)


# call-order (history) plane: sequences of quad calls in ONE fresh interpreter; every result must be bit-identical
# to the result of the same call made first in a fresh interpreter (no state may leak from one call into the next:
# e.g. node tables cached under a key that omits the dtype)
HIST_CALLS = [("float32", 5, "sym"), ("float64", 5, "sym"), ("float64", 6, "sym"), ("float32", 5, "ninf_inf"),
              ("float64", 5, "ninf_inf"), ("float64", 5, "1_inf")]

_HIST_CODE = r'''
import json, sys, torch
torch.set_num_threads(1)
from xitorch.integrate import quad
INF = float("inf")
IV = {"sym": (-1.0, 1.0), "ninf_inf": (-INF, INF), "1_inf": (1.0, INF)}
def f(x, dt):
    x = torch.as_tensor(x, dtype=dt)
    return torch.exp(-x * x) * (1.0 + 0.5 * torch.cos(3.0 * x)) + 1.0 / (1.0 + x * x) ** 2
out = []
for (dtn, n, iv) in json.loads(sys.argv[1]):
    dt = getattr(torch, dtn)
    xl, xu = IV[iv]
    y = quad(lambda x: f(x, dt), xl, xu, n=n)
    out.append([str(y.dtype), float(y).hex()])
print(json.dumps(out))
'''


def cases(tier, seed):
    ns = NS_QUICK if tier == "quick" else NS_THOROUGH
    forms = FORMS_QUICK if tier == "quick" else FORMS_THOROUGH
    out = []
    import itertools
    depth = 2 if tier == "quick" else 3
    hist = []
    for seq in itertools.product(range(len(HIST_CALLS)), repeat=depth):
        if len(set(seq)) == 1:
            continue
        hist.append({"kind": "history", "seq": list(seq)})
    for n in ns:
        for iname, (xl, xu) in qc.INTERVALS.items():
            for form in forms:
                kl, ku = qc.FORMS[form]
                if (kl == "int" and not qc.int_ok(xl)) or (ku == "int" and not qc.int_ok(xu)):
                    continue
                for o in OUTS:
                    for dt in ("float64", "float32"):
                        if iname == "offset" and dt == "float32":
                            continue     # 16 float32 ulps wide: the nodes cannot be told apart from the limits
                        out.append({"n": n, "interval": iname, "form": form, "out": o, "dtype": dt})
                        if dt == "float64" and n in (2, 5, 16) and form == forms[0]:
                            for bn in (1, 2):
                                out.append({"n": n, "interval": iname, "form": form, "out": o, "dtype": dt, "bckn": bn})
    for outer in ("unit", "ninf_inf", "0_inf", "1_inf", "inf_0"):
        for inner in ("unit", "ninf_inf", "0_inf", "ninf_0"):
            for n in ((5, 16) if tier == "quick" else (2, 5, 16, 40)):
                for dtn in ("float64", "float32"):
                    out.append({"kind": "nested", "outer": outer, "inner": inner, "n": n, "dtype": dtn})
    # the history cases cost a fresh interpreter each: spread them evenly so that they do not share one work chunk
    stride = max(1, len(out) // max(1, len(hist)))
    for k, h in enumerate(hist):
        out.insert(min(len(out), 2 + k * (stride + 1)), h)
    return out


# ------------------------------------------------------------------ integrands of the case's output kind

_COEF = [(1.0, 0.3), (2.3, -0.7), (0.6, 1.1), (3.1, 0.2), (1.7, -1.3), (0.9, 0.5), (2.9, 0.8)]


def _finite_components(x, a, b, dt):
    """7 bounded smooth functions of the affine coordinate of x on [a, b]"""
    xt = torch.as_tensor(x, dtype=dt).reshape(())
    t = (2.0 * xt - (a + b)) / (b - a)
    return [torch.cos(al * t + be) + 0.25 * k for k, (al, be) in enumerate(_COEF)]


def _decay_components(x, dt):
    xt = torch.as_tensor(x, dtype=dt).reshape(())
    x2 = xt * xt
    ax = torch.abs(xt)
    return [torch.exp(-x2), 1.0 / (1.0 + x2), 1.0 / (1.0 + x2) ** 2, ax * torch.exp(-ax)]


def _np_decay(x):
    """values and x-derivatives of the four decaying integrands at float64 abscissae"""
    x = np.asarray(x, dtype=np.float64)
    ax = np.abs(x)
    e = np.exp(-x * x)
    f = np.stack([e, 1 / (1 + x * x), 1 / (1 + x * x) ** 2, ax * np.exp(-ax)])
    d = np.stack([-2 * x * e, -2 * x / (1 + x * x) ** 2, -4 * x / (1 + x * x) ** 3, np.sign(x) * (1 - ax) * np.exp(-ax)])
    return f, d


def _decay_exact(xl, xu):
    def anti(x):
        if math.isinf(x):
            s = 1.0 if x > 0 else -1.0
            return [s * math.sqrt(math.pi) / 2, s * math.pi / 2, s * math.pi / 4, s]
        s = 1.0 if x >= 0 else -1.0
        return [math.sqrt(math.pi) / 2 * math.erf(x), math.atan(x), x / (2 * (1 + x * x)) + math.atan(x) / 2,
                s * (1 - (1 + abs(x)) * math.exp(-abs(x)))]
    return np.asarray(anti(xu)) - np.asarray(anti(xl))


# which components make up each output kind: (indices into the component list, shape) per tensor
_LAYOUT_FIN = {"scalar": [([0], ())], "vec3": [([0, 1, 2], (3,))], "mat22": [([0, 1, 2, 3], (2, 2))],
               "tuple": [([4, 5, 6], (3,)), ([0, 1, 2, 3], (2, 2))]}
_LAYOUT_INF = {"scalar": [([0], ())], "vec3": [([0, 1, 2], (3,))], "mat22": [([0, 1, 2, 3], (2, 2))],
               "tuple": [([3, 1, 0], (3,)), ([0, 1, 2, 3], (2, 2))]}


def _assemble(comps, layout, is_tuple):
    outs = [torch.stack([comps[i] for i in idx]).reshape(shape) for idx, shape in layout]
    return tuple(outs) if is_tuple else outs[0]


# ------------------------------------------------------------------ the case

_BASE = {}


def _hist_run(seq):
    import json
    from mc.util import fresh_python
    code = _HIST_CODE.replace("sys.argv[1]", repr(json.dumps([list(HIST_CALLS[i]) for i in seq])))
    return fresh_python(code)


def _run_history(cfg):
    seq = cfg["seq"]
    res, err = _hist_run(seq)
    if err is not None:
        return {"viol": [V("history:exception-in-fresh-interpreter", {"error": err, "sequence": [list(HIST_CALLS[i]) for i in seq]})],
                "obs": {"err": err[:80]}, "status": "violation", "n": len(seq), "states": len(seq), "transitions": len(seq)}
    viol = []
    nexec = len(seq)
    for k, i in enumerate(seq):
        if i not in _BASE:
            b, e2 = _hist_run([i])
            nexec += 1
            if e2 is not None:
                raise RuntimeError("baseline call failed in a fresh interpreter: %s" % e2)
            _BASE[i] = b[0]
        if res[k] != _BASE[i]:
            viol.append(V("history:result-depends-on-earlier-calls",
                          {"sequence": [list(HIST_CALLS[j]) for j in seq], "position": k, "call": list(HIST_CALLS[i]),
                           "in_sequence": res[k], "alone": _BASE[i],
                           "difference": abs(float.fromhex(res[k][1]) - float.fromhex(_BASE[i][1]))}, position=k))
            break
    return {"viol": viol, "obs": {"seq": seq, "res": [r[1] for r in res]}, "status": "violation" if viol else "ok",
            "n": nexec, "states": len(seq), "transitions": len(seq)}


def _run_nested(cfg):
    """re-entrancy: the integrand of one quad call evaluates another quad call (a double integral, a normalisation
    constant computed inside the integrand).  For a separable integrand g(x) * int h the nested result must equal
    the product of the two one-dimensional results computed by separate, non-nested calls."""
    from xitorch.integrate import quad
    dt = qc.DTYPES[cfg["dtype"]]
    eps = qc.eps_of(cfg["dtype"])
    n = cfg["n"]
    (ol, ou), (il, iu) = qc.INTERVALS[cfg["outer"]], qc.INTERVALS[cfg["inner"]]

    def g(x):
        x = torch.as_tensor(x, dtype=dt)
        return torch.exp(-0.7 * x * x) * (1.0 + 0.3 * x)

    def h(y):
        y = torch.as_tensor(y, dtype=dt)
        return 1.0 / (1.0 + y * y) ** 2 + 0.2 * torch.exp(-y * y)
    og = call(quad, g, ol, ou, n=n)
    oh = call(quad, h, il, iu, n=n)
    on = call(quad, lambda x: g(x) * quad(h, il, iu, n=n), ol, ou, n=n)
    viol = []
    for o, nm in ((og, "outer"), (oh, "inner"), (on, "nested")):
        if o.exc is not None:
            viol.append(V("nested:exception:%s" % o.exc_sig, {"call": nm}, call=nm))
    obs = {}
    if not viol:
        ref = float(og.value) * float(oh.value)
        got = float(on.value)
        tol = 64 * n * eps * max(abs(ref), 1e-300)
        obs = {"rel": rnd(abs(got - ref) / max(abs(ref), 1e-300), 3)}
        if not abs(got - ref) <= tol:
            viol.append(V("nested:result-differs-from-product-of-separate-calls",
                          {"nested": got, "product": ref, "tol": tol, "outer": cfg["outer"], "inner": cfg["inner"]}))
    return {"viol": viol, "obs": obs, "status": "violation" if viol else "ok", "n": 3}


def run_case(cfg):
    from xitorch.integrate import quad
    if cfg.get("kind") == "history":
        return _run_history(cfg)
    if cfg.get("kind") == "nested":
        return _run_nested(cfg)
    n, iname, form, okind, dtn = cfg["n"], cfg["interval"], cfg["form"], cfg["out"], cfg["dtype"]
    dt = qc.DTYPES[dtn]
    eps = qc.eps_of(dtn)
    xl0, xu0 = qc.INTERVALS[iname]
    kl, ku = qc.FORMS[form]
    xl, xu = qc.rounded(xl0, dtn), qc.rounded(xu0, dtn)      # the limits the rule really works on
    infinite = qc.is_inf_interval(xl, xu)
    viol = []
    obs = {}
    nexec = 0

    def mk(kind, val):
        return qc.make_limit(kind, val, dtn)

    def excv(o, phase):
        return V("exception:%s" % o_sig(o), {"phase": phase}, phase=phase)

    def o_sig(e):
        return "%s:%s" % (type(e).__name__, str(e).strip().split("\n")[0][:80])

    # ---- (1) extract the rule
    ends = {xl0, xu0, xl, xu}
    ex = qc.extract_rule(quad, mk(kl, xl0), mk(ku, xu0), n, dtn, ends)
    nexec += 1
    if ex.exc is not None:
        return {"viol": [V("exception:" + o_sig(ex.exc), {"phase": "extract"}, phase="extract")],
                "obs": {"exc": o_sig(ex.exc)}, "status": "exception", "n": nexec}
    obs["calls"] = ex.n_calls
    obs["probe"] = ex.n_probe
    obs["xshape"] = [list(s) if s is not None else None for s in ex.xshape]
    obs["xdtype"] = ex.xdtype
    obs["res_shape"] = list(ex.res_shape)
    if ex.probe_weight != 0.0:
        viol.append(V("probe-evaluation-has-weight", {"weight": ex.probe_weight}))
    if len(ex.nodes) != n or ex.overflow:
        viol.append(V("evaluation-count", {"interior_evaluations": len(ex.nodes), "expected": n,
                                           "limit_evaluations": ex.n_probe, "calls": ex.n_calls},
                      observed_count=len(ex.nodes)))
        return {"viol": viol, "obs": obs, "status": "violation", "n": nexec}
    if ex.xdtype != [str(dt)]:
        viol.append(V("abscissa-dtype", {"seen": ex.xdtype, "expected": str(dt)}))
    x, w = ex.nodes, ex.weights
    xr, wr, tr = qc.ref_rule(n, xl, xu)
    lo, hi = min(xl, xu), max(xl, xu)
    if not (np.all(x > lo) and np.all(x < hi)) or not np.all(np.isfinite(x)):
        viol.append(V("node-outside-interval", {"min": float(np.min(x)), "max": float(np.max(x)), "lo": lo, "hi": hi}))

    if not infinite:
        L = xu - xl
        scale = abs(L) + max(abs(xl), abs(xu))
        tol = 64.0 * n * eps * scale
        # symmetry about the midpoint
        xs = np.sort(x)
        asym = float(np.max(np.abs(xs + xs[::-1] - (xl + xu))))
        tol_sym = 16.0 * eps * max(abs(xl), abs(xu), abs(L))
        obs["asym"] = rnd(asym / tol_sym, 2)
        if asym > tol_sym:
            viol.append(V("nodes-not-symmetric", {"asym": asym, "tol": tol_sym}))
        # Legendre moments k = 0..2n
        t = (2.0 * x - xl - xu) / L
        T = qc.legendre_table(t, 2 * n)
        mom = T @ w
        expect = np.zeros(2 * n + 1)
        expect[0] = L
        expect[2 * n] = qc.gauss_defect(n) * L / 2.0
        err = np.abs(mom - expect)
        kbad = int(np.argmax(err[:2 * n]))
        obs["mom"] = rnd(float(err[:2 * n].max() / tol), 2)
        obs["mom2n"] = rnd(float(mom[2 * n] / L), 4)
        if err[:2 * n].max() > tol or not np.all(np.isfinite(mom)):
            viol.append(V("legendre-moment-not-exact", {"k": kbad, "observed": float(mom[kbad]),
                                                        "exact": float(expect[kbad]), "tol": tol}, k=kbad))
        if abs(mom[2 * n]) <= 10 * tol and abs(expect[2 * n]) > 100 * tol:
            viol.append(V("degree-2n-integrated-exactly", {"observed": float(mom[2 * n]), "gauss_rule": float(expect[2 * n])}))
        elif err[2 * n] > tol:
            viol.append(V("degree-2n-defect-differs-from-gauss-rule", {"observed": float(mom[2 * n]),
                                                                        "gauss_rule": float(expect[2 * n]), "tol": tol}))
    else:
        # nodes = tan(Gauss nodes on [atan xl, atan xu]) , weights = w sec^2
        if len(x) == n:
            tspan = abs(math.atan(xl)) + abs(math.atan(xu))
            sec2 = 1.0 + xr * xr
            tol_x = 16.0 * eps * (sec2 * tspan + np.abs(xr))
            # conditioning of sec^2 at each node; the Gauss weights themselves are only demanded to the accuracy of
            # the moment test (sum of absolute deviations <= 64 n eps * length), not to 1 ulp each
            tol_w = 16.0 * eps * np.abs(wr) * (2.0 + 2.0 * np.abs(xr) * tspan)
            ex_ = np.abs(x - xr)
            ew = np.abs(w - wr)
            obs["tan_x"] = rnd(float(np.max(ex_ / tol_x)), 2)
            if np.any(ex_ > tol_x) or not np.all(np.isfinite(x)):
                i = int(np.argmax(ex_ / tol_x))
                viol.append(V("abscissae-not-tan-of-gauss-nodes", {"i": i, "observed": float(x[i]), "reference": float(xr[i]),
                                                                   "tol": float(tol_x[i])}))
            tl_, tu_ = math.atan(xl), math.atan(xu)
            Lt = tu_ - tl_
            excess = float(np.sum(np.maximum(0.0, ew - tol_w) / sec2))
            tol_sum = 64.0 * n * eps * abs(Lt)
            obs["tan_w"] = rnd(excess / tol_sum, 2)
            if excess > tol_sum or not np.all(np.isfinite(w)):
                i = int(np.argmax((ew - tol_w) / sec2))
                viol.append(V("weights-not-w-sec2", {"i": i, "observed": float(w[i]), "reference": float(wr[i]),
                                                     "summed_excess_in_t": excess, "tol": tol_sum}))
            # the same statement without reference nodes: (atan x_i, W_i cos^2) is the Gauss rule on [atan xl, atan xu]
            tt = np.arctan(x)
            vv = w / (1.0 + x * x)
            T = qc.legendre_table((2.0 * tt - tl_ - tu_) / Lt, 2 * n)
            mom = T @ vv
            expect = np.zeros(2 * n + 1)
            expect[0] = Lt
            expect[2 * n] = qc.gauss_defect(n) * Lt / 2.0
            err = np.abs(mom - expect)
            tol = 64.0 * n * eps * (abs(Lt) + tspan)
            obs["mom"] = rnd(float(err[:2 * n].max() / tol), 2)
            obs["mom2n"] = rnd(float(mom[2 * n] / Lt), 4)
            if err[:2 * n].max() > tol or not np.all(np.isfinite(mom)):
                kbad = int(np.argmax(err[:2 * n]))
                viol.append(V("legendre-moment-not-exact", {"k": kbad, "observed": float(mom[kbad]), "exact": float(expect[kbad]),
                                                            "tol": tol, "variable": "t = atan x"}, k=kbad))
            if err[2 * n] > tol:
                viol.append(V("degree-2n-defect-differs-from-gauss-rule", {"observed": float(mom[2 * n]),
                                                                            "gauss_rule": float(expect[2 * n]), "tol": tol}))

    # ---- (2) swapped limits negate the weights on the same nodes
    exs = qc.extract_rule(quad, mk(kl, xu0), mk(ku, xl0), n, dtn, ends)
    nexec += 1
    if exs.exc is not None:
        viol.append(V("exception:" + o_sig(exs.exc), {"phase": "swapped"}, phase="swapped"))
    elif len(exs.nodes) != n:
        viol.append(V("evaluation-count", {"interior_evaluations": len(exs.nodes), "expected": n, "phase": "swapped"},
                      observed_count=len(exs.nodes), phase="swapped"))
    else:
        i1, i2 = np.argsort(x), np.argsort(exs.nodes)
        if infinite:
            tolx = 2 * tol_x[np.argsort(xr)] if len(x) == n else None
            tolw = 2 * tol_w[np.argsort(xr)]
        else:
            tolx = 16.0 * eps * max(abs(xl), abs(xu), abs(xu - xl)) * np.ones(n)
            tolw = 16.0 * eps * np.abs(w[i1]) + 1e-300
        dx = np.abs(x[i1] - exs.nodes[i2])
        dw = np.abs(w[i1] + exs.weights[i2])
        obs["swap"] = [rnd(float(np.max(dx / tolx)), 2), rnd(float(np.max(dw / tolw)), 2)]
        if np.any(dx > tolx) or np.any(dw > tolw):
            viol.append(V("swapped-limits-do-not-negate", {"max_node_diff": float(dx.max()), "max_weight_sum": float(dw.max())}))

    # ---- (3) adjacent intervals add for the polynomial basis (finite limits)
    if not infinite:
        m0 = xl0 + SPLIT * (xu0 - xl0)
        m = qc.rounded(m0, dtn)
        km = ku if ku in ("t0", "t1") else (kl if kl in ("t0", "t1") else "float")
        ea = qc.extract_rule(quad, mk(kl, xl0), mk(km, m0), n, dtn, ends | {m0, m})
        eb = qc.extract_rule(quad, mk(km, m0), mk(ku, xu0), n, dtn, ends | {m0, m})
        nexec += 2
        bad = [e for e in (ea, eb) if e.exc is not None]
        if bad:
            viol.append(V("exception:" + o_sig(bad[0].exc), {"phase": "adjacent"}, phase="adjacent"))
        elif len(ea.nodes) != n or len(eb.nodes) != n:
            viol.append(V("evaluation-count", {"interior_evaluations": [len(ea.nodes), len(eb.nodes)], "expected": n,
                                               "phase": "adjacent"}, phase="adjacent"))
        else:
            L = xu - xl
            xa = np.concatenate([ea.nodes, eb.nodes])
            wa = np.concatenate([ea.weights, eb.weights])
            Ta = qc.legendre_table((2.0 * xa - xl - xu) / L, 2 * n - 1)
            moma = Ta @ wa
            expa = np.zeros(2 * n)
            expa[0] = L
            erra = np.abs(moma - expa)
            tola = 2 * 64.0 * n * eps * (abs(L) + max(abs(xl), abs(xu)))
            obs["adj"] = rnd(float(erra.max() / tola), 2)
            if erra.max() > tola or not np.all(np.isfinite(moma)):
                kb = int(np.argmax(erra))
                viol.append(V("adjacent-intervals-do-not-add", {"k": kb, "observed": float(moma[kb]), "exact": float(expa[kb]),
                                                                "tol": tola, "split": m}, k=kb))

    # ---- (4) an ordinary integrand of the case's output kind: result = sum_i w_i f(x_i), component-wise
    layout = (_LAYOUT_INF if infinite else _LAYOUT_FIN)[okind]
    is_tuple = okind == "tuple"
    flog = []

    def f(xarg):
        comps = _decay_components(xarg, dt) if infinite else _finite_components(xarg, xl, xu, dt)
        flog.append((qc.xval(xarg), [float(c) for c in comps]))
        return _assemble(comps, layout, is_tuple)

    kwb = {}
    if cfg.get("bckn"):
        # options of the backward pass naming another number of nodes: the forward rule is the n-point rule
        kwb["bck_options"] = {"n": (n + 3 if cfg["bckn"] == 1 else max(1, n - 1))}
    o = call(quad, f, mk(kl, xl0), mk(ku, xu0), method="leggauss", n=n, **kwb)
    nexec += 1
    if o.exc is not None:
        viol.append(V("exception:" + o_sig(o.exc), {"phase": "integrand"}, phase="integrand"))
    else:
        res = o.value
        parts = list(res) if is_tuple else [res]
        ok_struct = (isinstance(res, (tuple, list)) if is_tuple else isinstance(res, torch.Tensor)) and \
            len(parts) == len(layout) and all(isinstance(p, torch.Tensor) for p in parts)
        if not ok_struct:
            viol.append(V("result-structure", {"type": type(res).__name__, "expected": okind}))
        else:
            obs["out_shapes"] = [list(p.shape) for p in parts]
            obs["out_dtypes"] = [str(p.dtype) for p in parts]
            inner = [(xv, fv) for (xv, fv) in flog if xv not in ends]
            if len(inner) != n:
                viol.append(V("evaluation-count", {"interior_evaluations": len(inner), "expected": n, "phase": "integrand"},
                              observed_count=len(inner), phase="integrand"))
            elif len(x) == n:
                xf = np.asarray([a for a, _ in inner])
                F = np.asarray([b for _, b in inner], dtype=np.float64)          # (n, ncomp)
                same_nodes = np.array_equal(xf, x)
                if not same_nodes:
                    viol.append(V("nodes-depend-on-integrand", {"max_diff": float(np.max(np.abs(xf - x)))}))
                ref = w @ F
                mag = np.abs(w) @ np.abs(F)
                worst = 0.0
                for p, (idx, shape) in zip(parts, layout):
                    if p.dtype != dt:
                        viol.append(V("result-dtype", {"seen": str(p.dtype), "expected": str(dt)}))
                    if p.numel() != len(idx):
                        viol.append(V("result-shape", {"seen": list(p.shape), "expected": list(shape)}))
                        continue
                    got = p.detach().reshape(-1).to(torch.float64).numpy()
                    tolc = 16.0 * (n + 2) * eps * mag[idx] + 1e-300
                    e = np.abs(got - ref[idx])
                    worst = max(worst, float(np.max(e / tolc)))
                    if np.any(e > tolc) or not np.all(np.isfinite(got)):
                        j = int(np.argmax(e / tolc))
                        viol.append(V("result-is-not-weighted-sum-of-evaluations",
                                      {"component": int(idx[j]), "observed": float(got[j]), "reference": float(ref[idx][j]),
                                       "tol": float(tolc[j])}))
                obs["lin"] = rnd(worst, 2)
                # closed forms on infinite ranges: as accurate as the reference rule itself
                if infinite:
                    exact = _decay_exact(xl, xu)
                    fr, dfr = _np_decay(xr)
                    qref = fr @ wr
                    err_ref = np.abs(qref - exact)
                    tspan = abs(math.atan(xl)) + abs(math.atan(xu))
                    sec2 = 1.0 + xr * xr
                    gmax = np.max(np.abs(fr) * sec2, axis=1)
                    tol_round = 64.0 * n * eps * abs(math.atan(xu) - math.atan(xl)) * gmax + \
                        64.0 * eps * (np.abs(fr) @ np.abs(wr) * 2.0
                                              + (np.abs(dfr) * sec2 * tspan) @ np.abs(wr)
                                              + (np.abs(fr) * 2.0 * np.abs(xr) * tspan) @ np.abs(wr))
                    worst = 0.0
                    for p, (idx, shape) in zip(parts, layout):
                        if p.numel() != len(idx):
                            continue
                        got = p.detach().reshape(-1).to(torch.float64).numpy()
                        e = np.abs(got - exact[idx])
                        bound = err_ref[idx] + tol_round[idx]
                        worst = max(worst, float(np.max((e - err_ref[idx]) / tol_round[idx])))
                        if np.any(e > bound) or not np.all(np.isfinite(got)):
                            j = int(np.argmax(e / bound))
                            viol.append(V("closed-form-accuracy-below-reference-rule",
                                          {"component": int(idx[j]), "observed": float(got[j]), "exact": float(exact[idx][j]),
                                           "reference_rule_error": float(err_ref[idx][j]), "rounding_allowance": float(tol_round[idx][j])}))
                    obs["closed"] = rnd(worst, 2)
    return {"viol": viol, "obs": obs, "status": "violation" if viol else "ok", "n": nexec}
