"""C09 — a function gives the same results however its parameters are supplied.

Differential exploration: one mathematical function per functional, expressed in every representation xitorch
accepts; values and first/second-order leaf gradients of each representation must equal those of the
pure-function representation (same algorithm, same arithmetic)."""
from __future__ import annotations
import torch
from mc.util import V, call, relerr, rnd
from mc.props import _fn_common as F

ID = "C09"
LEVEL = "exploration"
DESIGN_REF = "DESIGN.md §5 C09"
RULE = ("case = (functional, method, backward-solve method, representation kind, subset of the leaves {a,b,p} that "
        "requires grad, extra non-tensor parameter present?, order 0/1/2, value plane); every point of the lattice is "
        "executed (order 1/2 only with a non-empty grad subset); each case runs the functional on the representation "
        "and on the pure-function reference built from the same leaf values and compares outputs, first-order leaf "
        "gradients (order>=1; order 2 takes them with create_graph) and second-order leaf gradients (order 2) to 1e-10 "
        "relative; distinct = distinct rounded (outputs, gradients) observations; a case is trivial when the "
        "reference itself raises or is non-finite (then nothing is judged)")
RULE_ADDED = 'Added later: kinds with dependent / repeated / reversed-declaration parameters (pure_dep, em_dep, pure_twice, em_twice, multi3, em_dict_rev), list-state solve_ivp. Round 4: kinds em_pexp (object tensor of f next to explicit parameters of log p) and em_cplx (object also holds complex / integer tensors). Round 5: kinds both / both_rev (a class deriving from torch.nn.Module and EditableModule, in either order, declaring a derived non-Parameter tensor next to a registered Parameter). Round 6: rebind kinds (object used once, its tensors re-bound by the owner, then the judged call).'
ASSUMPTIONS = [
    "leaves a, b, p are float64 vectors of length 2 from a fixed alphabet (plane 0) or from boxes a in [0.6,1], "
    "b in [-0.4,0.4], p in [0.3,0.7] selected by VERIF_SEED (thorough planes 1..2); the functions are contractions / "
    "strictly monotone / strictly convex on these boxes",
    "the reference of a representation holding the derived tensor a*a is the pure function whose explicit parameter "
    "is that derived tensor (same parametrisation): solve_ivp's continuous-adjoint second-order gradient differs by "
    "the O(h^4) discretisation error (1.4e-5 observed) between two *pure* functions that square a inside / outside, "
    "so comparing across parametrisations would not be a statement about parameter passing",
    "tolerance 1e-10 relative to max(1, |reference|): both runs perform the same floating point operations; observed "
    "differences on conforming kinds are <= 5e-16",
    "the global RNG is seeded identically before every library call and every autograd call of both runs "
    "(solve's positive-definiteness probe, the mh sampler)",
    "second order through the adaptive Runge-Kutta methods is not enumerated (create_graph through rk23/rk45 is "
    "C08's subject); whenever the reference raises, the case is not judged",
    "nn_extra = a module with one more registered Parameter that the function does not use (it must get a zero / "
    "None gradient and must not make the call fail); mcquad uses the deterministic sampler '_dummy1d' (quick) "
    "and seeded 'mh' (thorough)",
]
BUDGET_S = {"quick": 600, "thorough": 3000}
TOL = 1e-10

# pure_dep / em_dep: one supplied tensor is a function of another supplied tensor (reference: pure_depref)
DEP_KINDS = ["pure_dep", "em_dep"]
# pure_twice / em_twice: the same tensor object supplied at two positions (twice explicitly; held by the object
# and passed explicitly); multi3: a sibling of three methods of three objects
MORE_KINDS = ["pure_twice", "em_twice", "multi3", "em_dict_rev", "em_pexp", "both", "both_rev"]
# the same objects after one earlier call and a re-binding of their tensors by the owner
REBIND_KINDS = {"em_rebind": "em_leaves", "nn_rebind": "nn_flat", "emcall_rebind": "em_call"}
KINDS = [k for k in F.ALL_KINDS if k != "pure"] + DEP_KINDS + MORE_KINDS + list(REBIND_KINDS)
FUNCS = F.FUNCTIONALS + ["jac_solve"]


def cases(tier, seed):
    out = []
    planes = [0] if tier == "quick" else [0, 1, 2]
    for plane in planes:
        for fname in FUNCS:
            methods = F.METHODS[fname]
            if tier == "quick":     # first method, plus its list-of-tensors state variant for solve_ivp
                methods = methods[:1] + [m for m in methods[1:] if m == methods[0] + ":list"]
            for method in methods:
                for bck in F.BCK.get(fname, ["-"]):
                    for extra in (0, 1):
                        for rg in F.rg_subsets():
                            for order in (0, 1, 2):
                                if order > 0 and rg == "":
                                    continue
                                if order == 2 and method.split(":")[0] in F.ADAPTIVE:
                                    continue
                                # kind innermost: consecutive cases share the pure-function reference (cached per worker)
                                for kind in KINDS:
                                    out.append({"functional": fname, "method": method, "bck": bck, "kind": kind,
                                                "extra": extra, "rg": rg, "order": order, "plane": plane,
                                                "seed": int(seed) if plane else 0})
    return out


def _execute(kind, cfg):
    """run functional + gradients on one representation; returns dict stage -> Outcome / tensors"""
    probe = F.Probe()
    vals = F.leaf_values(cfg["plane"], cfg["seed"])
    rebind = kind in REBIND_KINDS
    rep = F.build(REBIND_KINDS[kind] if rebind else kind, cfg["functional"], cfg["extra"], cfg["rg"], probe, vals)
    if rebind:
        # object history: the functional has been called once on this object (result dropped, no backward pass),
        # then its owner binds NEW leaf tensors of the same values to the declared names; the judged call and its
        # gradients are those of the tensors the object holds now
        torch.manual_seed(20239)
        call(F.run_functional, cfg["functional"], rep, cfg["method"], cfg["bck"])
        for (holder, name, _i) in rep.slots:
            old = getattr(holder, name)
            new = old.detach().clone()
            new = torch.nn.Parameter(new, requires_grad=old.requires_grad) if isinstance(old, torch.nn.Parameter) \
                else new.requires_grad_(old.requires_grad)
            setattr(holder, name, new)
            for k, t in list(rep.leaves.items()):
                if t is old:
                    rep.leaves[k] = new
    leaves = [rep.leaves[k] for k in cfg["rg"]]
    res = {"rep": rep, "out": None, "g1": None, "g2": None, "exc": None, "stage": None}
    torch.manual_seed(20240)
    o = call(F.run_functional, cfg["functional"], rep, cfg["method"], cfg["bck"])
    if o.exc is not None:
        res["exc"], res["stage"] = o, "forward"
        return res
    outs = o.value
    res["out"] = [t.detach().clone() for t in outs]
    order = cfg["order"]
    if order >= 1:
        loss = F.loss_of(outs)
        if not loss.requires_grad:
            res["exc"], res["stage"] = None, "output-not-differentiable"
            return res
        torch.manual_seed(20241)
        o = call(torch.autograd.grad, loss, leaves, create_graph=(order == 2), allow_unused=True)
        if o.exc is not None:
            res["exc"], res["stage"] = o, "backward"
            return res
        g1 = o.value
        res["g1"] = [None if g is None else g.detach().clone() for g in g1]
        if order == 2:
            l2 = F.loss2_of(g1)
            if l2 is None:
                res["g2"] = [None for _ in leaves]
            else:
                torch.manual_seed(20242)
                o = call(torch.autograd.grad, l2, leaves, allow_unused=True)
                if o.exc is not None:
                    res["exc"], res["stage"] = o, "double_backward"
                    return res
                res["g2"] = [None if g is None else g.detach().clone() for g in o.value]
    return res


_REF_CACHE = {}


def _reference(refkind, cfg):
    """the pure-function run depends on cfg only through these keys; keep the last few per worker"""
    key = (refkind,) + tuple(cfg[k] for k in ("functional", "method", "bck", "extra", "rg", "order", "plane", "seed"))
    if key not in _REF_CACHE:
        if len(_REF_CACHE) > 8:
            _REF_CACHE.clear()
        _REF_CACHE[key] = _execute(refkind, cfg)
    return _REF_CACHE[key]


def _sig(o):
    import re
    return re.sub(r"\d+", "#", o.exc_sig)[:90]


def _finite(lst):
    return all(t is None or bool(torch.isfinite(t).all()) for t in (lst or []))


def _cmp(test, ref, like):
    """max relative error between two lists (None = zero gradient)"""
    worst = 0.0
    per = []
    for x, y, l in zip(test, ref, like):
        if x is None and y is None:
            per.append(0.0)
            continue
        x = torch.zeros_like(l) if x is None else x
        y = torch.zeros_like(l) if y is None else y
        e = relerr(x, y)
        per.append(e)
        worst = max(worst, e)
    return worst, per


def run_case(cfg):
    import xitorch
    xitorch.set_debug_mode(False)
    base = cfg["kind"][4:] if cfg["kind"].startswith("sib:") else cfg["kind"]
    refkind = "pure_derived" if base in ("em_derived", "both", "both_rev") else ("pure_depref" if base in DEP_KINDS else "pure")
    ref = _reference(refkind, cfg)
    if ref["exc"] is not None or ref["stage"] is not None or not (_finite(ref["out"]) and _finite(ref["g1"])
                                                                    and _finite(ref["g2"])):
        sig = _sig(ref["exc"]) if ref["exc"] is not None else (ref["stage"] or "nonfinite")
        return {"viol": [], "obs": {"reference": sig, "stage": ref["stage"]}, "trivial": True,
                "status": "reference-raises", "n": 1}
    test = _execute(cfg["kind"], cfg)
    viol = []
    obs = {"out": [rnd(t) for t in ref["out"]]}
    if test["exc"] is not None:
        sig = _sig(test["exc"])
        viol.append(V("exception:" + sig, {"stage": test["stage"], "message": str(test["exc"].exc)[:300],
                                                 "reference": "completed"}, stage=test["stage"]))
        obs["exc"] = sig
        return {"viol": viol, "obs": obs, "status": "violation", "n": 2}
    if test["stage"] is not None:
        viol.append(V("output-not-differentiable", {"reference": "differentiable"}, stage="backward"))
        return {"viol": viol, "obs": obs, "status": "violation", "n": 2}
    # values
    if len(test["out"]) != len(ref["out"]):
        viol.append(V("value-mismatch", {"n_outputs": [len(test["out"]), len(ref["out"])]}))
    else:
        e, per = _cmp(test["out"], ref["out"], ref["out"])
        obs["e0"] = rnd(e, 2)
        if e > TOL:
            viol.append(V("value-mismatch", {"relerr": e, "tol": TOL, "test": [rnd(t) for t in test["out"]],
                                             "ref": [rnd(t) for t in ref["out"]]}))
    tleaves = [test["rep"].leaves[k] for k in cfg["rg"]]
    tol_g = TOL
    if cfg["method"].split(":")[0] in F.ADAPTIVE and base in DEP_KINDS + ["pure_twice", "em_twice"]:
        # these kinds hand the SAME mathematical function to the adaptive integrator with another list of tensors;
        # the augmented adjoint state (and with it the step-size control) differs, so the gradients agree to the
        # integrator's tolerance (rtol 1e-8), not to rounding
        tol_g = 1e-6
    for key, name in (("g1", "grad1"), ("g2", "grad2")):
        if ref[key] is None:
            continue
        e, per = _cmp(test[key], ref[key], tleaves)
        obs["e" + key[1]] = rnd(e, 2)
        obs[key] = [None if g is None else rnd(g, 5) for g in ref[key]]
        for leaf, pe, tg, rgd in zip(cfg["rg"], per, test[key], ref[key]):
            if pe > tol_g:
                viol.append(V("%s-mismatch:%s" % (name, leaf),
                              {"relerr": pe, "tol": TOL, "test": None if tg is None else rnd(tg),
                               "ref": None if rgd is None else rnd(rgd)}, leaf=leaf))
    return {"viol": viol, "obs": obs, "status": "violation" if viol else "ok", "n": 2}


def coverage_extra(tier, seed, results):
    dims = {}
    for r in results:
        for k in ("functional", "method", "bck", "kind", "rg", "extra", "order", "plane"):
            dims.setdefault(k, set()).add(r["cfg"][k])
    worst = 0.0
    for r in results:
        o = r.get("obs") or {}
        if r["status"] == "ok":
            for k in ("e0", "e1", "e2"):
                if isinstance(o.get(k), float):
                    worst = max(worst, o[k])
    return {"dimensions": {k: sorted(v, key=str) for k, v in dims.items()},
            "max_relerr_on_conforming_cases": worst, "tolerance": TOL}
