"""C18 — custom methods and method-name dispatch.

Part "method": every functional x {each built-in name, a closed-form callable, a callable wrapping each built-in}
x two option dictionaries x order {0, 1, 2}.  A spy records what a callable receives; values and gradients of
every run are compared pairwise with the runs of the other ways to produce the same forward solution.
Part "names" / "unknown": the name lattice (case variants must give the bit-identical result of the lower-case
spelling, unknown names must raise)."""
from __future__ import annotations
import torch
from mc.util import V, call, rnd, gen
from mc.props import _scen_common as S

ID = "C18"
LEVEL = "exploration"
DESIGN_REF = "DESIGN.md §5 C18"
RULE = ("part=method: case = (functional in 10 functionals, method in {every registered built-in name; closed-form "
        "callable evaluated under no_grad with detached result; callable wrapping each built-in}, option dictionary "
        "in {method options; method options + a harness-only keyword} (callables only), order in {0,1,2}, kind of "
        "function/operator, value plane); for solve additionally E in {none, E} for callables; closed-form callables "
        "of solve_ivp/quad are paired with every built-in as explicit backward method. part=names: every registered "
        "name x {lower, UPPER, Title, sWAPPED}; part=unknown: '', 'nope', name+'x', name[:-1], 3. A case is distinct "
        "by its observation (spy log, forward distances, gradient differences); no case is trivial")
RULE_ADDED = 'Added later: list-state solve_ivp, option value None, call-order plane in fresh interpreters (callable and built-in methods of quad / solve_ivp / rootfinder in sequence). Round 4: solve scenarios tinyB (right-hand side 1e-9) and EM (E and M, ncols = nrows). Round 6: unknown names with an exactly zero right-hand side (solve).'
ASSUMPTIONS = [
    "one small well-conditioned instance per functional (n<=4, float64), value plane 0 fixed, thorough adds one plane from VERIF_SEED",
    "two ways of producing the forward solution are compared only when K*(distance of forward values + requested "
    "backward resolution) <= 1e-3 with K = 50*kappa^order-dependent power; other pairs are counted as not-comparable",
    "mcquad: only runs that produce the identical sample set are compared (the solution of the method is the sample set)",
    "closed-form callables of solve_ivp and quad get an explicit built-in backward method (documented default re-uses the forward method)",
    "an exception that a built-in method raises too with the same configuration belongs to another property (status skipped-other-property)",
    "for equilibrium/minimize the function handed to a callable may be in any of the forms the built-in methods receive",
]
BUDGET_S = {"quick": 400, "thorough": 2400}
SELFTEST_N = 3

EXTRA_KEY = "xv_harness_token"
EXTRA_VAL = ("xv", 18)            # compared by identity
JUDGE_MAX = 1e-3


# ------------------------------------------------------------------------------------------------ enumeration

def _title(low):
    out, up = "", True
    for ch in low:
        if ch.isalpha() and up:
            out += ch.upper()
            up = False
        else:
            out += ch
        if ch == "_":
            up = True
    return out


def name_variants(name):
    low = name.lower()
    i = 0
    while i < len(low) and not low[i].isalpha():
        i += 1
    swapped = low[:i + 1] + low[i + 1:].upper()
    return [("lower", low), ("upper", low.upper()), ("title", _title(low)), ("swapped", swapped)]


def unknown_names(functional):
    reg = set(S.BUILTINS[functional])
    out = [("empty", ""), ("nope", "nope"), ("int", 3)]
    for n in S.BUILTINS[functional]:
        for tag, u in (("plus-x", n + "x"), ("minus-last", n[:-1])):
            if u.lower() in reg or u == "":
                continue
            out.append(("%s:%s" % (tag, n), u))
    return out


def cases(tier, seed):
    out = []
    planes = [0] if tier == "quick" else [0, 1 + int(seed)]
    for fn in S.FUNCTIONALS:
        kinds = [None]
        if tier == "thorough":
            kinds = list(S.make(fn).kinds)
        elif fn == "solve_ivp":
            kinds = [None, "pure_list"]     # the list-of-tensors state takes its own branch of the front end
        methods = list(S.BUILTINS[fn]) + ["closed"] + ["wrap:" + b for b in S.BUILTINS[fn]]
        for ik, kind in enumerate(kinds):
            k = kind or S.make(fn).kinds[0]
            for plane in planes:
                if ik > 0 and plane != 0:
                    continue
                for m in methods:
                    iscall = m == "closed" or m.startswith("wrap:")
                    for opts in ([0, 1, 2] if iscall else [0]):     # 2: a harness-only keyword whose value is None
                        for order in (0, 1, 2):
                            if m == "closed" and fn in ("Interp1D", "SQuad") and order > 0:
                                continue      # a detached interpolant has no derivative: documented exclusion
                            evs = ["none"]
                            if fn == "solve" and iscall and ik == 0:
                                # tinyB: right-hand side of size 1e-9 (not zero); EM: E and M, 3 columns
                                evs = ["none", "E", "tinyB", "EM"]
                            for ev in evs:
                                c = {"part": "method", "functional": fn, "method": m, "opts": opts, "order": order,
                                     "kind": k, "vseed": plane}
                                if fn == "solve":
                                    c["E"] = ev
                                out.append(c)
    for fn in S.FUNCTIONALS:
        for n in S.BUILTINS[fn]:
            for tag, spelled in name_variants(n):
                out.append({"part": "names", "functional": fn, "name": n, "variant": tag, "spelled": spelled})
    for fn in S.FUNCTIONALS:
        for tag, u in unknown_names(fn):
            out.append({"part": "unknown", "functional": fn, "variant": tag, "spelled": u})
            if fn == "solve":
                # an exactly zero right-hand side (answered by a shortcut): the name is still checked
                out.append({"part": "unknown", "functional": fn, "variant": tag, "spelled": u, "E": "zeroB"})
    return out


# ------------------------------------------------------------------------------------------------ spy

class Spy:
    def __init__(self, inner):
        self.inner = inner
        self.calls = []
        self.rets = []

    def __call__(self, *args, **kwargs):
        self.calls.append({"args": args, "kwargs": dict(kwargs), "grad": torch.is_grad_enabled()})
        kw = {k: v for k, v in kwargs.items() if k != EXTRA_KEY}
        ret = self.inner(*args, **kw)
        self.rets.append(ret)
        return ret


# ------------------------------------------------------------------------------------------------ one execution

def _scen(cfg):
    kw = {}
    if cfg["functional"] == "solve":
        kw["withE"] = cfg.get("E", "none") == "E"
        if cfg.get("E") == "tinyB":
            kw["bscale"] = 1e-9
        if cfg.get("E") == "zeroB":
            kw["bscale"] = 0.0
        if cfg.get("E") == "EM":
            kw["withM"] = True
    return S.make(cfg["functional"], cfg.get("kind"), cfg.get("vseed", 0), **kw)


def _flat(gs, leaves):
    return torch.cat([(g.detach() if g is not None else torch.zeros_like(l)).reshape(-1) for g, l in zip(gs, leaves)])


def execute(cfg, method_tag, caller_fwd, bck, order, spy=False):
    """fresh scenario, one forward (+ gradients up to `order`).  Returns dict(out, exc, warned, value, g1, g2, spy,
    ncalls_fwd, sc)"""
    fn = cfg["functional"]
    sc = _scen(cfg)
    if order == 0:
        for l in sc.leaves:
            l.requires_grad_(False)
    if method_tag == "closed":
        meth = sc.closed()
    elif method_tag.startswith("wrap:"):
        meth = sc.wrap(method_tag[5:])
    else:
        meth = method_tag
    sp = None
    if spy and callable(meth):
        sp = Spy(meth)
        meth = sp
    fwd = dict(caller_fwd)
    if fn == "mcquad":
        fwd = sc.fix(method_tag.split(":")[-1], fwd)
    res = {"sc": sc, "spy": sp, "fwd": fwd, "exc": None, "phase": None, "warned": False}

    o = call(sc.call, meth, dict(fwd), dict(bck))
    res["warned"] = o.warned
    if o.exc is not None:
        res["exc"], res["phase"] = o.exc_sig, "forward"
        res["ncalls_fwd"] = len(sp.calls) if sp else None
        return res
    outs = o.value
    res["outs"] = outs
    res["ncalls_fwd"] = len(sp.calls) if sp else None
    res["value"] = sc.canon(outs)
    if order == 0:
        return res
    if not any(t.requires_grad for t in outs):
        res["nograph"] = True
        return res

    def first():
        L = sc.loss(outs)
        return torch.autograd.grad(L, sc.leaves, create_graph=(order == 2), allow_unused=True)
    o1 = call(first)
    res["warned"] = res["warned"] or o1.warned
    if o1.exc is not None:
        res["exc"], res["phase"] = o1.exc_sig, "backward"
        return res
    g1 = o1.value
    res["g1"] = _flat(g1, sc.leaves)
    if order == 1:
        return res
    gg = gen(4242)
    s = None
    for g in g1:
        if g is not None and g.requires_grad:
            t = (g * torch.randn(g.shape, dtype=g.dtype, generator=gg)).sum()
            s = t if s is None else s + t
        elif g is not None:
            torch.randn(g.shape, dtype=g.dtype, generator=gg)
    if s is None:
        res["g2"] = torch.zeros_like(res["g1"])
        res["g2_nograph"] = True
        return res
    o2 = call(torch.autograd.grad, s, sc.leaves, allow_unused=True)
    res["warned"] = res["warned"] or o2.warned
    if o2.exc is not None:
        res["exc"], res["phase"] = o2.exc_sig, "backward2"
        return res
    res["g2"] = _flat(o2.value, sc.leaves)
    return res


def _exc_class(sig):
    return sig.split(":")[0] if sig else None


def _tol(sc, dist, res_bck, order):
    K = 50.0 * sc.kappa ** (order + 1)
    return K * (dist + 1e-13 + res_bck)


def _compare(viol, obs, tag, a, b, sc, res_bck, order, at):
    """a, b executions that both finished; compare gradients if the forward values are close enough"""
    if a.get("value") is None or b.get("value") is None or a["value"].shape != b["value"].shape:
        obs[tag] = "shape"
        viol.append(V("value-shape-mismatch", {"against": tag}, **at))
        return
    dist = float((a["value"] - b["value"]).abs().max())
    rec = {"dist": rnd(dist, 2)}
    for k, od in (("g1", 1), ("g2", 2)):
        if od > order or k not in a or k not in b:
            continue
        tol = _tol(sc, dist, res_bck, od)
        scale = max(1.0, float(b[k].abs().max()))
        if tol > JUDGE_MAX:
            rec[k] = "not-comparable"
            continue
        d = float((a[k] - b[k]).abs().max()) / scale
        rec[k] = rnd(d, 2)
        rec[k + "_margin"] = rnd(d / tol, 1)
        if not (d <= tol):
            viol.append(V("grad-mismatch:order%d" % od,
                          {"against": tag, "maxdiff_rel": d, "tol": tol, "forward_distance": dist,
                           "got": rnd(a[k], 6), "ref": rnd(b[k], 6)}, against=tag, **at))
    obs[tag] = rec


def spy_oracle(cfg, r, sc, viol, o, pat):
    """what the callable saw; judged on its first call, also when the run later raised"""
    fn = cfg["functional"]
    sp = r["spy"]
    o["ncalls_fwd"] = r.get("ncalls_fwd")
    o["ncalls_total"] = len(sp.calls)
    o["grad_seen"] = [c["grad"] for c in sp.calls][:4]
    if r["exc"] is None and r["ncalls_fwd"] != 1:
        viol.append(V("custom-method-call-count", {"calls_in_forward": r["ncalls_fwd"]}, **pat))
    if not sp.calls:
        return
    c0 = sp.calls[0]
    if fn in S.AUTOGRAD_FN and c0["grad"]:
        viol.append(V("custom-method-grad-enabled", {"is_grad_enabled": True}, **pat))
    probs = sc.check_args(c0["args"])
    o["nargs"] = len(c0["args"])
    if probs:
        viol.append(V("custom-method-args:%s" % probs[0], {"problems": probs}, **pat))
    want = r["fwd"]
    got = c0["kwargs"]
    missing = sorted(k for k in want if k not in got)
    extra = sorted(k for k in got if k not in want)
    changed = sorted(k for k in want if k in got and not (got[k] is want[k] or got[k] == want[k]))
    o["kw"] = sorted(got.keys())
    if missing or extra or changed:
        viol.append(V("custom-method-options-not-verbatim",
                      {"missing": missing, "unexpected": extra, "changed": changed}, **pat))
    if cfg["opts"] == 1 and got.get(EXTRA_KEY) is not EXTRA_VAL and not missing:
        viol.append(V("custom-method-options-not-verbatim", {"harness_key": "not the caller's object"}, **pat))
    if r["exc"] is None and sp.rets and not sc.returned_matches(sp.rets[0], r["outs"]):
        viol.append(V("custom-method-result-not-returned", {"value": rnd(r["value"])}, **pat))


def run_method(cfg):
    fn, m, order = cfg["functional"], cfg["method"], cfg["order"]
    iscall = m == "closed" or m.startswith("wrap:")
    base = m[5:] if m.startswith("wrap:") else (None if m == "closed" else m)
    builtins = S.BUILTINS[fn]
    viol, obs = [], {}
    n_exec = 0
    at = {}

    # the caller's option dictionary
    if base is not None:
        caller = S.opts_of(fn, base)
    else:
        caller = {"maxiter": 7}
    if cfg["opts"] == 1:
        caller[EXTRA_KEY] = EXTRA_VAL
    elif cfg["opts"] == 2:
        caller[EXTRA_KEY] = None        # an option explicitly set to None is still the caller's option

    def bck_for(b):
        """explicit backward method b (+ its options) for functionals that would re-use the forward method"""
        d = {"method": b}
        d.update(S.opts_of(fn, b))
        return d

    # ---- primary runs (one per pairing)
    if m == "closed" and fn in S.BCK_INHERITS:
        pairings = [(b, bck_for(b)) for b in builtins]
    else:
        pairings = [(None, {})]

    partners_cache = {}

    def partner(tag, bckm=None):
        """execution of a built-in by name (own options, inherited backward) or of the closed form"""
        key = (tag, bckm)
        if key not in partners_cache:
            if tag == "closed":
                bck = bck_for(bckm) if fn in S.BCK_INHERITS else {}
                partners_cache[key] = execute(cfg, "closed", {"maxiter": 7}, bck, order)
            else:
                partners_cache[key] = execute(cfg, tag, S.opts_of(fn, tag), {}, order)
        return partners_cache[key]

    status = "ok"
    for (pb, bck) in pairings:
        r = execute(cfg, m, caller, bck, order, spy=iscall)
        n_exec += 1
        sc = r["sc"]
        ptag = "bck=%s" % pb if pb else "run"
        pat = dict(at)
        if pb:
            pat["bck_method"] = pb
        o = {}
        obs[ptag] = o
        if iscall and r["spy"] is not None:
            spy_oracle(cfg, r, sc, viol, o, pat)
        if r["exc"] is not None:
            o["exc"] = r["exc"]
            o["phase"] = r["phase"]
            if not iscall:
                status = "skipped-other-property"
                continue
            # does the built-in counterpart fail the same way?
            cp = pb or base
            if cp is None:
                cps = builtins
            else:
                cps = [cp]
            same = False
            for c in cps:
                pr = partner(c)
                n_exec += 1
                if pr["exc"] is not None and _exc_class(pr["exc"]) == _exc_class(r["exc"]) and pr["phase"] == r["phase"]:
                    same = True
            if same:
                status = "skipped-other-property"
            else:
                viol.append(V("exception-only-with-callable:%s" % r["exc"][:60],
                              {"exc": r["exc"], "phase": r["phase"]}, phase=r["phase"], **pat))
            continue
        o["warned"] = r["warned"]
        if r.get("nograph") and order > 0:
            if fn in S.AUTOGRAD_FN or m != "closed":
                viol.append(V("result-has-no-graph", {"order": order}, **pat))
            continue
        o["value"] = rnd(r["value"], 8)[:6]
        if order == 0:
            # order 0 still compares the forward value of a wrapper with the built-in it wraps
            if base is not None and iscall:
                pr = partner(base)
                n_exec += 1
                if pr["exc"] is None:
                    d = float((pr["value"] - r["value"]).abs().max())
                    o["dist:" + base] = rnd(d, 2)
                    if d > 1e-9:
                        viol.append(V("wrapped-builtin-value-differs", {"dist": d}, against=base, **pat))
            continue

        # ---- gradient oracle: pairwise with the other ways of producing the forward solution
        if fn == "mcquad":
            # the solution a sampler produces is the sample set: only runs with the identical set are comparable
            plist = [base] if (iscall and base is not None) else []
        elif fn in S.BCK_INHERITS:
            # the backward integrator is part of the configuration: compare runs that share it
            if m == "closed":
                plist = [pb]
            elif iscall:
                plist = [base, "closed"]
            else:
                plist = ["closed"]
        elif m == "closed":
            plist = list(builtins)
        elif iscall:
            plist = [base, "closed"] + [b for b in builtins if b != base]
        else:
            plist = ["closed"]
        if fn in ("Interp1D", "SQuad"):
            plist = [p for p in plist if p != "closed"]      # a detached interpolant has no derivative
        for p in plist:
            if p == "closed":
                bm = base if fn in S.BCK_INHERITS else None
                pr = partner("closed", bm)
            else:
                pr = partner(p)
            n_exec += 1
            if pr["exc"] is not None:
                o["vs:" + p] = "partner-raised:" + _exc_class(pr["exc"])
                continue
            if pr.get("nograph"):
                viol.append(V("result-has-no-graph", {"order": order, "method": p}, against=p, **pat))
                continue
            if r["warned"] or pr["warned"]:
                o["vs:" + p] = "warned"
                # unconverged iterations are still comparable through the distance-derived tolerance
            bckm = pb or (base if fn in S.BCK_INHERITS else None) or (p if fn in S.BCK_INHERITS and p != "closed" else None)
            res_bck = S.BCK_RES.get(bckm, 0.0) if fn in S.BCK_INHERITS else 0.0
            _compare(viol, o, "vs:" + p, r, pr, sc, res_bck, order, pat)
    if viol:
        status = "violation"
    return {"viol": viol, "obs": obs, "status": status, "n": n_exec}


# ------------------------------------------------------------------------------------------------ name lattice

def _name_exec(cfg, spelled):
    fn = cfg["functional"]
    base = cfg.get("name")
    c = {"functional": fn, "kind": None, "vseed": 0}
    if cfg.get("E"):
        c["E"] = cfg["E"]
    sc = _scen(c)
    fwd = S.opts_of(fn, base) if base else {}
    if fn == "mcquad" and base:
        fwd = sc.fix(base, fwd)
    o = call(sc.call, spelled, fwd, {})
    if o.exc is not None:
        return {"exc": o.exc_sig}
    outs = o.value
    r = {"exc": None, "outs": [t.detach().clone() for t in outs]}
    if any(t.requires_grad for t in outs):
        o1 = call(lambda: torch.autograd.grad(sc.loss(outs), sc.leaves, allow_unused=True))
        if o1.exc is not None:
            r["gexc"] = o1.exc_sig
        else:
            r["g1"] = _flat(o1.value, sc.leaves)
    return r


def run_names(cfg):
    low = _name_exec(cfg, cfg["name"])
    var = _name_exec(cfg, cfg["spelled"])
    at = {"name": cfg["name"]}
    obs = {"lower_exc": low["exc"], "variant_exc": var["exc"]}
    viol = []
    status = "ok"
    if low["exc"] is not None and var["exc"] is not None:
        same = low["exc"] == var["exc"]
        obs["both_raise_same"] = same
        if not same and "nknown" in var["exc"]:
            viol.append(V("case-variant-rejected:%s" % _exc_class(var["exc"]), {"lower": low["exc"], "variant": var["exc"]}, **at))
        status = "skipped-other-property"
    elif var["exc"] is not None:
        viol.append(V("case-variant-rejected:%s" % _exc_class(var["exc"]),
                      {"spelled": cfg["spelled"], "exc": var["exc"]}, **at))
    elif low["exc"] is not None:
        viol.append(V("case-variant-result-differs", {"lower_raises": low["exc"]}, **at))
    else:
        same = len(low["outs"]) == len(var["outs"]) and all(
            a.shape == b.shape and torch.equal(a, b) for a, b in zip(low["outs"], var["outs"]))
        gsame = True
        if ("g1" in low) != ("g1" in var):
            gsame = False
        elif "g1" in low:
            gsame = torch.equal(low["g1"], var["g1"])
        obs["value"] = rnd(torch.cat([t.reshape(-1) for t in low["outs"]]), 8)[:4]
        obs["bit_identical"] = bool(same and gsame)
        if not (same and gsame):
            d = max(float((a - b).abs().max()) for a, b in zip(low["outs"], var["outs"])) if len(low["outs"]) == len(var["outs"]) else None
            viol.append(V("case-variant-result-differs", {"spelled": cfg["spelled"], "max_abs_diff": d,
                                                          "gradient_identical": bool(gsame)}, **at))
    if viol:
        status = "violation"
    return {"viol": viol, "obs": obs, "status": status, "n": 2}


def run_unknown(cfg):
    r = _name_exec(cfg, cfg["spelled"])
    obs = {"exc": r["exc"]}
    if r["exc"] is None:
        return {"viol": [V("unknown-name-accepted", {"spelled": repr(cfg["spelled"]),
                                                   "returned": rnd(torch.cat([t.reshape(-1) for t in r["outs"]]), 6)[:4]})],
                "obs": obs, "status": "violation"}
    return {"viol": [], "obs": obs, "status": "rejected"}


def run_case(cfg):
    if cfg["part"] == "method":
        return run_method(cfg)
    if cfg["part"] == "names":
        return run_names(cfg)
    return run_unknown(cfg)


def coverage_extra(tier, seed, results):
    parts = {}
    notcmp = 0
    cmp_ = 0
    worst = 0.0
    for r in results:
        p = r["cfg"].get("part")
        parts[p] = parts.get(p, 0) + 1
        o = r.get("obs")
        if isinstance(o, dict):
            for run in o.values():
                if isinstance(run, dict):
                    for k, v in run.items():
                        if k.startswith("vs:") and isinstance(v, dict):
                            for kk in ("g1", "g2"):
                                if v.get(kk) == "not-comparable":
                                    notcmp += 1
                                elif kk in v:
                                    cmp_ += 1
                                    worst = max(worst, float(v.get(kk + "_margin", 0.0)))
    return {"cases_by_part": parts, "gradient_pairs_compared": cmp_, "gradient_pairs_not_comparable": notcmp,
            "worst_margin_observed_over_tolerance": worst,
            "functionals": S.FUNCTIONALS, "registered_names": S.BUILTINS}


# ---- call-order plane (executed by mc/core.py in fresh interpreters, see mc/props/_hist_common.py): what a method
# callable (or a built-in name) was given in ONE call must not leak into a later call of the same functional -
# options, the method itself and the backward options are per call
_HIST_LABELS = ["quad/callable-midpoint4/value-only", "quad/leggauss5/backward", "quad/callable-midpoint4/backward",
                "quad/leggauss9+bck-n3/backward", "solve_ivp/callable-euler/backward", "solve_ivp/rk4/backward",
                "rootfinder/callable-newton/backward", "rootfinder/broyden1/backward"]
HISTORY = {"labels": _HIST_LABELS, "tol": [1e-12, 1e-12, 1e-12, 1e-12, 1e-11, 1e-11, 1e-8, 1e-8],
           "depth": {"quick": 2, "thorough": 3},
           "prelude": r'''import torch, xitorch
from xitorch.integrate import quad, solve_ivp
from xitorch.optimize import rootfinder
DT = torch.float64
def midpoint(fcn, xl, xu, params, n=4, **unused):
    h = (xu - xl) / n
    res = None
    for i in range(n):
        v = fcn(xl + (i + 0.5) * h, *params) * h
        res = v if res is None else res + v
    return res
def euler2(fcn, ts, y0, params, **unused):
    # two explicit Euler half steps per interval
    ys = [y0]
    y = y0
    for i in range(len(ts) - 1):
        h = (ts[i + 1] - ts[i]) / 2
        y = y + h * fcn(ts[i], y, *params)
        y = y + h * fcn(ts[i] + h, y, *params)
        ys.append(y)
    return torch.stack(ys)
def newton_fd(fcn, y0, params, **unused):
    y = y0
    for _ in range(30):
        yy = y.detach().requires_grad_()
        with torch.enable_grad():
            f = fcn(yy, *params)
            J = torch.stack([torch.autograd.grad(f[k], yy, retain_graph=True)[0] for k in range(f.numel())])
        y = (yy - torch.linalg.solve(J, f)).detach()
    return y
def integrand(x, a):
    return torch.exp(-a * x * x) * (1.0 + x)
def rhs(t, y, a):
    return -a * y + torch.sin(3.0 * t)
def resid(y, a):
    return y + 0.5 * torch.tanh(a * y) - torch.tensor([0.3, -0.2], dtype=DT)
def do(i):
    a = torch.tensor(0.8, dtype=DT, requires_grad=True)
    if i < 4:
        xu = torch.tensor(1.25, dtype=DT, requires_grad=True)
        if i == 0:
            with torch.no_grad():
                y = quad(integrand, -0.5, xu, params=(a,), method=midpoint, n=4)
            return [float(y)]
        if i == 1:
            y = quad(integrand, -0.5, xu, params=(a,), method="leggauss", n=5)
        elif i == 2:
            y = quad(integrand, -0.5, xu, params=(a,), method=midpoint, n=4)
        else:
            y = quad(integrand, -0.5, xu, params=(a,), method="leggauss", n=9, bck_options={"n": 3})
        ga, gu = torch.autograd.grad(y, (a, xu), create_graph=True)
        gaa, = torch.autograd.grad(ga, a)
        return [float(y), float(ga), float(gu), float(gaa)]
    if i < 6:
        ts = torch.linspace(0.0, 1.0, 5, dtype=DT)
        y0 = torch.tensor([1.0, -0.5], dtype=DT, requires_grad=True)
        yt = solve_ivp(rhs, ts, y0, params=(a,), method=(euler2 if i == 4 else "rk4"))
        L = (yt * torch.cos(torch.arange(10, dtype=DT).reshape(5, 2))).sum()
        ga, gy = torch.autograd.grad(L, (a, y0))
        return [float(v) for v in yt.detach().reshape(-1)] + [float(ga)] + [float(v) for v in gy]
    y0 = torch.zeros(2, dtype=DT)
    if i == 6:
        y = rootfinder(resid, y0, params=(a,), method=newton_fd)
    else:
        y = rootfinder(resid, y0, params=(a,), method="broyden1", f_tol=1e-12, x_tol=1e-12, maxiter=100)
    ga, = torch.autograd.grad((y * torch.tensor([1.0, 2.0], dtype=DT)).sum(), a)
    return [float(v) for v in y.detach()] + [float(ga)]
'''}
