"""C20 — Packer round trip.  Explicit-state search over call histories on real Packer objects,
for every structure up to a node bound and every alias partition of its tensor slots."""
from __future__ import annotations
import itertools
import torch

ID = "C20"
LEVEL = "model_checking"
DESIGN_REF = "DESIGN.md §5 C20"
RULE = ("case = (structure tree with <= N nodes over containers list/dict (plain, OrderedDict, user subclass, defaultdict)/object and leaves tensor-slot/None/"
        "mutable-set/tuple-holding-a-tensor, alias partition of its tensor slots); inside a case every call history "
        "over 16 events (4 getters, 12 constructor calls incl. wrong length/shape/numel) is replayed from a fresh "
        "Packer: all sequences to depth D undeduplicated plus breadth-first search deduplicated on the reference "
        "cache-flag state; distinct = distinct (structure, partition, per-event outcome table) hashes; a case is "
        "trivial when the structure holds no tensor slot")
RULE_ADDED = 'Added later: dictionary variants (OrderedDict, user subclass with attributes, defaultdict) and a mixed-dtype variant (float32 / float64 / complex128 by alias class, values not representable in the narrower dtype). Round 6: shared-storage variant (distinct tensor objects sharing storage, dtype, shape and strides). Round 7: scripted reshape histories (one Packer used before and after the shape of a packed tensor is changed in place by t_(), unsqueeze_() or .data assignment: 4 structures x unique x interface x alias); shared container (a list / dict / object holding a tensor referenced from two places of a list / dict / object, followed by 1 or 2 further tensors).'
ASSUMPTIONS = [
    "tensor shapes are drawn from {(), (2,), (2,2)} by alias class index; values are small distinct integers",
    "a constructor called before its getter may raise (documented precondition) or return a correct structure",
    "canonical state for deduplication = which getters have been called (the only Packer state that changes)",
]
BUDGET_S = {"quick": 600, "thorough": 3000}

SHAPES = [(), (2,), (2, 2)]
LEAVES = ["T", "n", "S", "tt"]
CONTAINERS = ["L", "D", "O"]


class Obj:
    pass


class XDict(dict):
    """a user's dictionary subclass (instances carry an attribute __dict__ as well)"""


# which dictionary type the "D" nodes of the case in progress are built with (set by run_case; workers are
# single-threaded): plain dict, collections.OrderedDict, a user subclass of dict, collections.defaultdict
_DVAR = ["dict"]
# dtype variant of the case in progress: "f64" (all tensors float64) or "mixed" (alias class k has dtype
# float32 / float64 / complex128 by k mod 3, with values that are NOT representable in the narrower dtypes)
_DTV = ["f64"]
# shape variant: "mixed" (shape by alias class index: (), (2,), (2,2)) or "same" (every tensor has shape (3,):
# several listed tensors of ONE shape with more than one element)
_SHV = ["mixed"]
# storage variant: "own" (every alias class has its own storage) or "shared" (the classes are DISTINCT tensor objects
# that share one storage, dtype, shape and strides - t, t.detach(), ...: identity, not memory, defines a tensor)
_STV = ["own"]


def _cls_shape(k):
    return (3,) if _SHV[0] == "same" else SHAPES[k % 3]

_MIXED = [torch.float32, torch.float64, torch.complex128]


def _cls_dtype(k):
    return torch.float64 if _DTV[0] == "f64" else _MIXED[k % 3]


def _frac(dt):
    """a fractional part that exists in dtype dt only"""
    if _DTV[0] == "f64":
        return 0.0
    return {torch.float32: 0.25, torch.float64: 0.1, torch.complex128: 0.1 + 0.3j}[dt]


def _same_values(r, e):
    """value comparison across dtypes (the flat interface returns the promoted dtype)"""
    if r.shape != e.shape:
        return False
    if r.dtype == e.dtype:
        return bool(torch.equal(r, e))
    return bool((r.to(torch.complex128) == e.to(torch.complex128)).all())


def _dict_type():
    import collections
    return {"dict": dict, "odict": collections.OrderedDict, "xdict": XDict,
            "ddict": collections.defaultdict}[_DVAR[0]]


# ------------------------------------------------------------------ structure enumeration

def _forests(n):
    """all ordered forests with exactly n nodes (n>=0)"""
    if n == 0:
        yield []
        return
    for k in range(1, n + 1):
        for first in _trees(k):
            for rest in _forests(n - k):
                yield [first] + rest


_TREE_CACHE = {}


def _trees(n):
    if n in _TREE_CACHE:
        return _TREE_CACHE[n]
    res = []
    if n == 1:
        for lf in LEAVES:
            res.append([lf])
    for c in CONTAINERS:
        for f in _forests(n - 1):
            res.append([c, f])
    _TREE_CACHE[n] = res
    return res


def count_slots(spec):
    if spec[0] == "T":
        return 1
    if spec[0] in CONTAINERS:
        return sum(count_slots(ch) for ch in spec[1])
    return 0


def partitions(n):
    """all set partitions of range(n) as restricted-growth strings"""
    if n == 0:
        yield []
        return

    def rec(prefix, mx):
        if len(prefix) == n:
            yield list(prefix)
            return
        for v in range(mx + 2):
            yield from rec(prefix + [v], max(mx, v))
    yield from rec([0], 0)


def _leaves(sp):
    if sp[0] in CONTAINERS:
        r = []
        for c in sp[1]:
            r += _leaves(c)
        return r
    return [sp[0]]


def _alias_focused(spec):
    lv = _leaves(spec)
    return lv.count("T") >= 2 and sum(1 for x in lv if x != "T") <= 1


def cases(tier, seed):
    """quick: every structure with <= 4 nodes + the alias-focused structures (>= 2 tensor slots, <= 1 other leaf)
    with 5 nodes; thorough: every structure with <= 5 nodes + the alias-focused ones with 6 nodes."""
    nfull = 4 if tier == "quick" else 5
    out = []
    for n in range(1, nfull + 2):
        for spec in _trees(n):
            if n == nfull + 1 and not _alias_focused(spec):
                continue
            ns = count_slots(spec)
            for part in partitions(ns):
                depth = 3 if n <= 3 else 2
                out.append({"spec": spec, "part": part, "nodes": n, "depth": depth})
    # mixed dtypes: every structure with <= 4 (quick) / 5 (thorough) nodes and at least two tensor slots, every
    # alias partition with at least two classes
    for n in range(2, (5 if tier == "quick" else 6)):
        for spec in _trees(n):
            ns = count_slots(spec)
            if ns < 2:
                continue
            for part in partitions(ns):
                if max(part) < 1:
                    continue
                out.append({"spec": spec, "part": part, "nodes": n, "depth": 2, "dtv": "mixed"})
                out.append({"spec": spec, "part": part, "nodes": n, "depth": 2, "shv": "same"})
                out.append({"spec": spec, "part": part, "nodes": n, "depth": 2, "shv": "same", "stv": "shared"})
    # scripted histories with an in-place change of a packed tensor's SHAPE between two uses of one Packer
    # (get, construct, reshape in place, get again, construct with the new shapes, construct with the old ones)
    for struct in ("list", "dict", "obj", "nested"):
        for u in (True, False):
            for iface in ("l", "f"):
                for op in ("transpose", "unsqueeze", "data"):
                    for alias in (False, True):
                        out.append({"search": "reshape", "struct": struct, "u": u, "iface": iface, "op": op,
                                    "alias": alias, "spec": None, "part": None, "nodes": 3, "depth": 6})
    # a CONTAINER (not a tensor) referenced from two parents, followed by another tensor in traversal order
    for parent in ("list", "dict", "obj"):
        for child in ("list", "dict", "obj"):
            for u in (True, False):
                for iface in ("l", "f"):
                    for ntail in (1, 2):
                        out.append({"search": "shared", "parent": parent, "child": child, "u": u, "iface": iface,
                                    "ntail": ntail, "spec": None, "part": None, "nodes": 4, "depth": 2})
    # dictionary variants: every structure with <= 3 (quick) / 4 (thorough) nodes that contains a dictionary
    for n in range(2, (4 if tier == "quick" else 5)):
        for spec in _trees(n):
            if "'D'" not in repr(spec):
                continue
            for part in partitions(count_slots(spec)):
                for dv in ("odict", "xdict", "ddict"):
                    out.append({"spec": spec, "part": part, "nodes": n, "depth": 2, "dvar": dv})
    return out


# ------------------------------------------------------------------ building the real object + reference

def build(spec, part):
    """returns obj, slots (tensor objects in traversal order), tuple_tensors"""
    nclass = (max(part) + 1) if part else 0
    import math
    ctens = [(torch.arange(1, 1 + math.prod(_cls_shape(k)), dtype=torch.float64).reshape(_cls_shape(k)) + 10.0 * k
              ).to(_cls_dtype(k)) + _frac(_cls_dtype(k)) for k in range(nclass)]
    if _STV[0] == "shared" and nclass > 1:
        # distinct tensor OBJECTS that share storage, dtype, shape and strides (a tensor and detached handles of it)
        ctens = [ctens[0]] + [ctens[0].detach() for _ in range(1, nclass)]
    slots = []
    tts = []
    counter = [0]

    def rec(sp):
        k = sp[0]
        if k == "T":
            t = ctens[part[counter[0]]]
            counter[0] += 1
            slots.append(t)
            return t
        if k == "i":
            return 7
        if k == "n":
            return None
        if k == "S":
            return {1, 2}
        if k == "tt":
            t = torch.tensor([5.0, 6.0], dtype=torch.float64)
            tts.append(t)
            return (t, 3)
        ch = [rec(c) for c in sp[1]]
        if k == "L":
            return ch
        if k == "D":
            d = _dict_type()()
            for i, c in enumerate(ch):
                d["k%d" % i] = c
            if _DVAR[0] == "xdict":
                d.note = "attribute of the dictionary object, not an item"
            return d
        o = Obj()
        for i, c in enumerate(ch):
            setattr(o, "a%d" % i, c)
        return o
    obj = rec(spec)
    return obj, slots, tts


def children(node, sp):
    k = sp[0]
    n = len(sp[1])
    if k == "L":
        if type(node) is not list or len(node) != n:
            return None
        return list(node)
    if k == "D":
        if type(node) is not _dict_type() or list(node.keys()) != ["k%d" % i for i in range(n)]:
            return None
        if _DVAR[0] == "xdict" and getattr(node, "note", None) != "attribute of the dictionary object, not an item":
            return None
        return list(node.values())
    if type(node) is not Obj or list(node.__dict__.keys()) != ["a%d" % i for i in range(n)]:
        return None
    return list(node.__dict__.values())


def compare(res, orig, spec, expect, by_identity):
    """res: returned structure; orig: original structure; expect: per-slot expected tensor.
    returns list of failure strings"""
    fails = []
    counter = [0]

    def rec(r, o, sp, path):
        k = sp[0]
        if k == "T":
            i = counter[0]
            counter[0] += 1
            e = expect[i]
            if not isinstance(r, torch.Tensor):
                fails.append("slot-not-tensor@%s" % path)
            elif by_identity:
                if r is not e:
                    fails.append("slot-wrong-object")
            else:
                if not _same_values(r, e):
                    fails.append("slot-wrong-value")
            return
        if k in ("i", "n"):
            if r != o or type(r) is not type(o):
                fails.append("nontensor-leaf-changed")
            return
        if k == "S":
            if r != o or type(r) is not set:
                fails.append("nontensor-leaf-changed")
            elif r is o:
                fails.append("mutable-content-shared-with-original")
            return
        if k == "tt":
            # a tuple is opaque non-tensor content: it (and the tensor inside it) may be shared or deep-copied,
            # but its value must be preserved
            if type(r) is not tuple or len(r) != 2 or r[1] != 3 or not isinstance(r[0], torch.Tensor) \
                    or not torch.equal(r[0], o[0]):
                fails.append("tuple-content-changed")
            return
        rc = children(r, sp)
        if rc is None:
            fails.append("container-shape-changed@%s" % path)
            return
        if r is o:
            fails.append("container-shared-with-original")
        oc = children(o, sp)
        for j, (a, b, c) in enumerate(zip(rc, oc, sp[1])):
            rec(a, b, c, path + "/%d" % j)
    rec(res, orig, spec, "")
    return fails


def snapshot(obj, spec):
    """identity + value snapshot of the original structure"""
    snap = []

    def rec(o, sp):
        k = sp[0]
        if k == "T":
            snap.append((o, o.clone()))
        elif k == "tt":
            snap.append((o, o[0].clone()))
        elif k in ("i", "n"):
            snap.append((o, o))
        elif k == "S":
            snap.append((o, set(o)))
        else:
            snap.append((o, None))
            for c, s in zip(children(o, sp), sp[1]):
                rec(c, s)
    rec(obj, spec)
    return snap


def same_snapshot(obj, spec, snap):
    it = iter(snap)
    ok = [True]

    def rec(o, sp):
        ref, val = next(it)
        k = sp[0]
        if o is not ref:
            ok[0] = False
            return
        if k == "T":
            if not torch.equal(o, val):
                ok[0] = False
        elif k == "tt":
            if not torch.equal(o[0], val):
                ok[0] = False
        elif k == "S":
            if o != val:
                ok[0] = False
        elif k in CONTAINERS:
            ch = children(o, sp)
            if ch is None:
                ok[0] = False
                return
            for c, s in zip(ch, sp[1]):
                rec(c, s)
    rec(obj, spec)
    return ok[0]


# ------------------------------------------------------------------ events

EVENTS = []
for u in (True, False):
    EVENTS.append(("gl", u, None))
    EVENTS.append(("gf", u, None))
for u in (True, False):
    for var in ("ok", "few", "many", "shape"):
        EVENTS.append(("cl", u, var))
    for var in ("ok", "numel"):
        EVENTS.append(("cf", u, var))


class World:
    """real Packer + reference model consuming the same events"""

    def __init__(self, spec, part):
        import xitorch
        self.spec, self.part = spec, part
        self.obj, self.slots, self.tts = build(spec, part)
        self.snap = snapshot(self.obj, spec)
        self.packer = xitorch.Packer(self.obj)
        self.ns = len(self.slots)
        self.first = []          # first index of each alias class in traversal order
        seen = {}
        for i, c in enumerate(part):
            if c not in seen:
                seen[c] = len(self.first)
                self.first.append(i)
        self.inverse = [seen[c] for c in part]
        self.flags = {("l", True): False, ("l", False): False, ("f", True): False, ("f", False): False}
        self.results = []        # (result, expect, by_identity)
        self.fresh = 0
        self.keep = []

    def ref_list(self, u):
        if u:
            return [self.slots[i] for i in self.first]
        return list(self.slots)

    def canon(self):
        return tuple(sorted((k[0], k[1], v) for k, v in self.flags.items()))

    def new_tensors(self, u):
        base = self.ref_list(u)
        out = []
        for t in base:
            self.fresh += 1
            nt = torch.full(t.shape, 100.0 + self.fresh, dtype=t.dtype) + \
                torch.arange(t.numel(), dtype=torch.float64).reshape(t.shape).to(t.dtype) + _frac(t.dtype)
            out.append(nt)
        self.keep.extend(out)
        return out

    def step(self, ev):
        """apply event to the real packer, compare with reference; returns (outcome string, list of failures)"""
        kind, u, var = ev
        fails = []
        p = self.packer
        if kind == "gl":
            try:
                got = p.get_param_tensor_list(unique=u)
            except Exception as e:
                return "raise", ["getter-raised:%s" % type(e).__name__]
            ref = self.ref_list(u)
            if not isinstance(got, list) or len(got) != len(ref) or any(a is not b for a, b in zip(got, ref)):
                fails.append("getter-list-wrong-order-or-identity")
            self.flags[("l", u)] = True
            outcome = "list%d" % len(ref)
        elif kind == "gf":
            try:
                got = p.get_param_tensor(unique=u)
            except Exception as e:
                return "raise", ["getter-raised:%s" % type(e).__name__]
            ref = self.ref_list(u)
            if len(ref) == 0:
                if got is not None:
                    fails.append("flat-getter-not-None-without-tensors")
            else:
                exp = torch.cat([t.reshape(-1) for t in ref])
                if not isinstance(got, torch.Tensor) or got.numel() != exp.numel() or \
                        not _same_values(got.reshape(-1), exp):
                    fails.append("flat-getter-wrong-value")
            self.flags[("l", u)] = True
            self.flags[("f", u)] = True
            outcome = "flat%d" % len(ref)
        elif kind == "cl":
            ref = self.ref_list(u)
            tens = self.new_tensors(u)
            arg = list(tens)
            if var == "few":
                if not arg:
                    return "n/a", []
                arg = arg[:-1]
            elif var == "many":
                arg = arg + [torch.zeros((), dtype=torch.float64)]
            elif var == "shape":
                if not arg:
                    return "n/a", []
                j = len(arg) - 1
                arg[j] = torch.zeros(tuple(arg[j].shape) + (1,), dtype=torch.float64)
            arg_copy = list(arg)
            try:
                res = p.construct_from_tensor_list(arg, unique=u)
                raised = None
            except Exception as e:
                raised = type(e).__name__
            if arg != arg_copy or any(a is not b for a, b in zip(arg, arg_copy)):
                fails.append("caller-list-mutated")
            if var != "ok":
                if raised is None:
                    fails.append("bad-input-accepted:%s" % var)
                outcome = "rej"
            else:
                pre = self.flags[("l", u)]
                if raised is not None:
                    if pre:
                        fails.append("constructor-raised-after-getter:%s" % raised)
                    outcome = "pre-raise"
                else:
                    expect = [tens[self.inverse[i]] for i in range(self.ns)] if u else list(tens)
                    f = compare(res, self.obj, self.spec, expect, True)
                    fails.extend("rebuilt-" + x for x in f)
                    if self.ns > 0:
                        self.results.append((res, expect, True))
                    outcome = "built"
        else:  # cf
            ref = self.ref_list(u)
            if len(ref) == 0:
                return "n/a", []
            tens = self.new_tensors(u)
            if len(tens) == 1:
                a = tens[0]
                if var == "numel":
                    a = torch.zeros(a.numel() + 1, dtype=torch.float64)
            else:
                a = torch.cat([t.reshape(-1) for t in tens])
                if var == "numel":
                    a = torch.cat([a, torch.zeros(1, dtype=torch.float64)])
            a_copy = a.clone()
            try:
                res = p.construct_from_tensor(a, unique=u)
                raised = None
            except Exception as e:
                raised = type(e).__name__
            if not torch.equal(a, a_copy):
                fails.append("caller-tensor-mutated")
            if var != "ok":
                if raised is None:
                    fails.append("bad-input-accepted:%s" % var)
                outcome = "rej"
            else:
                pre = self.flags[("f", u)]
                if raised is not None:
                    if pre:
                        fails.append("constructor-raised-after-getter:%s" % raised)
                    outcome = "pre-raise"
                else:
                    expect = [tens[self.inverse[i]] for i in range(self.ns)] if u else list(tens)
                    f = compare(res, self.obj, self.spec, expect, False)
                    fails.extend("rebuilt-" + x for x in f)
                    # aliasing must be preserved in unique mode
                    if u and not f:
                        got_slots = []
                        _collect(res, self.spec, got_slots)
                        for i in range(self.ns):
                            for j in range(i):
                                if self.part[i] == self.part[j] and got_slots[i] is not got_slots[j]:
                                    fails.append("rebuilt-alias-lost")
                    self.results.append((res, expect, False))
                    outcome = "built"
        # global invariants after every event
        if not same_snapshot(self.obj, self.spec, self.snap):
            fails.append("original-modified")
        for (res, expect, byid) in self.results:
            if compare(res, self.obj, self.spec, expect, byid):
                fails.append("earlier-result-modified")
                break
        return outcome, sorted(set(fails))


def _collect(node, sp, out):
    k = sp[0]
    if k == "T":
        out.append(node)
    elif k in CONTAINERS:
        for c, s in zip(children(node, sp), sp[1]):
            _collect(c, s, out)


def replay(spec, part, hist):
    w = World(spec, part)
    last = None
    for ev in hist:
        last = w.step(ev)
    return w, last


def run_reshape(cfg):
    """one Packer used before and after the caller changes the shape of a packed tensor in place: the second
    listing reports the tensors as they are then, tensors shaped like that listing are accepted and put in place,
    tensors of the old shape are rejected (list interface)"""
    import xitorch
    from mc.util import V
    u, iface, op, alias = cfg["u"], cfg["iface"], cfg["op"], cfg["alias"]
    t0 = torch.arange(6, dtype=torch.float64).reshape(2, 3) + 1.0
    t1 = torch.arange(3, dtype=torch.float64) + 20.0
    third = t0 if alias else (torch.arange(2, dtype=torch.float64) + 40.0)
    if cfg["struct"] == "list":
        obj = [t0, t1, third]
        read = lambda o: [o[0], o[1], o[2]]
    elif cfg["struct"] == "dict":
        obj = {"a": t0, "b": t1, "c": third}
        read = lambda o: [o["a"], o["b"], o["c"]]
    elif cfg["struct"] == "obj":
        obj = Obj()
        obj.a, obj.b, obj.c = t0, t1, third
        read = lambda o: [o.a, o.b, o.c]
    else:
        obj = {"p": [t0, {"q": t1}], "r": (Obj(),)}
        inner = Obj()
        inner.z = third
        obj["r"] = [inner]
        read = lambda o: [o["p"][0], o["p"][1]["q"], o["r"][0].z]
    viol = []
    nexec = [0]

    def add(f, **d):
        viol.append(V("reshape:" + f, dict(d, **{k: cfg[k] for k in ("struct", "u", "iface", "op", "alias")})))

    def slots():
        return read(obj)

    def uniq(lst):
        out = []
        for t in lst:
            if not any(t is x for x in out):
                out.append(t)
        return out

    def fresh(base, k):
        return [torch.full(tuple(t.shape), 100.0 * (k + 1) + i, dtype=t.dtype) +
                torch.arange(t.numel(), dtype=t.dtype).reshape(tuple(t.shape)) for i, t in enumerate(base)]

    P = xitorch.Packer(obj)

    def round_trip(stage, k):
        ref = uniq(slots()) if u else slots()
        try:
            nexec[0] += 1
            got = P.get_param_tensor_list(unique=u) if iface == "l" else P.get_param_tensor(unique=u)
        except Exception as e:
            return add("getter-raised:%s" % type(e).__name__, stage=stage)
        if iface == "l":
            if len(got) != len(ref) or any(a is not b for a, b in zip(got, ref)):
                return add("getter-list-wrong", stage=stage)
        else:
            exp = torch.cat([t.reshape(-1) for t in ref])
            if got.numel() != exp.numel() or not torch.equal(got.reshape(-1), exp):
                return add("flat-getter-wrong-value", stage=stage)
        new = fresh(ref, k)
        try:
            nexec[0] += 1
            res = P.construct_from_tensor_list(list(new), unique=u) if iface == "l" else \
                P.construct_from_tensor(torch.cat([t.reshape(-1) for t in new]), unique=u)
        except Exception as e:
            return add("constructor-raised-for-tensors-shaped-like-the-listing:%s" % type(e).__name__, stage=stage,
                       message=str(e)[:160])
        exp_slots = []
        cur = slots()
        for t in cur:
            j = [i for i, r in enumerate(ref) if r is t][0] if u else [i for i, r in enumerate(cur) if r is t][0]
            exp_slots.append(new[j] if u else None)
        got_slots = read(res)
        for i, (g, t) in enumerate(zip(got_slots, cur)):
            want = exp_slots[i] if u else new[i]
            if tuple(g.shape) != tuple(t.shape) or not torch.equal(g, want.reshape(tuple(t.shape))):
                add("rebuilt-slot-holds-other-tensor", stage=stage, slot=i, shape=list(g.shape), want=list(t.shape))
                break
        if any(a is not b for a, b in zip(read(obj), cur)):
            add("original-modified", stage=stage)
        return new

    round_trip("before", 0)
    old_shapes = [tuple(t.shape) for t in (uniq(slots()) if u else slots())]
    if op == "transpose":
        t0.t_()
    elif op == "unsqueeze":
        t0.unsqueeze_(0)
    else:
        t0.data = torch.arange(8, dtype=torch.float64).reshape(4, 2) - 3.0       # other shape AND other numel
    if not viol:
        round_trip("after", 1)
    if not viol and iface == "l":
        ref = uniq(slots()) if u else slots()
        stale = [torch.zeros(sh, dtype=torch.float64) for sh in old_shapes]
        try:
            nexec[0] += 1
            P.construct_from_tensor_list(stale, unique=u)
            add("bad-input-accepted:old-shapes", old=[list(sh) for sh in old_shapes],
                now=[list(t.shape) for t in ref])
        except Exception:
            pass
    return {"viol": viol, "obs": {"nviol": len(viol), "cfg": [cfg["struct"], u, iface, op, alias]},
            "status": "violation" if viol else "ok", "n": nexec[0], "states": 6, "transitions": nexec[0]}


def run_shared(cfg):
    """a container holding one tensor is referenced from two places of the structure and followed by 1 or 2 further
    tensors: the listing visits the shared tensor once per reference (once in unique mode), and after a
    construction every LATER slot holds the tensor supplied for its position (the shared slot holds one of the
    tensors supplied for its references)"""
    import xitorch
    from mc.util import V
    u, iface, ntail = cfg["u"], cfg["iface"], cfg["ntail"]
    t0 = torch.arange(2, dtype=torch.float64) + 1.0
    tails = [torch.arange(3, dtype=torch.float64).reshape(3) + 10.0 * (k + 1) for k in range(ntail)]
    if cfg["child"] == "list":
        sh = [t0]
        rd_c = lambda c: c[0]
    elif cfg["child"] == "dict":
        sh = {"t": t0}
        rd_c = lambda c: c["t"]
    else:
        sh = Obj()
        sh.t = t0
        rd_c = lambda c: c.t
    items = [sh, sh] + tails
    if cfg["parent"] == "list":
        obj = list(items)
        rd = lambda o: list(o)
    elif cfg["parent"] == "dict":
        obj = {"k%d" % i: it for i, it in enumerate(items)}
        rd = lambda o: [o["k%d" % i] for i in range(len(items))]
    else:
        obj = Obj()
        for i, it in enumerate(items):
            setattr(obj, "a%d" % i, it)
        rd = lambda o: [getattr(o, "a%d" % i) for i in range(len(items))]
    viol = []
    at = {k: cfg[k] for k in ("parent", "child", "u", "iface", "ntail")}

    def add(f, **d):
        viol.append(V("shared-container:" + f, dict(d, **at)))
    P = xitorch.Packer(obj)
    ref = ([t0] + tails) if u else ([t0, t0] + tails)
    nexec = 1
    try:
        got = P.get_param_tensor_list(unique=u) if iface == "l" else P.get_param_tensor(unique=u)
    except Exception as e:
        add("getter-raised:%s" % type(e).__name__)
        got = None
    if got is not None:
        if iface == "l":
            if len(got) != len(ref) or any(a is not b for a, b in zip(got, ref)):
                add("getter-list-wrong", n=len(got))
        else:
            exp = torch.cat([t.reshape(-1) for t in ref])
            if got.numel() != exp.numel() or not torch.equal(got.reshape(-1), exp):
                add("flat-getter-wrong-value")
    if not viol:
        new = [torch.full(tuple(t.shape), 100.0 * (i + 1), dtype=t.dtype) + torch.arange(t.numel(), dtype=t.dtype)
               for i, t in enumerate(ref)]
        nexec += 1
        try:
            res = P.construct_from_tensor_list(list(new), unique=u) if iface == "l" else \
                P.construct_from_tensor(torch.cat([t.reshape(-1) for t in new]), unique=u)
        except Exception as e:
            add("constructor-raised:%s" % type(e).__name__, message=str(e)[:160])
            res = None
        if res is not None:
            parts = rd(res)
            first_tail = 1 if u else 2
            for k in range(ntail):
                g = parts[2 + k]
                want = new[first_tail + k]
                if not isinstance(g, torch.Tensor) or tuple(g.shape) != tuple(want.shape) or not torch.equal(g, want):
                    add("later-slot-holds-other-tensor", slot=2 + k)
                    break
            allowed = [new[0]] if u else [new[0], new[1]]
            for j in (0, 1):
                g = rd_c(parts[j])
                if not any(torch.equal(g, a) for a in allowed):
                    add("shared-slot-holds-none-of-its-tensors", ref=j)
                    break
            if rd_c(rd(obj)[0]) is not t0 or any(a is not b for a, b in zip(rd(obj)[2:], tails)):
                add("original-modified")
    return {"viol": viol, "obs": {"nviol": len(viol), "cfg": sorted(at.items())},
            "status": "violation" if viol else "ok", "n": nexec, "states": 3, "transitions": nexec}


def run_case(cfg):
    if cfg.get("search") == "reshape":
        return run_reshape(cfg)
    if cfg.get("search") == "shared":
        return run_shared(cfg)
    spec, part, depth = cfg["spec"], cfg["part"], cfg["depth"]
    _DVAR[0] = cfg.get("dvar", "dict")
    _DTV[0] = cfg.get("dtv", "f64")
    _SHV[0] = cfg.get("shv", "mixed")
    _STV[0] = cfg.get("stv", "own")
    viol = []
    table = {}
    n_exec = 0
    states = set()
    transitions = 0

    def record(hist, outcome, fails):
        for f in fails:
            viol.append({"failure": f, "detail": {"history": [list(e) for e in hist]},
                         "at": {"last_event": "%s/%s/%s" % hist[-1], "hist_len": len(hist)}})

    # (1) undeduplicated: all sequences up to `depth`
    if depth > 0:
        frontier = [[]]
        for d in range(depth):
            nxt = []
            for hist in frontier:
                for ev in EVENTS:
                    h2 = hist + [ev]
                    w, (outcome, fails) = replay(spec, part, h2)
                    n_exec += 1
                    transitions += 1
                    if outcome == "n/a":
                        continue
                    table["%d:%s" % (d, outcome)] = table.get("%d:%s" % (d, outcome), 0) + 1
                    record(h2, outcome, fails)
                    if not fails:
                        nxt.append(h2)
                    states.add((len(h2),) + tuple(h2))
            frontier = nxt
    # (2) breadth-first with deduplication on the reference flag state, to a fixpoint
    seen = {}
    w0 = World(spec, part)
    seen[w0.canon()] = []
    queue = [[]]
    while queue:
        hist = queue.pop(0)
        for ev in EVENTS:
            h2 = hist + [ev]
            w, (outcome, fails) = replay(spec, part, h2)
            n_exec += 1
            transitions += 1
            if outcome == "n/a":
                continue
            table["bfs:%s/%s:%s" % (ev[0], ev[2], outcome)] = table.get("bfs:%s/%s:%s" % (ev[0], ev[2], outcome), 0) + 1
            record(h2, outcome, fails)
            c = w.canon()
            if c not in seen and not fails:
                seen[c] = h2
                queue.append(h2)
    # dedupe violations by (failure, last_event)
    uniq = {}
    for v in viol:
        k = (v["failure"], v["at"]["last_event"])
        if k not in uniq or len(v["detail"]["history"]) < len(uniq[k]["detail"]["history"]):
            uniq[k] = v
    ns = count_slots(spec)
    return {"viol": list(uniq.values()), "obs": {"spec": spec, "part": part, "table": table},
            "trivial": ns == 0, "n": n_exec, "states": len(states) + len(seen), "transitions": transitions,
            "status": "ok" if not uniq else "violation"}
