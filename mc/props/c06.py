"""C06 — first- and second-order gradients of eigenpairs / singular triplets, incl. degeneracy.

Bounded-exhaustive exploration of torch.autograd.grad through the real `xitorch.linalg.symeig` / `svd` over a
finite lattice; gauge-invariant losses only; references: contour-integral spectral projectors of the dense
matrices built from the same leaves (smooth through exact degeneracy) and, for separated spectra, the
Cholesky-reduced torch.linalg.eigh / torch.linalg.svd."""
from __future__ import annotations
import math
import torch
from mc.util import V, call, gen, randn, orth, spd, rnd
from mc.props._eig_common import (DT, hc, sym, spectrum, clusters, selected, boundary_neigs, gap_to_rest, herm_op,
                                  gen_op, ref_eigh, contour)

ID = "C06"
LEVEL = "exploration"
DESIGN_REF = "DESIGN.md §5 C06"
RULE = ("case = one point of a union of complete sub-lattices; inside a case every loss of the gauge-invariant "
        "alphabet is differentiated separately (eval: sum_C c_C sum_{i in C} e_i; proj: sum_C Re tr(W_C X_C X_C^H) "
        "over the complete clusters of the selected set; vec: |<w, x_i>|^2 of the first simple selected eigenvalue; "
        "svd: sval = sum_C c_C sum_{i in C} s_i, rank1 = sum_C Re tr(W_C^H U_C S_C V_C^H)).  core: method "
        "{exacteig, custom_exacteig, davidson(real)} x backward solver {default (only where dispatch is the direct "
        "solve), exactsolve, cg, bicgstab with explicit tight tolerances} x M x operator kind {dense-wrapped, "
        "matrix-free} x n x spectrum {sep, clus 5e-4, deg2, deg3} x mode x neig at cluster boundaries (<n and =n) x "
        "parametrisation {P1: A = sym(leaf), M = sym(leaf); P2: A = L Q(leaf) diag(b(leaf)) Q^H L^H with tied "
        "entries, L = chol(sym(leafM)), degeneracy preserving} x dtype x order {1, 2 (Hessian-vector product with a "
        "fixed direction)}; batch: (A, M) batch patterns {2|, |2} on n = 3; svd: shape x k x mode x {sep, rep} x "
        "{P1: A = leaf, P2: A = U(leaf) diag(s(leaf)) V(leaf)^H}.  Second order at an exact degeneracy inside the "
        "selected set under P1 is informational (not judged).  distinct = distinct rounded observation")
RULE_ADDED = "Added later: spectrum deg0 (null-space cluster) and 'near' (caller-supplied degeneracy tolerances, backward twice on the retained graph), mixed batch (one degenerate, one separated element), basis {rotated, identity, lowest / uppermost state decoupled}: operators in their own eigenbasis make the shifted systems of the implicit backward exactly singular. Round 4: opkind mfree_nd (first declared parameter does not require grad, a later one does). Rounds 5-6: svd of operators implementing _mv only; explicit zero degeneracy tolerances (one / both); debug mode during forward and backward."
ASSUMPTIONS = [
    "losses are gauge invariant and cluster complete; neig never cuts an exactly degenerate cluster",
    "second-order gradients at an exact degeneracy in degeneracy-breaking directions (P1, cluster inside the "
    "selected set) are reported in obs only: the statement promises a correct gradient there, not a Hessian",
    "backward solver tolerances are passed explicitly (rtol 1e-12, atol 1e-14); the default backward options are "
    "only used where xitorch.linalg.solve dispatches to the direct solve (dense operators, or n <= 5); a backward "
    "pass that emitted a ConvergenceWarning is not judged",
    "davidson: real dtypes, n <= 8 (subspace reaches full dimension, forward pairs exact), explicit options",
    "gmres is not used as backward solver (its E-shift failure belongs to C01)",
    "an exception raised by the forward call is reported with the prefix 'forward-exception' (forward behaviour "
    "is C05's subject); an exception in a backward pass with the prefix 'backward-exception'",
]
BUDGET_S = {"quick": 900, "thorough": 3000}

BATCH = {"-": ((), ()), "2|": ((2,), ()), "|2": ((), (2,))}
TIGHT = {"rtol": 1e-12, "atol": 1e-14, "max_niter": 400}
BCK = {
    "default": {},
    "exactsolve": {"method": "exactsolve"},
    "cg": dict(method="cg", **TIGHT),
    "bicgstab": dict(method="bicgstab", **TIGHT),
}
# |got - ref|_max <= RTOL * |ref|_max + ATOL * (1 / gap)^order per leaf, gap = distance of the clusters used by the
# loss to the rest of the spectrum.  Observed on a tree where the property holds: <= 1e-9 relative and <= 3e-10
# absolute for the dense paths (differentiating through the singular shifted solve leaves noise of that size);
# davidson returns pairs accurate to ~1e-11 (its Cholesky-QR), amplified up to 1e5 inside a degenerate cluster.
# A dropped term / sign / conj of the backward formula gives >= 1e-2 relative.
RTOL = 1e-6
RTOL_DAVIDSON = 1e-4
ATOL = 1e-7


def _method_grid(thorough):
    """(method, bck, dtype)"""
    out = []
    for d in ("f64", "c128"):
        out.append(("exacteig", "na", d))
        for b in ("default", "exactsolve", "cg") + (("bicgstab",) if thorough else ()):
            out.append(("custom_exacteig", b, d))
    for b in ("default", "exactsolve", "cg") + (("bicgstab",) if thorough else ()):
        out.append(("davidson", b, "f64"))
    return out


def _neigs(lam, mode, thorough):
    n = len(lam)
    B = boundary_neigs(lam, mode, 0.0)
    if thorough or len(B) <= 3:
        return B
    multi = [c for c in clusters(lam, 0.0) if len(c) > 1]
    pick = {B[0], n}
    if multi:
        # smallest neig that contains the degenerate cluster
        for neig in B:
            if set(multi[0]) <= set(selected(n, neig, mode)):
                pick.add(neig)
                break
    else:
        pick.add(B[len(B) // 2])
    pick.add(max(b for b in B if b < n))
    return sorted(pick)


def _default_ok(opkind, n):
    return opkind == "dense" or n <= 5


def _combo_ok(thorough, method, bck, opkind, n):
    """which (backward solver, operator kind, n) combinations are enumerated.
    'default' only where solve() dispatches to the direct solve (dense operator, or n <= 5).
    quick: dense x exactsolve, mfree x {exactsolve, cg} on n in {3, 6}; default on (mfree, n = 5) and (dense, n = 6)"""
    if method == "exacteig":
        return n != 5 or thorough
    if bck == "default" and not _default_ok(opkind, n):
        return False
    if thorough:
        return True
    if bck == "default":
        return (opkind, n) in (("mfree", 5), ("dense", 6))
    if n == 5:
        return False
    if opkind == "dense":
        return bck == "exactsolve"
    return bck in ("exactsolve", "cg")


def cases(tier, seed):
    thorough = tier != "quick"
    out = []
    grid = _method_grid(thorough)
    # ---- core
    ns = [3, 5, 6] if not thorough else [2, 3, 5, 6, 8]
    for n in ns:
        for spec in ("sep", "clus", "deg2", "deg3", "deg0"):
            if spec == "deg3" and n < 3:
                continue
            lam = spectrum(spec, n)
            for mode in ("lowest", "uppest"):
                for neig in _neigs(lam, mode, thorough):
                    for (m, b, d) in grid:
                        if spec == "deg0" and (m == "davidson" or b not in ("na", "exactsolve")):
                            continue        # the null-space cluster is enumerated for the dense paths
                        for opkind in ("dense", "mfree"):
                            if not _combo_ok(thorough, m, b, opkind, n):
                                continue
                            for M in (0, 1):
                                for param in ("P1", "P2"):
                                    for order in (1, 2):
                                        out.append({"fam": "symeig", "method": m, "bck": b, "M": M, "opkind": opkind,
                                                    "n": n, "neig": neig, "mode": mode, "spectrum": spec,
                                                    "param": param, "dtype": d, "order": order, "batch": "-",
                                                    "plane": 0})
    # ---- degeneracy tolerances given by the caller, and the backward pass run twice on the retained graph
    for n in (2, 3):
        for mode in ("lowest", "uppest"):
            for opkind in ("dense", "mfree"):
                for M in (0, 1):
                    for d in ("f64", "c128"):
                        for order in (1, 2):
                            out.append({"fam": "symeig", "method": "custom_exacteig", "bck": "exactsolve", "M": M,
                                        "opkind": opkind, "n": n, "neig": 2, "mode": mode, "spectrum": "near",
                                        "param": "P1", "dtype": d, "order": order, "batch": "-", "plane": 0,
                                        "degtol": 1})
                            # both tolerances given as exactly 0.0 (documented: no special treatment): same answer
                            out.append({"fam": "symeig", "method": "custom_exacteig", "bck": "exactsolve", "M": M,
                                        "opkind": opkind, "n": n, "neig": 2, "mode": mode, "spectrum": "near",
                                        "param": "P1", "dtype": d, "order": order, "batch": "-", "plane": 0,
                                        "degtol": 2})
                            # exactly ONE tolerance given as 0.0 on an exactly degenerate pair: the other tolerance
                            # (default) still declares the pair degenerate
                            lamd = spectrum("deg2", n)
                            ncl = [q for q in boundary_neigs(lamd, mode, 0.0)
                                   if any(len(c) > 1 and set(c) <= set(selected(n, q, mode)) for c in clusters(lamd, 0.0))]
                            for dg in (3, 4):
                                for param in ("P1", "P2"):
                                    out.append({"fam": "symeig", "method": "custom_exacteig", "bck": "exactsolve",
                                                "M": M, "opkind": opkind, "n": n, "neig": ncl[0], "mode": mode,
                                                "spectrum": "deg2", "param": param, "dtype": d, "order": order,
                                                "batch": "-", "plane": 0, "degtol": dg})
    # ---- debug mode (xitorch.set_debug_mode(True)) during forward and backward: same gradients
    for n in (3,):
        for spec in ("sep", "deg2"):
            lamd = spectrum(spec, n)
            for mode in ("lowest", "uppest"):
                ncl = [q for q in boundary_neigs(lamd, mode, 0.0)]
                for neig in ncl:
                    for opkind in ("dense", "mfree"):
                        for M in (0, 1):
                            for d in ("f64", "c128"):
                                for param in ("P1", "P2"):
                                    for order in (1, 2):
                                        for (m, b) in (("custom_exacteig", "exactsolve"), ("exacteig", "na")):
                                            out.append({"fam": "symeig", "method": m, "bck": b, "M": M,
                                                        "opkind": opkind, "n": n, "neig": neig, "mode": mode,
                                                        "spectrum": spec, "param": param, "dtype": d,
                                                        "order": order, "batch": "-", "plane": 0, "debug": 1})
    # ---- operators that are diagonal / have a decoupled state (exactly singular shifted systems in the backward)
    for n in ((3, 5) if not thorough else (2, 3, 5, 6)):
        for basis in ("eye", "dec0", "decn"):
            if basis != "eye" and n < 3:
                continue
            for spec in ("sep", "deg2"):
                lam = spectrum(spec, n)
                for mode in ("lowest", "uppest"):
                    for neig in boundary_neigs(lam, mode, 0.0):
                        for (m, b, d) in grid:
                            if b not in ("na", "exactsolve", "default"):
                                continue
                            for opkind in ("dense", "mfree"):
                                if not _combo_ok(thorough, m, b, opkind, n):
                                    continue
                                for param in ("P1", "P2"):
                                    for order in (1, 2):
                                        out.append({"fam": "symeig", "method": m, "bck": b, "M": 0, "opkind": opkind,
                                                    "n": n, "neig": neig, "mode": mode, "spectrum": spec,
                                                    "param": param, "dtype": d, "order": order, "batch": "-",
                                                    "plane": 0, "basis": basis})
    # ---- the operator objects are given other tensors between the forward call and the backward pass
    for n in ((3, 6) if not thorough else (2, 3, 5, 6)):
        for spec in ("sep", "deg2"):
            lam = spectrum(spec, n)
            for mode in ("lowest", "uppest"):
                for neig in boundary_neigs(lam, mode, 0.0):
                    for (m, b, d) in grid:
                        if m == "exacteig" or b not in ("exactsolve", "cg", "default"):
                            continue
                        if not _combo_ok(thorough, m, b, "mfree", n):
                            continue
                        for M in (0, 1):
                            for order in (1, 2):
                                out.append({"fam": "symeig", "method": m, "bck": b, "M": M, "opkind": "mfree",
                                            "n": n, "neig": neig, "mode": mode, "spectrum": spec, "param": "P1",
                                            "dtype": d, "order": order, "batch": "-", "plane": 0, "mut": 1})
    # ---- an operator whose first declared parameter does not require grad while a later one does
    for n in ((3, 6) if not thorough else (2, 3, 5, 6)):
        for spec in ("sep", "deg2"):
            lam = spectrum(spec, n)
            for mode in ("lowest", "uppest"):
                for neig in boundary_neigs(lam, mode, 0.0):
                    for (m, b, d) in grid:
                        if m == "exacteig" or b not in ("exactsolve", "cg", "default"):
                            continue
                        if not _combo_ok(thorough, m, b, "mfree", n):
                            continue
                        for M in (0, 1):
                            for order in (1, 2):
                                out.append({"fam": "symeig", "method": m, "bck": b, "M": M, "opkind": "mfree_nd",
                                            "n": n, "neig": neig, "mode": mode, "spectrum": spec, "param": "P1",
                                            "dtype": d, "order": order, "batch": "-", "plane": 0})
    # ---- batch
    for n in ([3] if not thorough else [3, 5]):
        for batch in ("2|", "|2"):
            for spec in ("sep", "deg2", "mix2"):
                if spec == "mix2" and batch != "2|":
                    continue
                lam = spectrum("deg2" if spec == "mix2" else spec, n)
                for mode in ("lowest", "uppest"):
                    for neig in boundary_neigs(lam, mode, 0.0):
                        for (m, b, d) in grid:
                            if b not in ("na", "exactsolve", "cg"):
                                continue
                            for opkind in ("dense", "mfree"):
                                for M in (0, 1):
                                    if batch == "|2" and not M:
                                        continue
                                    for param in ("P1", "P2"):
                                        if spec == "mix2" and param != "P1":
                                            continue
                                        for order in (1, 2):
                                            out.append({"fam": "symeig", "method": m, "bck": b, "M": M,
                                                        "opkind": opkind, "n": n, "neig": neig, "mode": mode,
                                                        "spectrum": spec, "param": param, "dtype": d, "order": order,
                                                        "batch": batch, "plane": 0})
    # ---- svd
    shapes = [(3, 3), (4, 3), (3, 5)] + ([(2, 2), (6, 6), (6, 4)] if thorough else [])
    for (mm, nn) in shapes:
        r = min(mm, nn)
        for sv in ("sep", "rep"):
            s = svals(sv, r)
            for mode in ("lowest", "uppest"):
                for k in boundary_neigs(s, mode, 0.0):
                    for (m, b, d) in grid:
                        for opkind in ("dense", "mfree", "mfree_mv"):
                            # svd builds A^H A: a MatrixLinearOperator for dense, a product operator otherwise;
                            # mfree_mv implements _mv only (A^H through the adjoint trick of LinearOperator)
                            if not _combo_ok(thorough, m, b, "mfree" if opkind == "mfree_mv" else opkind,
                                             5 if (b == "default" and r <= 5) else 6):
                                continue
                            for param in ("P1", "P2"):
                                for order in (1, 2):
                                    for batch in ("-", "2|") if (mm, nn) == (3, 3) else ("-",):
                                        out.append({"fam": "svd", "method": m, "bck": b, "opkind": opkind, "m": mm,
                                                    "n": nn, "k": k, "mode": mode, "sv": sv, "param": param,
                                                    "dtype": d, "order": order, "batch": batch, "plane": 0})
    # ---- extra value planes (thorough), numeric instance from VERIF_SEED
    if thorough:
        for plane in (1, 2):
            for n in (3, 6):
                for spec in ("sep", "clus", "deg2", "deg3"):
                    lam = spectrum(spec, n)
                    for mode in ("lowest", "uppest"):
                        for neig in _neigs(lam, mode, False):
                            for (m, b, d) in grid:
                                if b not in ("na", "exactsolve"):
                                    continue
                                for M in (0, 1):
                                    for param in ("P1", "P2"):
                                        for order in (1, 2):
                                            out.append({"fam": "symeig", "method": m, "bck": b, "M": M,
                                                        "opkind": "mfree", "n": n, "neig": neig, "mode": mode,
                                                        "spectrum": spec, "param": param, "dtype": d, "order": order,
                                                        "batch": "-", "plane": plane, "vseed": int(seed)})
    return out


# ------------------------------------------------------------------ helpers

def _gen_for(cfg):
    p = cfg.get("plane", 0)
    return gen(0 if p == 0 else 7919 * (int(cfg.get("vseed", 0)) + 1) + p)


def svals(kind, r):
    """ascending singular values in [0.6, 2.4]; 'rep': entries 0,1 (r == 2) or 1,2 equal"""
    s = [0.6 + 1.8 * (j / max(r - 1, 1)) ** 1.2 + 0.05 * (j % 2) for j in range(r)]
    if kind == "rep":
        j = 0 if r == 2 else 1
        s[j + 1] = s[j]
    return s


def _fwd_opts(cfg, neig, nmax):
    if cfg["method"] != "davidson":
        return {}
    return {"v_init": "randn", "nguess": neig, "min_eps": 1e-10, "max_niter": 200}


def _rdot(a, b):
    return (a.conj() * b).sum().real


def _zeros_like_none(gs, leaves):
    return [torch.zeros_like(l) if g is None else g for g, l in zip(gs, leaves)]


class Problem:
    """leaves, the differentiable dense builder, the cluster structure, circles and loss weights of one case"""


def _circles(lam_b, cl, nall):
    """per cluster: center/radius tensors (batch shape of lam_b[..., 0]); lam_b: (*B, nall) ascending"""
    res = []
    for c in cl:
        lo, hi = lam_b[..., c[0]], lam_b[..., c[-1]]
        g = torch.full_like(lo, math.inf)
        if c[0] > 0:
            g = torch.minimum(g, lo - lam_b[..., c[0] - 1])
        if c[-1] < nall - 1:
            g = torch.minimum(g, lam_b[..., c[-1] + 1] - hi)
        g = torch.where(torch.isinf(g), torch.full_like(g, 2.0), g)
        res.append((0.5 * (lo + hi), 0.5 * (hi - lo) + 0.5 * g))
    return res


def _grads(loss, leaves, order, dirs):
    """first-order gradient (order 1) or Hessian-vector product with `dirs` (order 2); runs library backward"""
    g1 = torch.autograd.grad(loss, leaves, create_graph=(order == 2), retain_graph=True, allow_unused=True)
    g1 = _zeros_like_none(g1, leaves)
    if order == 1:
        return [g.detach() for g in g1]
    s = sum(_rdot(d, g) for d, g in zip(dirs, g1))
    if not s.requires_grad:
        return [torch.zeros_like(l) for l in leaves]
    h = torch.autograd.grad(s, leaves, retain_graph=True, allow_unused=True)
    return [g.detach() for g in _zeros_like_none(h, leaves)]


def _compare(viol, info, name, lossname, names, got, ref, order, gap, judged, extra_at, rtol=RTOL):
    """compare per leaf; returns dict of rounded errors"""
    res = {}
    for nm, a, b in zip(names, got, ref):
        if a.shape != b.shape:
            viol.append(V("grad%d-shape-mismatch:%s" % (order, nm), {"got": list(a.shape), "ref": list(b.shape)},
                          loss=lossname, leaf=nm, **extra_at))
            continue
        err = float((a - b).abs().max()) if a.numel() else 0.0
        if math.isnan(err):
            err = math.inf
        mag = float(b.abs().max()) if b.numel() else 0.0
        tol = rtol * mag + ATOL * (1.0 / gap) ** order
        res[nm] = [rnd(err, 2), rnd(mag, 2), rnd(err / tol, 2)]
        if err > tol:
            rec = {"err": err, "ref_mag": mag, "tol": tol, "gap": gap, "reference": name}
            if judged:
                viol.append(V("grad%d-mismatch:%s" % (order, nm), rec, loss=lossname, leaf=nm, **extra_at))
            else:
                info.append({"loss": lossname, "leaf": nm, "err": rnd(err, 3), "mag": rnd(mag, 3)})
    return res


def _selfcheck(names, a, b, order, gap, what):
    for nm, x, y in zip(names, a, b):
        err = float((x - y).abs().max()) if x.numel() else 0.0
        mag = float(y.abs().max()) if y.numel() else 0.0
        if not (err <= 0.1 * (RTOL * mag + ATOL * (1.0 / gap) ** order)):
            raise AssertionError("harness: the two references disagree (%s, leaf %s): err %g mag %g" %
                                 (what, nm, err, mag))


# ------------------------------------------------------------------ symeig

def run_symeig(cfg):
    from xitorch.linalg import symeig
    dt = DT[cfg["dtype"]]
    cdt = torch.complex128
    n, neig, mode, order = cfg["n"], cfg["neig"], cfg["mode"], cfg["order"]
    useM = bool(cfg["M"])
    g = _gen_for(cfg)
    mixed = cfg["spectrum"] == "mix2"
    if mixed:
        # batch of two matrices of which only the first has coinciding eigenvalues; the clusters (groups of the loss)
        # are those of the degenerate element, for the other element they are groups of separated eigenvalues
        lam = spectrum("deg2", n)
        lam_lists = [lam, spectrum("sep", n)]
        lam_t = torch.tensor(lam_lists, dtype=torch.float64)
    else:
        lam = spectrum(cfg["spectrum"], n)
        lam_lists = [lam]
        lam_t = torch.tensor(lam, dtype=torch.float64)
    bA, bM = BATCH[cfg["batch"]]
    bshape = tuple(torch.broadcast_shapes(bA, bM if useM else ()))
    sel = selected(n, neig, mode)
    cl_all = clusters(lam, 0.0)
    cl = [c for c in cl_all if set(c) <= set(sel)]
    assert sum(len(c) for c in cl) == neig, "harness: neig cuts a cluster"
    degin = any(len(c) > 1 for c in cl)
    off = sel[0]

    # ---- numeric instance
    Q0 = orth(n, dt, g, bA)
    basis = cfg.get("basis", "rot")
    if basis != "rot":
        # operators in (part of) their own eigenbasis: A - e_i I then has an exactly zero pivot, the retry branch
        # of the shifted solve of the implicit backward is executed
        Qb = torch.zeros(bA + (n, n), dtype=dt)
        if basis == "eye":
            Qb = Qb + torch.eye(n, dtype=dt)
        elif basis == "dec0":      # the lowest state decoupled from the rest
            Qb[..., 0, 0] = 1.0
            Qb[..., 1:, 1:] = orth(n - 1, dt, g, bA)
        elif basis == "decn":      # the uppermost state decoupled
            Qb[..., n - 1, n - 1] = 1.0
            Qb[..., :n - 1, :n - 1] = orth(n - 1, dt, g, bA)
        else:
            raise AssertionError(basis)
        Q0 = Qb
    if useM:
        Mbase = sym(spd(n, 3.0, dt, g))
        cs = torch.tensor([0.8, 1.3], dtype=torch.float64) if bM else torch.tensor(1.0, dtype=torch.float64)
        M0 = sym(cs.to(dt)[..., None, None] * Mbase) if bM else Mbase
    else:
        cs = torch.tensor(1.0, dtype=torch.float64)
        M0 = None
    P1 = cfg["param"] == "P1"
    if P1:
        if useM:
            L0 = torch.linalg.cholesky(Mbase)
            A0 = sym(L0 @ ((Q0 * lam_t.to(dt)[..., None, :]) @ hc(Q0)) @ hc(L0))
        else:
            A0 = sym((Q0 * lam_t.to(dt)[..., None, :]) @ hc(Q0))
        leaves = [A0.clone().requires_grad_()]
        names = ["A"]
        if useM:
            leaves.append(M0.clone().requires_grad_())
            names.append("M")
        lam_b = (lam_t / cs[..., None]).expand(bshape + (n,)) if (useM and bM) else lam_t.expand(bshape + (n,))

        def build(lv):
            A = sym(lv[0])
            M = sym(lv[1]) if useM else None
            return A, M
    else:
        # distinct values + tie map
        dist, tie = [], []
        for i, v in enumerate(lam):
            if i > 0 and v == lam[i - 1]:
                tie.append(len(dist) - 1)
            else:
                dist.append(v)
                tie.append(len(dist) - 1)
        a0 = torch.tensor(dist, dtype=torch.float64)
        # a matrix whose QR has Q = Q0 (generic R)
        R0 = torch.triu(randn((n, n), dt, g)) + 2.0 * torch.eye(n, dtype=dt)
        leaves = [a0.clone().requires_grad_(), (Q0 @ R0).clone().requires_grad_()]
        names = ["a", "Q"]
        if useM:
            leaves.append(M0.clone().requires_grad_())
            names.append("M")
        lam_b = lam_t.expand(bshape + (n,))

        def build(lv):
            b = lv[0][tie].to(dt)
            Q, _ = torch.linalg.qr(lv[1])
            A = (Q * b) @ hc(Q)
            if useM:
                M = sym(lv[2])
                L = torch.linalg.cholesky(M)
                A = L @ A @ hc(L)
            else:
                M = None
            return sym(A), M

    dirs = [randn(tuple(l.shape), l.dtype, g) for l in leaves]
    if P1:
        dirs = [sym(d) for d in dirs]
    # loss weights (batch dependent)
    W = [randn(bshape + (n, n), dt, g) for _ in cl]
    cw = [torch.tensor([1.0, -0.7, 0.45, 1.6, -1.2, 0.8, 0.3, -0.5][k % 8]) * (1.0 + 0.5 * torch.arange(
        max(1, int(math.prod(bshape))), dtype=torch.float64).reshape(bshape if bshape else ())) for k in range(len(cl))]
    simple = [c[0] for c in cl if len(c) == 1]
    wv = randn(bshape + (n,), dt, g)

    def losses_from_pairs(E, X, offset):
        out = {}
        ev = 0.0
        pj = 0.0
        for k, c in enumerate(cl):
            idx = [i - offset for i in c]
            ev = ev + (cw[k] * E[..., idx].sum(-1)).sum()
            Xc = X[..., idx]
            pj = pj + torch.einsum("...ij,...ji->...", W[k], Xc @ hc(Xc)).real.sum()
        out["eval"] = ev
        out["proj"] = pj
        if simple:
            x = X[..., simple[0] - offset]
            ov = torch.einsum("...i,...i->...", wv.conj(), x)
            out["vec"] = (ov.real ** 2 + ov.imag ** 2).sum() if ov.is_complex() else (ov ** 2).sum()
        return out

    circles = _circles(lam_b, cl, n)

    def losses_contour(lv):
        A, M = build(lv)
        A = A.expand(bshape + (n, n))
        M = None if M is None else M.expand(bshape + (n, n))
        out = {}
        ev = 0.0
        pj = 0.0
        for k, c in enumerate(cl):
            P, S = contour(A, M, circles[k][0], circles[k][1])
            ev = ev + (cw[k] * S).sum()
            pj = pj + torch.einsum("...ij,...ji->...", W[k].to(cdt), P).real.sum()
            if simple and c[0] == simple[0]:
                out["vec"] = torch.einsum("...i,...ij,...j->...", wv.conj().to(cdt), P, wv.to(cdt)).real.sum()
        out["eval"] = ev
        out["proj"] = pj
        return out

    def losses_eigh(lv):
        A, M = build(lv)
        A = A.expand(bshape + (n, n))
        M = None if M is None else M.expand(bshape + (n, n))
        E, X = ref_eigh(A, M)
        return losses_from_pairs(E, X, 0)

    # ---- library forward
    held = {}

    def fwd():
        A, M = build(leaves)
        Aop = herm_op(cfg["opkind"], A)
        Mop = herm_op(cfg["opkind"], M) if useM else None
        held["A"], held["M"] = Aop, Mop
        kw = {} if cfg["method"] == "exacteig" else {"bck_options": dict(BCK[cfg["bck"]])}
        if cfg.get("degtol") and "bck_options" in kw:
            # the caller declares the spectrum non-degenerate (tolerances far below the gap of 2e-7)
            kw["bck_options"].update({1: {"degen_atol": 1e-12, "degen_rtol": 1e-12},
                                      2: {"degen_atol": 0.0, "degen_rtol": 0.0},
                                      3: {"degen_atol": 0.0}, 4: {"degen_rtol": 0.0}}[cfg["degtol"]])
        torch.manual_seed(4242)
        return symeig(Aop, neig=neig, mode=mode, M=Mop, method=cfg["method"], **kw, **_fwd_opts(cfg, neig, n))

    at0 = {"degin": int(degin)}
    o = call(fwd)
    if o.exc is not None:
        return {"viol": [V("forward-exception:%s" % o.exc_sig, {"exc": repr(o.exc)[:300]}, **at0)],
                "obs": {"fwd_exc": o.exc_sig}, "status": "forward-exception"}
    E, X = o.value
    if tuple(E.shape) != bshape + (neig,) or tuple(X.shape) != bshape + (n, neig):
        return {"viol": [V("forward-shape-mismatch", {"E": list(E.shape), "X": list(X.shape)}, **at0)],
                "obs": {"shape": list(X.shape)}, "status": "violation"}
    if cfg.get("mut"):
        # object history: after the forward call its owner gives the operator object OTHER tensors (a loop that
        # re-uses one operator for the next problem); the backward pass of the first result must not see them
        with torch.no_grad():
            held["A"].mat = held["A"].mat.detach() * 1.7 + 0.3 * torch.eye(n, dtype=dt)
            if held["M"] is not None:
                held["M"].mat = held["M"].mat.detach() * 1.2 + 0.1 * torch.eye(n, dtype=dt)
    lib = losses_from_pairs(E, X, off)
    # (a contour of radius 1e-7 is too ill-conditioned a reference for the "near" spectrum: dense eigh is used)
    ref = losses_eigh(leaves) if cfg["spectrum"] == "near" else losses_contour(leaves)
    ref2 = losses_eigh(leaves) if cfg["spectrum"] == "sep" else None

    # conditioning: distance of every cluster used by an eigenvector loss to the rest of the spectrum
    cmax = float(cs.max())
    gap_vec = min([gap_to_rest(ll, c) for ll in lam_lists for c in cl] + [2.0]) / cmax
    degany = any(len(c) > 1 for c in cl_all)
    judged = not (order == 2 and P1 and degany)
    viol, info, obs = [], [], {}
    nexec = 1
    status = "ok"
    for lname in sorted(lib):
        # forward value must agree first (cheap sanity, same tolerance class)
        fv = abs(float(lib[lname]) - float(ref[lname]))
        if fv > 1e-8 * max(1.0, abs(float(ref[lname]))) / min(gap_vec, 1.0):
            viol.append(V("loss-value-mismatch", {"lib": float(lib[lname]), "ref": float(ref[lname])},
                          loss=lname, **at0))
            continue
        ob = call(_grads, lib[lname], leaves, order, dirs)
        nexec += 1
        if cfg.get("degtol") and ob.exc is None:
            # the same backward pass once more on the retained graph: the options of the call hold for every pass
            ob = call(_grads, lib[lname], leaves, order, dirs)
            nexec += 1
        if ob.exc is not None:
            viol.append(V("backward-exception:%s" % ob.exc_sig, {"exc": repr(ob.exc)[:300]}, loss=lname, **at0))
            obs[lname] = "exc:" + ob.exc_sig[:60]
            status = "backward-exception"
            continue
        if ob.warned:
            obs[lname] = "convergence-warning"
            status = "warned"
            continue
        gref = _grads(ref[lname], leaves, order, dirs)
        gap = gap_vec
        if ref2 is not None:
            _selfcheck(names, _grads(ref2[lname], leaves, order, dirs), gref, order, gap, lname)
        obs[lname] = _compare(viol, info, "contour", lname, names, ob.value, gref, order, gap, judged, at0,
                              RTOL_DAVIDSON if cfg["method"] == "davidson" else RTOL)
    if info:
        obs["informational"] = info[:6]
        if status == "ok":
            status = "info-not-judged"
    if viol and status == "ok":
        status = "violation"
    return {"viol": viol, "obs": obs, "status": status, "n": nexec}


# ------------------------------------------------------------------ svd

def run_svd(cfg):
    from xitorch.linalg import svd
    dt = DT[cfg["dtype"]]
    cdt = torch.complex128
    m, n, k, order = cfg["m"], cfg["n"], cfg["k"], cfg["order"]
    r = min(m, n)
    g = _gen_for(cfg)
    bA = BATCH[cfg["batch"]][0]
    s = svals(cfg["sv"], r)
    s_t = torch.tensor(s, dtype=torch.float64)
    mode = cfg["mode"]
    sel = selected(r, k, mode)
    cl = [c for c in clusters(s, 0.0) if set(c) <= set(sel)]
    assert sum(len(c) for c in cl) == k
    degin = any(len(c) > 1 for c in cl)
    off = sel[0]
    U0 = orth(m, dt, g, bA)
    V0 = orth(n, dt, g, bA)
    P1 = cfg["param"] == "P1"
    if P1:
        A0 = (U0[..., :, :r] * s_t.to(dt)) @ hc(V0[..., :, :r])
        leaves = [A0.clone().requires_grad_()]
        names = ["A"]

        def build(lv):
            return lv[0]
    else:
        dist, tie = [], []
        for i, v in enumerate(s):
            if i > 0 and v == s[i - 1]:
                tie.append(len(dist) - 1)
            else:
                dist.append(v)
                tie.append(len(dist) - 1)
        RU = torch.triu(randn((m, m), dt, g)) + 2.0 * torch.eye(m, dtype=dt)
        RV = torch.triu(randn((n, n), dt, g)) + 2.0 * torch.eye(n, dtype=dt)
        leaves = [torch.tensor(dist, dtype=torch.float64).requires_grad_(),
                  (U0 @ RU).clone().requires_grad_(), (V0 @ RV).clone().requires_grad_()]
        names = ["a", "U", "V"]

        def build(lv):
            b = lv[0][tie].to(dt)
            Uq, _ = torch.linalg.qr(lv[1])
            Vq, _ = torch.linalg.qr(lv[2])
            return (Uq[..., :, :r] * b) @ hc(Vq[..., :, :r])

    dirs = [randn(tuple(l.shape), l.dtype, g) for l in leaves]
    W = [randn(bA + (m, n), dt, g) for _ in cl]
    nb = max(1, int(math.prod(bA)))
    cw = [torch.tensor([1.0, -0.7, 0.45, 1.6, -1.2, 0.8][j % 6]) * (1.0 + 0.5 * torch.arange(
        nb, dtype=torch.float64).reshape(bA if bA else ())) for j in range(len(cl))]

    def losses_from_triplets(u, sv, vh, offset):
        sval = 0.0
        rk = 0.0
        for j, c in enumerate(cl):
            idx = [i - offset for i in c]
            sval = sval + (cw[j] * sv[..., idx].sum(-1)).sum()
            T = (u[..., :, idx] * sv[..., idx].to(u.dtype).unsqueeze(-2)) @ vh[..., idx, :]
            rk = rk + torch.einsum("...ij,...ij->...", W[j].conj(), T).real.sum()
        return {"sval": sval, "rank1": rk}

    # spectrum of A^H A: (n - r) zeros, then s^2
    h = [0.0] * (n - r) + [x * x for x in s]
    h_b = torch.tensor(h, dtype=torch.float64).expand(bA + (n,))
    clh = [[i + (n - r) for i in c] for c in cl]
    circles = _circles(h_b, clh, n)

    def losses_contour(lv):
        A = build(lv)
        H = sym(hc(A) @ A)
        sval = 0.0
        rk = 0.0
        for j, c in enumerate(cl):
            P, S = contour(H, None, circles[j][0], circles[j][1])
            mult = float(len(c))
            sval = sval + (cw[j] * mult * torch.sqrt(S / mult)).sum()
            rk = rk + torch.einsum("...ij,...ij->...", W[j].conj().to(cdt), A.to(cdt) @ P).real.sum()
        return {"sval": sval, "rank1": rk}

    def losses_torch(lv):
        A = build(lv)
        u, sv, vh = torch.linalg.svd(A, full_matrices=False)          # descending
        return losses_from_triplets(u.flip(-1), sv.flip(-1), vh.flip(-2), 0)

    def fwd():
        A = build(leaves)
        Aop = gen_op(cfg["opkind"], A)
        kw = {} if cfg["method"] == "exacteig" else {"bck_options": dict(BCK[cfg["bck"]])}
        torch.manual_seed(4242)
        return svd(Aop, k=k, mode=mode, method=cfg["method"], **kw, **_fwd_opts(cfg, k, r))

    at0 = {"degin": int(degin)}
    o = call(fwd)
    if o.exc is not None:
        return {"viol": [V("forward-exception:%s" % o.exc_sig, {"exc": repr(o.exc)[:300]}, **at0)],
                "obs": {"fwd_exc": o.exc_sig}, "status": "forward-exception"}
    u, sv, vh = o.value
    if tuple(u.shape) != bA + (m, k) or tuple(sv.shape) != bA + (k,) or tuple(vh.shape) != bA + (k, n):
        return {"viol": [V("forward-shape-mismatch", {"u": list(u.shape)}, **at0)], "obs": {"shape": list(u.shape)},
                "status": "violation"}
    lib = losses_from_triplets(u, sv, vh, off)
    ref = losses_contour(leaves)
    ref2 = losses_torch(leaves) if cfg["sv"] == "sep" else None
    # conditioning in terms of the eigenproblem of A^H A, mapped back to singular values
    gap = min([gap_to_rest(h, c) for c in clh] + [2.0]) / (2.0 * s[-1])
    degany = any(len(c) > 1 for c in clusters(s, 0.0))
    judged = not (order == 2 and P1 and degany)
    viol, info, obs = [], [], {}
    nexec = 1
    status = "ok"
    for lname in sorted(lib):
        fv = abs(float(lib[lname]) - float(ref[lname]))
        if fv > 1e-8 * max(1.0, abs(float(ref[lname]))) / min(gap, 1.0):
            viol.append(V("loss-value-mismatch", {"lib": float(lib[lname]), "ref": float(ref[lname])},
                          loss=lname, **at0))
            continue
        ob = call(_grads, lib[lname], leaves, order, dirs)
        nexec += 1
        if ob.exc is not None:
            viol.append(V("backward-exception:%s" % ob.exc_sig, {"exc": repr(ob.exc)[:300]}, loss=lname, **at0))
            obs[lname] = "exc:" + ob.exc_sig[:60]
            status = "backward-exception"
            continue
        if ob.warned:
            obs[lname] = "convergence-warning"
            status = "warned"
            continue
        gref = _grads(ref[lname], leaves, order, dirs)
        if ref2 is not None:
            _selfcheck(names, _grads(ref2[lname], leaves, order, dirs), gref, order, gap, lname)
        obs[lname] = _compare(viol, info, "contour", lname, names, ob.value, gref, order, gap, judged, at0,
                              RTOL_DAVIDSON if cfg["method"] == "davidson" else RTOL)
    if info:
        obs["informational"] = info[:6]
        if status == "ok":
            status = "info-not-judged"
    if viol and status == "ok":
        status = "violation"
    return {"viol": viol, "obs": obs, "status": status, "n": nexec}


def run_case(cfg):
    import xitorch
    if cfg.get("debug"):
        xitorch.set_debug_mode(True)        # the forward call and every backward pass run in debug mode
    try:
        if cfg["fam"] == "symeig":
            return run_symeig(cfg)
        return run_svd(cfg)
    finally:
        xitorch.set_debug_mode(False)


def coverage_extra(tier, seed, results):
    fam = {}
    notjudged = 0
    for r in results:
        f = r["cfg"]["fam"]
        fam[f] = fam.get(f, 0) + 1
        if r["status"] == "info-not-judged":
            notjudged += 1
    return {"cases_by_family": fam, "informational_cases_not_judged": notjudged}
