"""C19 — calls do not keep tensors alive after their results are dropped.

Explicit exploration of usage histories on the real functionals: for every scenario (functional x method x
function/operator kind) every history over the events {F, FB, FG, FGG} up to a depth is replayed on a fresh
problem instance with the cyclic garbage collector disabled; after every event the number and total storage of
live torch.Tensor objects reported by gc.get_objects() must be back at the baseline."""
from __future__ import annotations
import gc
import itertools
import torch
from mc.util import V, gen
from mc.props import _scen_common as S

ID = "C19"
LEVEL = "model_checking"
DESIGN_REF = "DESIGN.md §5 C19"
RULE = ("case = scenario (functional in {solve, symeig, svd, rootfinder, equilibrium, minimize, solve_ivp, quad, "
        "mcquad, jac/hess products, Interp1D, SQuad}, every built-in method, kind in {dense, matrix-free} / {pure "
        "function, nn.Module method, EditableModule method} / object) [x first event in the thorough tier]; inside a "
        "case every history over the events F (forward, drop), FB (forward + autograd.grad), FG (forward + "
        "autograd.grad(create_graph=True), drop), FGG (FG + second autograd.grad) of length exactly D (all shorter "
        "histories are its prefixes and are checked as intermediate states) is replayed from a fresh problem "
        "instance, gc disabled; state = event history, observation = (live tensor count, storage bytes) relative to "
        "the baseline taken after the harness tensors exist; distinct = distinct per-scenario observation tables; a "
        "case is trivial when every event kind raised in the warm-up")
RULE_ADDED = 'Added later: variants maxrank, singE, diag, tsgrad, vary (values never seen before in the process) and large (600 samples / 300 nodes: code paths selected by a size threshold). Round 4: variants raises (failed calls are part of the history and must leave nothing behind) and debug (every event inside enable_debug). Round 6: variants cutoff (iterations cut off by maxiter) and anomaly (events inside torch.autograd.detect_anomaly). Round 7: variant nondiff (one parameter / the initial state is a tensor that does not require grad).'
ASSUMPTIONS = [
    "one discarded warm-up call of each event kind per case (lazily created torch / library globals are not the property)",
    "census = torch.Tensor objects in gc.get_objects() allocated after gc.freeze() (taken after the warm-up); "
    "count and bytes of unique storages, the project's own criterion (xitorch/_tests/utils.py) restricted to new objects",
    "gradients are taken with torch.autograd.grad (never .backward(), whose .grad accumulation with create_graph is a "
    "documented torch cycle); the harness keeps no reference to outputs, operators or exceptions",
    "an event kind that raises in the warm-up (e.g. create_graph through rk23/rk45, scipy_gmres on this toolchain) "
    "is removed from the event alphabet of that scenario and listed; it belongs to another property",
    "depth: quick 2; thorough 4 (3 for the adaptive Runge-Kutta and Monte-Carlo scenarios whose events cost > 50 ms)",
]
BUDGET_S = {"quick": 400, "thorough": 2400}
SELFTEST_N = 2

EVENTS = ["F", "FB", "FG", "FGG"]

# cheaper options than C18's: convergence is irrelevant here, every code path (incl. the not-converged one) is legal
OPT_OVERRIDE = {
    ("minimize", "adam"): {"step": 0.03, "maxiter": 40, "f_tol": 0.0, "f_rtol": 0.0, "x_tol": 1e-12, "x_rtol": 0.0},
    ("minimize", "gd"): {"step": 0.15, "gamma": 0.5, "maxiter": 60, "f_tol": 0.0, "f_rtol": 0.0, "x_tol": 1e-12, "x_rtol": 0.0},
    ("minimize", "linearmixing"): {"f_tol": 1e-8, "x_tol": 1e-8, "maxiter": 80, "alpha": -0.4},
    ("rootfinder", "linearmixing"): {"f_tol": 1e-8, "x_tol": 1e-8, "maxiter": 80, "alpha": -0.5},
    ("equilibrium", "linearmixing"): {"f_tol": 1e-8, "x_tol": 1e-8, "maxiter": 80, "alpha": -1.0},
    ("solve_ivp", "rk23"): {"rtol": 1e-4, "atol": 1e-6},
    ("solve_ivp", "rk45"): {"rtol": 1e-5, "atol": 1e-7},
    ("mcquad", "mh"): {"nsamples": 12, "nburnout": 4, "step_size": 0.8},
    ("mcquad", "mhcustom"): {"nsamples": 12, "nburnout": 4},
    ("mcquad", "_dummy1d"): {"nsamples": 12},
    ("quad", "leggauss"): {"n": 8},
}
EXPENSIVE = {("solve_ivp", "rk23"), ("solve_ivp", "rk45"), ("mcquad", "mh"), ("mcquad", "mhcustom"),
             ("mcquad", "_dummy1d"), ("minimize", "adam"), ("quad", "leggauss")}

METHODS = dict(S.BUILTINS)
METHODS["svd"] = ["exacteig", "custom_exacteig", "davidson"]
METHODS["jac"] = ["jac_mv", "jac_rmv", "jac_full", "hess_mv"]
KINDS = {"solve": ["dense", "mfree"], "symeig": ["dense", "mfree"], "svd": ["dense", "mfree"],
         "rootfinder": ["pure", "nnmod", "edmod"], "equilibrium": ["pure", "nnmod", "edmod"],
         "minimize": ["pure", "nnmod", "edmod"], "solve_ivp": ["pure", "nnmod", "edmod"],
         "quad": ["pure", "nnmod", "edmod"], "mcquad": ["pure", "nnmod", "edmod"],
         "jac": ["pure", "nnmod", "edmod"], "Interp1D": ["obj"], "SQuad": ["obj"]}
ORDER = ["solve", "symeig", "svd", "rootfinder", "equilibrium", "minimize", "solve_ivp", "quad", "mcquad", "jac",
         "Interp1D", "SQuad"]


# option / input deviations that drive a scenario through a rarely used branch of the implementation
#   maxrank : Broyden with a finite max_rank (rank reduction of the low-rank inverse Jacobian)
#   singE   : solve with a shift E that is EXACTLY an eigenvalue of a diagonal A (the direct solve first raises
#             LinAlgError and is retried with a regularised matrix)
#   diag    : symeig of a diagonal matrix (exact eigenvalues: the shifted solves of the implicit backward are
#             exactly singular and take the same retry branch)
VARIANTS = []
for _fn in ("rootfinder", "equilibrium", "minimize"):
    for _m in ("broyden1", "broyden2"):
        VARIANTS.append((_fn, _m, "pure", "maxrank"))
        VARIANTS.append((_fn, _m, "edmod", "maxrank"))
for _m in ("exactsolve", "custom_exactsolve", "cg"):
    VARIANTS.append(("solve", _m, "dense", "singE"))
VARIANTS.append(("solve", "exactsolve", "mfree", "singE"))
for _m in ("exacteig", "custom_exacteig", "davidson"):
    VARIANTS.append(("symeig", _m, "dense", "diag"))
#   tsgrad  : solve_ivp with a time grid that requires grad (the time gradients are accumulated in the backward)
for _m in ("rk4", "rk45", "euler"):
    for _k in ("pure", "edmod"):
        VARIANTS.append(("solve_ivp", _m, _k, "tsgrad"))
#   vary    : the values of all leaves (incl. tensor limits) change in place before every event, so that a cache
#             keyed by argument VALUES grows with every call (a warm-up with equal values would hide it)
VARY_FIRST = {"solve": "cg", "symeig": "davidson", "svd": "davidson", "rootfinder": "broyden1", "equilibrium": "anderson_acc",
              "minimize": "gd", "solve_ivp": "rk4", "quad": "leggauss", "mcquad": "_dummy1d", "jac": "jac_mv"}
for _fn, _m in VARY_FIRST.items():
    VARIANTS.append((_fn, _m, {"solve": "mfree", "symeig": "dense", "svd": "dense"}.get(_fn, "pure"), "vary"))
VARIANTS.append(("quad", "leggauss", "edmod", "vary"))
#   large   : sample / node counts well above the small ones used elsewhere (600 samples, 300 nodes): code paths
#             chosen by a size threshold (blocked or pairwise accumulation, chunked evaluation) are executed
for _m in ("mh", "mhcustom", "_dummy1d"):
    VARIANTS.append(("mcquad", _m, "pure", "large"))
    VARIANTS.append(("mcquad", _m, "edmod", "large"))
VARIANTS.append(("quad", "leggauss", "pure", "large"))
#   raises  : calls that FAIL inside the library (davidson cannot expand its search space because two of the three
#             requested eigenpairs are exact from the start: the unchanged library raises LinAlgError; solve with a
#             singular matrix and a direct method).  A failed call that the caller catches and drops must leave
#             nothing behind either: events that raise are part of the history instead of being skipped
#   debug   : every event inside xitorch.enable_debug() (the debug-mode pre-checks and wrappers run)
for _fn, _m in list(VARY_FIRST.items()) + [("solve_ivp", "rk45"), ("solve_ivp", "rk23"), ("rootfinder", "newton")]:
    VARIANTS.append((_fn, _m, {"solve": "mfree", "symeig": "mfree", "svd": "mfree"}.get(_fn, "edmod"), "debug"))
#   anomaly : every event inside torch.autograd.detect_anomaly() (code that is only active in that mode)
for _fn, _m in list(VARY_FIRST.items()) + [("symeig", "custom_exacteig"), ("solve", "custom_exactsolve")]:
    VARIANTS.append((_fn, _m, {"solve": "mfree", "symeig": "mfree", "svd": "mfree"}.get(_fn, "edmod"), "anomaly"))
#   zeroB   : solve with an exactly zero right-hand side (the shortcut that answers X = 0 without iterating)
#   jacA    : solve whose operator A is ONE long-lived Jacobian operator (xitorch.grad.jac of an EditableModule
#             method) created before the baseline census: whatever a call or its backward pass allocates must not
#             stay reachable through that operator afterwards
for _m in ("cg", "bicgstab", "gmres", "custom_exactsolve"):
    VARIANTS.append(("solve", _m, "mfree", "zeroB"))
for _m in ("bicgstab", "gmres", "custom_exactsolve"):
    VARIANTS.append(("solve", _m, "mfree", "jacA"))
#   cutoff  : iterations cut off by maxiter = 2 (every call ends with a ConvergenceWarning): the path that reports
#             non-convergence must not keep the function, its object or its tensors
for _fn in ("rootfinder", "equilibrium", "minimize"):
    for _m in ("newton", "broyden1", "broyden2", "linearmixing"):
        for _k in ("edmod", "nnmod"):
            VARIANTS.append((_fn, _m, _k, "cutoff"))
VARIANTS.append(("solve", "broyden1", "mfree", "cutoff"))
#   nondiff : one entry of the parameters (or the initial state) is a tensor that does NOT require grad, so the
#             library's separation of differentiable and other arguments has something to carry along
for _fn, _m in (("quad", "leggauss"), ("rootfinder", "broyden1"), ("equilibrium", "anderson_acc"), ("minimize", "gd"),
                ("solve_ivp", "rk4"), ("solve_ivp", "rk45"), ("mcquad", "mhcustom"), ("mcquad", "_dummy1d")):
    VARIANTS.append((_fn, _m, "pure", "nondiff"))
VARIANTS.append(("symeig", "davidson", "mfree", "raises"))
VARIANTS.append(("symeig", "davidson", "dense", "raises"))


def cases(tier, seed):
    out = []
    for fn in ORDER:
        for m in METHODS[fn]:
            for k in KINDS[fn]:
                if tier == "quick":
                    out.append({"functional": fn, "method": m, "kind": k, "depth": 2, "first": "*"})
                else:
                    depth = 3 if (fn, m) in EXPENSIVE else 4
                    for f in EVENTS:
                        out.append({"functional": fn, "method": m, "kind": k, "depth": depth, "first": f})
    for (fn, m, k, var) in VARIANTS:
        if tier == "quick":
            out.append({"functional": fn, "method": m, "kind": k, "depth": 2, "first": "*", "variant": var})
        else:
            for f in EVENTS:
                out.append({"functional": fn, "method": m, "kind": k, "depth": 3, "first": f, "variant": var})
    return out


# ------------------------------------------------------------------------------------------------ census

def census():
    """(number of live tensors, bytes of their unique storages) among objects created since gc.freeze()"""
    n = 0
    nbytes = 0
    seen = set()
    for o in gc.get_objects():
        if isinstance(o, torch.Tensor):
            n += 1
            try:
                if o.is_sparse:
                    continue
                st = o.untyped_storage()
                p = st.data_ptr()
                if p not in seen:
                    seen.add(p)
                    nbytes += st.nbytes()
            except Exception:
                pass
    return n, nbytes


# ------------------------------------------------------------------------------------------------ events

def _opts(fn, m):
    if (fn, m) in OPT_OVERRIDE:
        return dict(OPT_OVERRIDE[(fn, m)])
    if fn in ("svd",):
        return S.opts_of("symeig", m)
    if fn == "jac":
        return {}
    return S.opts_of(fn, m)


_VARY = [0]


class World:
    """fresh problem instance + the cotangents of the second-order event (all harness tensors live here)"""

    def __init__(self, cfg):
        fn, m = cfg["functional"], cfg["method"]
        var = cfg.get("variant")
        self.sc = S.make(fn, cfg["kind"], 0, **({"withE": True} if var == "singE" else {}))
        self.sc.track = False
        self.fn, self.m = fn, m
        self.fwd = _opts(fn, m)
        if var == "maxrank":
            self.fwd["max_rank"] = 3
        elif var == "cutoff":
            self.fwd["maxiter"] = 2         # the iterations are cut off: every call ends with a ConvergenceWarning
        elif var == "singE":
            sc = self.sc
            sc.a = torch.diag(torch.tensor([1.0, 2.0, 3.0], dtype=sc.a.dtype)).requires_grad_()
            sc.E = torch.tensor([2.0, 0.5], dtype=sc.a.dtype).requires_grad_()
            sc.leaves = [sc.a, sc.B, sc.E]
        elif var == "diag":
            sc = self.sc
            sc.a = torch.diag(torch.tensor([1.0, 2.0, 3.5, 5.0], dtype=sc.a.dtype)).requires_grad_()
            sc.leaves = [sc.a]
        elif var == "tsgrad":
            sc = self.sc
            sc.ts = sc.ts.detach().clone().requires_grad_()
            sc.leaves = list(sc.leaves) + [sc.ts]
        elif var == "nondiff":
            sc = self.sc
            if fn == "quad":
                sc.b = sc.b.detach().clone()
                sc.leaves = [sc.a, sc.xl, sc.xu]
            elif fn in ("rootfinder", "equilibrium", "minimize"):
                sc.b = sc.b.detach().clone()
                sc.leaves = [sc.A]
            elif fn == "solve_ivp":
                sc.y0 = sc.y0.detach().clone()
                sc.leaves = [sc.A]
            elif fn == "mcquad":
                sc.s = sc.s.detach().clone()
                sc.leaves = [sc.a]
        elif var == "zeroB":
            sc = self.sc
            sc.B = torch.zeros_like(sc.B).requires_grad_()
            sc.leaves = [sc.a, sc.B]
        elif var == "jacA":
            import xitorch
            import xitorch.grad
            sc = self.sc
            n_ = sc.B.shape[0]
            Wm = (torch.eye(n_, dtype=sc.a.dtype) * 2.0 + 0.3 * torch.cos(torch.arange(n_ * n_, dtype=sc.a.dtype)
                                                                            ).reshape(n_, n_)).requires_grad_()

            class _Res(xitorch.EditableModule):
                def __init__(self, w):
                    self.w = w

                def f(self, y):
                    return self.w @ y + 0.2 * torch.tanh(y)

                def getparamnames(self, methodname, prefix=""):
                    return [prefix + "w"]
            self._res = _Res(Wm)
            self._y0 = torch.linspace(-0.4, 0.6, n_, dtype=sc.a.dtype).requires_grad_()
            self._J = xitorch.grad.jac(self._res.f, (self._y0,), idxs=0)
            sc.op = lambda: self._J
            sc.leaves = [Wm, sc.B]
        elif var == "raises":
            sc = self.sc
            n = 8
            gb = gen(123)
            blk = torch.randn(n - 2, n - 2, dtype=sc.a.dtype, generator=gb)
            mat = torch.zeros(n, n, dtype=sc.a.dtype)
            mat[0, 0], mat[1, 1] = 1.0, 2.0
            mat[2:, 2:] = (blk + blk.T) + 10.0 * torch.eye(n - 2, dtype=sc.a.dtype)
            sc.a = mat.requires_grad_()
            sc.leaves = [sc.a]
            sc.neig = 3
            sc.C = torch.eye(n, dtype=sc.a.dtype)
            sc.w = torch.tensor([0.7, -0.4, 0.2], dtype=sc.a.dtype)
            self.fwd.update({"v_init": "eye", "min_eps": 1e-9})
        elif var == "large":
            if fn == "mcquad":
                self.fwd["nsamples"] = 600
            else:
                self.fwd["n"] = 300
        self.vary = var == "vary"
        self.debug = var == "debug"
        self.anomaly = var == "anomaly"
        # (harness tensors are created here, before the baseline census)
        self.base = [l.detach().clone() for l in self.sc.leaves] if self.vary else None
        if fn == "mcquad":
            self.fwd = self.sc.fix(m, self.fwd)
        g = gen(19)
        self.R = [torch.randn(l.shape, dtype=l.dtype, generator=g) for l in self.sc.leaves]

    def run(self, ev):
        if self.anomaly:
            # torch's anomaly detection (a debugging aid of the caller) switched on around every event
            with torch.autograd.detect_anomaly(check_nan=False):
                return self._run(ev)
        if self.debug:
            import xitorch
            with xitorch.enable_debug():
                return self._run(ev)
        return self._run(ev)

    def _run(self, ev):
        """executes one event; every library result dies when this frame returns"""
        sc = self.sc
        if self.vary:
            # values never seen before in this process (also not in the warm-up or in an earlier history)
            _VARY[0] += 1
            with torch.no_grad():
                for l, b in zip(sc.leaves, self.base):
                    l.copy_(b * (1.0 + 2.0 ** -13 * _VARY[0]))
        outs = sc.call(self.m, dict(self.fwd), {})
        if ev == "F":
            return
        loss = sc.loss(outs)
        if ev == "FB":
            torch.autograd.grad(loss, sc.leaves, allow_unused=True)
            return
        g1 = torch.autograd.grad(loss, sc.leaves, create_graph=True, allow_unused=True)
        if ev == "FG":
            return
        s = None
        for g, r in zip(g1, self.R):
            if g is not None and g.requires_grad:
                t = (g * r).sum()
                s = t if s is None else s + t
        if s is not None:
            torch.autograd.grad(s, sc.leaves, allow_unused=True)


def _collect_all():
    """the collector may need several passes when Python objects are released from C++ destructors"""
    for _ in range(6):
        if gc.collect() == 0:
            break


def _safe_run(world, ev):
    """returns None or an exception signature; keeps no reference to the exception (its traceback holds frames)"""
    sig = None
    try:
        world.run(ev)
    except Exception as e:           # library exception: data
        sig = "%s:%s" % (type(e).__name__, str(e).strip().split("\n")[0][:70])
        e.__traceback__ = None
        del e
    return sig


# ------------------------------------------------------------------------------------------------ the search

def run_case(cfg):
    depth = cfg["depth"]
    viol = {}
    table = {}
    states = set()
    transitions = 0
    n_exec = 0
    skipped = {}
    gc_was_enabled = gc.isenabled()
    _collect_all()
    # ---- warm-up: one discarded call of each event kind, on its own instance
    w = World(cfg)
    for ev in EVENTS:
        sig = _safe_run(w, ev)
        n_exec += 1
        if sig is not None:
            skipped[ev] = sig
    del w
    _collect_all()
    keep_raising = cfg.get("variant") == "raises"
    alphabet = list(EVENTS) if keep_raising else [e for e in EVENTS if e not in skipped]
    firsts = alphabet if cfg["first"] == "*" else [e for e in alphabet if e == cfg["first"]]
    hists = []
    if alphabet and firsts:
        for f in firsts:
            for rest in itertools.product(alphabet, repeat=depth - 1):
                hists.append((f,) + rest)
    gc.disable()
    gc.freeze()
    try:
        for hist in hists:
            world = World(cfg)
            base = census()
            prev = base
            incs = []
            broken = None
            for k, ev in enumerate(hist):
                sig = _safe_run(world, ev)
                n_exec += 1
                transitions += 1
                if sig is not None and not keep_raising:
                    broken = (k, ev, sig)
                    break
                cur = census()
                inc = (cur[0] - prev[0], cur[1] - prev[1])
                prev = cur
                incs.append(inc)
                states.add(hist[:k + 1])
                key = "%d:%s" % (k, ev)
                t = table.setdefault(key, {})
                ik = "%+d/%+dB" % inc
                t[ik] = t.get(ik, 0) + 1
            total = (prev[0] - base[0], prev[1] - base[1])
            after = None
            if total != (0, 0) or any(i != (0, 0) for i in incs):
                _collect_all()
                c2 = census()
                after = (c2[0] - base[0], c2[1] - base[1])
                for k, inc in enumerate(incs):
                    if inc == (0, 0):
                        continue
                    ev = hist[k]
                    cyc = after == (0, 0)
                    failure = "tensors-kept-alive:%s" % ("reference-cycle" if cyc else "not-collectable")
                    vk = (failure, ev)
                    if vk not in viol or len(viol[vk]["detail"]["history"]) > len(hist[:k + 1]):
                        viol[vk] = V(failure,
                                     {"history": list(hist[:k + 1]), "increment_tensors": inc[0], "increment_bytes": inc[1],
                                      "increments_along_full_history": [list(i) for i in incs], "full_history": list(hist),
                                      "delta_after_final_gc_collect": list(after)},
                                     event=ev, hist_len=k + 1)
            if broken is not None:
                k, ev, sig = broken
                vk = ("exception", ev, sig)
                if vk not in viol:
                    viol[vk] = V("exception-in-history:%s" % sig[:60],
                                 {"history": list(hist[:k + 1]), "exc": sig,
                                  "note": "this event kind did not raise in the warm-up call"}, event=ev, hist_len=k + 1)
            del world
            _collect_all()
    finally:
        gc.unfreeze()
        if gc_was_enabled:
            gc.enable()
        _collect_all()
    status = "ok"
    if skipped:
        status = "skipped-other-property" if not alphabet else "partial:skipped-other-property"
    if viol:
        status = "violation"
    obs = {"scenario": "%s/%s/%s%s" % (cfg["functional"], cfg["method"], cfg["kind"], ("/" + cfg["variant"]) if cfg.get("variant") else ""), "events": alphabet, "skipped": skipped, "histories": len(hists), "table": table}
    return {"viol": list(viol.values()), "obs": obs, "trivial": not alphabet, "status": status, "n": n_exec,
            "states": len(states), "transitions": transitions}


def coverage_extra(tier, seed, results):
    scen = set()
    sk = {}
    maxdepth = 0
    for r in results:
        c = r["cfg"]
        scen.add((c["functional"], c["method"], c["kind"]))
        maxdepth = max(maxdepth, c["depth"])
        o = r.get("obs")
        if isinstance(o, dict):
            for ev, sig in (o.get("skipped") or {}).items():
                k = "%s/%s/%s" % (c["functional"], c["method"], ev)
                sk[k] = sig[:60]
    return {"scenarios": len(scen), "max_depth": maxdepth, "events": EVENTS,
            "skipped_event_kinds": dict(sorted(sk.items())[:60]),
            "n_skipped_event_kinds": len(sk)}
