"""Call-order (history) exploration in fresh interpreters, shared by several property modules.

State that survives between two calls of the library in one process (module-level or class-level caches, mutable
default arguments, converted constants stored on a class, ...) makes the result of a call depend on what was
called before.  The lattice cases of a property module cannot see that reliably: they run in long-lived worker
processes in an order chosen by the scheduler.  Here every sequence of calls (all ordered tuples over a small
alphabet of calls that differ in dtype / method / size / options) is executed in a FRESH interpreter and every
result is compared with the result of the same call made FIRST in a fresh interpreter.

A property module supplies
    PRELUDE  python source defining  do(i) -> list of floats  (the flattened result of call number i) and NCALLS
    TOL      relative tolerance per call (0.0 = bitwise; direct / fixed-step computations only - an iterative method
             may change its iteration count by one ulp of difference)
"""
from __future__ import annotations
import itertools
import json

from mc.util import V, fresh_python

_MAIN = r'''
import json, sys, torch
torch.set_num_threads(1)
__SEQ__ = json.loads(%r)
out = []
for __i in __SEQ__:
    r = do(__i)
    out.append([float(v).hex() for v in r])
print(json.dumps(out))
'''


def hist_cases(ncalls, depth, tag="history"):
    """depth 2: one case per unordered pair {i, j}; the case runs (i, j) and (j, i) in two fresh interpreters and
    compares the second result of each with the FIRST result of the other (a call made first in a fresh interpreter
    is its own baseline) - every ordered pair is covered without separate baseline runs.
    depth 3: all ordered triples, baselines cached per worker process."""
    out = []
    if depth == 2:
        for i in range(ncalls):
            for j in range(i + 1, ncalls):
                out.append({"kind": tag, "seq": [i, j], "sym": 1})
        return out
    for seq in itertools.product(range(ncalls), repeat=depth):
        if len(set(seq)) == 1:
            continue
        out.append({"kind": tag, "seq": list(seq)})
    return out


def spread(cases, hist):
    """insert the (expensive) history cases evenly so that they do not share one work chunk"""
    stride = max(1, len(cases) // max(1, len(hist)))
    for k, h in enumerate(hist):
        cases.insert(min(len(cases), 5 + k * (stride + 1)), h)
    return cases


def _run(prelude, seq):
    code = prelude + "\n" + (_MAIN % json.dumps(list(seq)))
    return fresh_python(code)


_BASE = {}


def _differs(got, base, t):
    if len(got) != len(base):
        return {"length": [len(got), len(base)]}
    if t == 0.0:
        if got != base:
            return {"max_abs_difference": max(abs(float.fromhex(a) - float.fromhex(b)) for a, b in zip(got, base)),
                    "bitwise": True}
        return None
    a = [float.fromhex(v) for v in got]
    b = [float.fromhex(v) for v in base]
    sc = max([1.0] + [abs(v) for v in b])
    d = max([abs(x - y) for x, y in zip(a, b)] + [0.0])
    if not d <= t * sc:
        return {"max_abs_difference": d, "tol": t * sc}
    return None


def run_pair(key, prelude, labels, i, j, tol):
    """both orders of the pair {i, j}, each in a fresh interpreter"""
    rij, e1 = _run(prelude, [i, j])
    rji, e2 = _run(prelude, [j, i])
    viol = []
    for err, seq in ((e1, (i, j)), (e2, (j, i))):
        if err is not None:
            viol.append(V("history:exception-in-fresh-interpreter", {"error": err, "sequence": [labels[k] for k in seq]}))
    if not viol:
        for (seqres, base, second, first) in ((rij, rji, j, i), (rji, rij, i, j)):
            bad = _differs(seqres[1], base[0], tol[second])
            if bad is not None:
                bad.update({"sequence": [labels[first], labels[second]], "position": 1, "call": labels[second],
                            "baseline": "the same call made first in a fresh interpreter"})
                viol.append(V("history:result-depends-on-earlier-calls", bad, position=1))
    return {"viol": viol, "obs": {"pair": [i, j]}, "status": "violation" if viol else "ok", "n": 2, "states": 4,
            "transitions": 4}


def run_history(key, prelude, labels, seq, tol, sym=False):
    """key: cache key of the property; labels[i]: human readable description of call i; tol[i] relative tolerance"""
    if sym and len(seq) == 2:
        return run_pair(key, prelude, labels, seq[0], seq[1], tol)
    res, err = _run(prelude, seq)
    named = [labels[i] for i in seq]
    if err is not None:
        return {"viol": [V("history:exception-in-fresh-interpreter", {"error": err, "sequence": named})],
                "obs": {"err": err[:80]}, "status": "violation", "n": len(seq), "states": len(seq),
                "transitions": len(seq)}
    viol = []
    nexec = len(seq)
    worst = 0.0
    for k, i in enumerate(seq):
        if (key, i) not in _BASE:
            b, e2 = _run(prelude, [i])
            nexec += 1
            if e2 is not None:
                raise RuntimeError("baseline call %r failed in a fresh interpreter: %s" % (labels[i], e2))
            _BASE[(key, i)] = b[0]
        base = _BASE[(key, i)]
        got = res[k]
        bad = None
        if len(got) != len(base):
            bad = {"length": [len(got), len(base)]}
        elif tol[i] == 0.0:
            if got != base:
                d = max(abs(float.fromhex(a) - float.fromhex(b)) for a, b in zip(got, base))
                bad = {"max_abs_difference": d, "bitwise": True}
        else:
            a = [float.fromhex(v) for v in got]
            b = [float.fromhex(v) for v in base]
            sc = max([1.0] + [abs(v) for v in b])
            d = max([abs(x - y) for x, y in zip(a, b)] + [0.0])
            worst = max(worst, d / (tol[i] * sc))
            if not d <= tol[i] * sc:
                bad = {"max_abs_difference": d, "tol": tol[i] * sc}
        if bad is not None:
            bad.update({"sequence": named, "position": k, "call": labels[i]})
            viol.append(V("history:result-depends-on-earlier-calls", bad, position=k))
            break
    return {"viol": viol, "obs": {"seq": list(seq), "worst": round(worst, 3)}, "status": "violation" if viol else "ok",
            "n": nexec, "states": len(seq), "transitions": len(seq)}
