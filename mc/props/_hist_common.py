"""Call-order (history) exploration in fresh interpreters, shared by several property modules.

State that survives between two calls of the library in one process (module-level or class-level caches, mutable
default arguments, converted constants stored on a class, ...) makes the result of a call depend on what was
called before.  The lattice cases of a property module cannot see that reliably: they run in long-lived worker
processes in an order chosen by the scheduler.  Here every sequence of calls (all ordered tuples over a small
alphabet of calls that differ in dtype / method / size / options) is executed in a FRESH interpreter and every
result is compared with the result of the same call made FIRST in a fresh interpreter.

A property module supplies
    PRELUDE  python source defining  do(i) -> list of floats  (the flattened result of call number i) and NCALLS
    TOL      relative tolerance per call (0.0 = bitwise; direct / fixed-step computations only - an iterative method
             may change its iteration count by one ulp of difference)
"""
from __future__ import annotations
import itertools
import json

from mc.util import V, fresh_python

_MAIN = r'''
import json, sys, torch
torch.set_num_threads(1)
__SEQ__ = json.loads(%r)
out = []
for __i in __SEQ__:
    r = do(__i)
    out.append([float(v).hex() for v in r])
print(json.dumps(out))
'''


def hist_cases(ncalls, depth, tag="history"):
    out = []
    for seq in itertools.product(range(ncalls), repeat=depth):
        if len(set(seq)) == 1:
            continue
        out.append({"kind": tag, "seq": list(seq)})
    return out


def spread(cases, hist):
    """insert the (expensive) history cases evenly so that they do not share one work chunk"""
    stride = max(1, len(cases) // max(1, len(hist)))
    for k, h in enumerate(hist):
        cases.insert(min(len(cases), 5 + k * (stride + 1)), h)
    return cases


def _run(prelude, seq):
    code = prelude + "\n" + (_MAIN % json.dumps(list(seq)))
    return fresh_python(code)


_BASE = {}


def run_history(key, prelude, labels, seq, tol):
    """key: cache key of the property; labels[i]: human readable description of call i; tol[i] relative tolerance"""
    res, err = _run(prelude, seq)
    named = [labels[i] for i in seq]
    if err is not None:
        return {"viol": [V("history:exception-in-fresh-interpreter", {"error": err, "sequence": named})],
                "obs": {"err": err[:80]}, "status": "violation", "n": len(seq), "states": len(seq),
                "transitions": len(seq)}
    viol = []
    nexec = len(seq)
    worst = 0.0
    for k, i in enumerate(seq):
        if (key, i) not in _BASE:
            b, e2 = _run(prelude, [i])
            nexec += 1
            if e2 is not None:
                raise RuntimeError("baseline call %r failed in a fresh interpreter: %s" % (labels[i], e2))
            _BASE[(key, i)] = b[0]
        base = _BASE[(key, i)]
        got = res[k]
        bad = None
        if len(got) != len(base):
            bad = {"length": [len(got), len(base)]}
        elif tol[i] == 0.0:
            if got != base:
                d = max(abs(float.fromhex(a) - float.fromhex(b)) for a, b in zip(got, base))
                bad = {"max_abs_difference": d, "bitwise": True}
        else:
            a = [float.fromhex(v) for v in got]
            b = [float.fromhex(v) for v in base]
            sc = max([1.0] + [abs(v) for v in b])
            d = max([abs(x - y) for x, y in zip(a, b)] + [0.0])
            worst = max(worst, d / (tol[i] * sc))
            if not d <= tol[i] * sc:
                bad = {"max_abs_difference": d, "tol": tol[i] * sc}
        if bad is not None:
            bad.update({"sequence": named, "position": k, "call": labels[i]})
            viol.append(V("history:result-depends-on-earlier-calls", bad, position=k))
            break
    return {"viol": viol, "obs": {"seq": list(seq), "worst": round(worst, 3)}, "status": "violation" if viol else "ok",
            "n": nexec, "states": len(seq), "transitions": len(seq)}
