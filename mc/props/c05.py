"""C05 — symeig / svd return the requested, correctly normalised spectral pairs.

Bounded-exhaustive exploration of the real `xitorch.linalg.symeig` / `svd` over a finite lattice of
(method, M, operator kind, batch pattern, n, neig, mode spelling, spectrum class, dtype, Davidson options);
oracle = spectrum known by construction + Cholesky-reduced torch.linalg.eigh of the dense pair."""
from __future__ import annotations
import math
import torch
from mc.util import V, call, gen, randn, orth, spd, rnd, abserr
from mc.props._eig_common import (DT, hc, sym, spectrum, clusters, selected, gap_to_rest, herm_op, gen_op,
                                  ref_eigh)

ID = "C05"
LEVEL = "exploration"
DESIGN_REF = "DESIGN.md §5 C05"
RULE = ("case = one point of a union of complete sub-lattices.  core: method {None, exacteig, custom_exacteig, "
        "davidson(real)} x M {absent, present} x operator kind {dense Hermitian-flagged, matrix-free mv-only, "
        "sum (matrix-free + dense), product G^H G of a matrix-free rectangular G flagged Hermitian} x n x neig in "
        "1..n x mode {lowest, uppest} x spectrum class {sep (mixed sign), clus (gap 5e-4), deg2, deg3, neg, pos} x "
        "dtype {f64, c128 (not davidson)}; batch: all 5 (A, M) batch patterns x methods x M x {dense, mfree} on "
        "n = 3; spelling: mode in {uppermost, Uppest, LOWEST, UpperMost, Lowest}; davopt: v_init x nguess x min_eps "
        "x n up to 12 (40 thorough); svd: shape {tall, wide, square} x k in 1..min(m, n) x mode x method x operator "
        "kind x batch x dtype x {separated, repeated} singular values; reject: non-Hermitian A / M, M of other size, "
        "non-broadcastable batches, for every method.  thorough: n up to 8 in core, batch patterns on n in {2, 5}, "
        "extra value planes drawn from VERIF_SEED.  distinct = distinct rounded observation (eigenvalues, residuals); "
        "no case is trivial")
RULE_ADDED = ("Added later: reuse (same operator objects after an in-place update of their tensors), the caller's g"
              'rad mode (torch.no_grad(), operands requiring grad), call-order plane in fresh interpreters. Round 4'
              ': svd of square Hermitian indefinite operators (flag detected / given / matrix-free). Round 7: davidson option max_addition in {1, neig, neig + 2} (also on spectrum edge: outermost pair far outside, interior compressed); svd of the same operator in other units (times 1e-8 / 1e7).')
ASSUMPTIONS = [
    "A = L Q diag(lam) Q^H L^H, M = c L L^H with Q from QR of a fixed generator stream, kappa(L L^H) = 3, c in "
    "[0.75, 1.5] per M batch element: the exact generalised spectrum is lam / c",
    "davidson is exercised on real dtypes only (its inner products are not conjugated) with max_niter, nguess, "
    "v_init and min_eps passed explicitly; its eigenvalue/projector tolerances are derived from min_eps",
    "svd inputs have full rank with condition number <= 6 (svd is documented as eigendecomposition of A^H A)",
    "a rejection is any exception for invalid input (RuntimeError for the documented ones); returning is a violation",
]
BUDGET_S = {"quick": 600, "thorough": 3000}

BATCH = {           # name -> (batch of A, batch of M)
    "-": ((), ()),
    "2|": ((2,), ()),
    "|2": ((), (2,)),
    "21|13": ((2, 1), (1, 3)),
    "1|2": ((1,), (2,)),
    # batch shapes of different rank whose sizes would clash if compared from the left
    "21|3": ((2, 1), (3,)),
    "3|21": ((3,), (2, 1)),
}
METHODS = [None, "exacteig", "custom_exacteig", "davidson"]
DAV_DEFAULT = {"v_init": "randn", "nguess": 0, "min_eps": 1e-9}


def _spectra_for(opkind, n):
    if opkind == "prod":
        sp = ["pos", "pclus", "pdeg2", "pdeg3"]
    else:
        sp = ["sep", "clus", "deg2", "deg3", "neg", "pos"]
    if n == 1:
        return [s for s in sp if s in ("sep", "neg", "pos")]
    if n == 2:
        return [s for s in sp if not s.endswith("deg3")]
    return sp


def _sym_case(method, M, opkind, batch, n, neig, mode, spec, dtype, dav=None, plane=0):
    c = {"fam": "symeig", "method": method, "M": M, "opkind": opkind, "batch": batch, "n": n, "neig": neig,
         "mode": mode, "spectrum": spec, "dtype": dtype, "plane": plane}
    if method == "davidson":
        d = dict(DAV_DEFAULT)
        if dav:
            d.update(dav)
        c.update(d)
    return c


def cases(tier, seed):
    thorough = tier != "quick"
    out = []
    mdt = [(m, d) for m in METHODS for d in ("f64", "c128") if not (m == "davidson" and d == "c128")]

    # ---- reject
    for m in METHODS:
        for opkind in ("dense", "mfree"):
            for what in ("A-nonherm", "M-nonherm", "M-size", "batch-mismatch"):
                out.append({"fam": "reject", "what": what, "method": m, "opkind": opkind, "n": 3})

    # ---- spelling
    for mode in ("uppermost", "Uppest", "LOWEST", "UpperMost", "Lowest"):
        for m in METHODS:
            for M in (0, 1):
                for neig in (1, 2):
                    out.append(_sym_case(m, M, "dense", "-", 3, neig, mode, "sep", "f64"))

    # ---- core
    ns = [1, 2, 3, 5, 6] + ([8] if thorough else [])
    for n in ns:
        for (m, d) in mdt:
            for M in (0, 1):
                for opkind in ("dense", "mfree", "sum", "prod"):
                    for spec in _spectra_for(opkind, n):
                        for neig in range(1, n + 1):
                            for mode in ("lowest", "uppest"):
                                out.append(_sym_case(m, M, opkind, "-", n, neig, mode, spec, d))

    # ---- reuse: the same operator objects again after an in-place update of their tensors
    for n in ([3, 6] if not thorough else [2, 3, 5, 6]):
        for (m, d) in mdt:
            for M in (0, 1):
                for opkind in ("dense", "mfree"):
                    for neig in (1, n):
                        for mode in ("lowest", "uppest"):
                            c = _sym_case(m, M, opkind, "-", n, neig, mode, "sep", d)
                            c["reuse"] = 1
                            out.append(c)

    # ---- grad mode of the caller: under torch.no_grad() / with operands that require grad
    for n in ([3] if not thorough else [2, 3, 6]):
        for (m, d) in mdt:
            for M in (0, 1):
                for opkind in ("dense", "mfree"):
                    for neig in sorted({1, n}):
                        for mode in ("lowest", "uppest"):
                            for gm in ("ng", "rg"):
                                c = _sym_case(m, M, opkind, "-", n, neig, mode, "sep", d)
                                c["gm"] = gm
                                out.append(c)

    # ---- batch
    for n in ([3] if not thorough else [2, 3, 5]):
        for b in BATCH:
            if b == "-":
                continue
            for (m, d) in mdt:
                for M in (0, 1):
                    if M == 0 and b == "|2":
                        continue
                    for opkind in ("dense", "mfree") + (("sum", "prod") if thorough else ()):
                        for spec in (("pos", "pdeg2") if opkind == "prod" else ("sep", "deg2")):
                            for neig in range(1, n + 1):
                                for mode in ("lowest", "uppest"):
                                    out.append(_sym_case(m, M, opkind, b, n, neig, mode, spec, d))

    # ---- davidson options
    for n in ([6, 12, 30] if not thorough else [6, 12, 20, 30, 40]):
        for v_init in ("randn", "rand", "eye"):
            for extra in (0, 2):
                for min_eps in (1e-6, 1e-9):
                    for M in (0, 1):
                        for opkind in ("dense", "mfree"):
                            for spec in ("sep", "deg2", "clus"):
                                for neig in (1, 2, 3):
                                    for mode in ("lowest", "uppest"):
                                        out.append(_sym_case("davidson", M, opkind, "-", n, neig, mode, spec, "f64",
                                                             dav={"v_init": v_init, "nguess": extra,
                                                                  "min_eps": min_eps}))
                                        if v_init == "randn" and min_eps == 1e-9:
                                            if spec == "sep" and n >= 12:
                                                # spectrum whose outermost pair converges long before the others
                                                for madd in sorted({1, neig, neig + 2} - ({neig} if extra else set())):
                                                    out.append(_sym_case("davidson", M, opkind, "-", n, neig, mode,
                                                                         "edge", "f64",
                                                                         dav={"v_init": v_init, "nguess": extra,
                                                                              "min_eps": min_eps,
                                                                              "max_addition": madd}))
                                            # documented option max_addition (number of new guesses per iteration)
                                            # below, at and above neig: same pairs, same accuracy
                                            for madd in sorted({1, neig, neig + 2} - ({neig} if extra else set())):
                                                out.append(_sym_case("davidson", M, opkind, "-", n, neig, mode, spec,
                                                                     "f64", dav={"v_init": v_init, "nguess": extra,
                                                                                 "min_eps": min_eps,
                                                                                 "max_addition": madd}))

    # ---- svd
    shapes = [(1, 1), (2, 2), (3, 3), (5, 5), (3, 2), (5, 3), (6, 4), (2, 3), (3, 5), (4, 6)]
    if thorough:
        shapes += [(8, 8), (8, 3), (3, 8), (7, 6), (6, 7)]
    for (mm, nn) in shapes:
        for (m, d) in mdt:
            for opkind in ("dense", "mfree"):
                for sv in ("sep", "rep"):
                    if sv == "rep" and min(mm, nn) < 2:
                        continue
                    for b in ("-", "2", "21", "2mag"):
                        if b != "-" and (mm, nn) not in ((3, 3), (5, 3), (3, 5)) and not thorough:
                            continue
                        if b == "2mag" and m == "davidson":
                            continue    # its stopping test (min_eps) is absolute: not scale free by design
                        for k in range(1, min(mm, nn) + 1):
                            for mode in ("uppest", "lowest") + (("Uppermost",) if (mm, nn) == (3, 3) else ()):
                                c = {"fam": "svd", "method": m, "opkind": opkind, "m": mm, "n": nn, "k": k,
                                     "mode": mode, "sv": sv, "batch": b, "dtype": d, "plane": 0}
                                if m == "davidson":
                                    c.update(DAV_DEFAULT)
                                out.append(c)
                                if b == "-" and m != "davidson" and (mm, nn) in ((3, 3), (5, 3), (3, 5), (2, 2)):
                                    # the same operator in other units (whole operator times 1e-8 / 1e7): singular
                                    # values scale with it, the factors do not change
                                    for mag in (1e-8, 1e7):
                                        out.append(dict(c, mag=mag))

    # ---- svd of square Hermitian indefinite operators (flag detected / given by the caller / matrix-free)
    for nn in ((3, 5) if not thorough else (2, 3, 5, 6)):
        for (m, d) in mdt:
            for opkind in ("dense", "hflag", "mfree"):
                for b in ("-", "2"):
                    for k in range(1, nn + 1):
                        for mode in ("uppest", "lowest"):
                            c = {"fam": "svd", "method": m, "opkind": opkind, "m": nn, "n": nn, "k": k, "mode": mode,
                                 "sv": "symind", "batch": b, "dtype": d, "plane": 0}
                            if m == "davidson":
                                c.update(DAV_DEFAULT)
                            out.append(c)

    # ---- extra value planes (thorough): numeric instance chosen by VERIF_SEED
    if thorough:
        for plane in (1, 2, 3):
            for n in (3, 6):
                for (m, d) in mdt:
                    for M in (0, 1):
                        for opkind in ("dense", "mfree"):
                            for spec in ("sep", "clus", "deg2", "deg3"):
                                for neig in range(1, n + 1):
                                    for mode in ("lowest", "uppest"):
                                        out.append(_sym_case(m, M, opkind, "-", n, neig, mode, spec, d, plane=plane))
        for c in out:
            if c.get("plane"):
                c["vseed"] = int(seed)
    return out


# ------------------------------------------------------------------ problem construction

def _gen_for(cfg):
    p = cfg.get("plane", 0)
    return gen(0 if p == 0 else 7919 * (int(cfg.get("vseed", 0)) + 1) + p)


def build_symeig(cfg):
    dt = DT[cfg["dtype"]]
    n = cfg["n"]
    g = _gen_for(cfg)
    lam = spectrum(cfg["spectrum"], n)
    lam_t = torch.tensor(lam, dtype=torch.float64)
    bA, bM = BATCH[cfg["batch"]]
    Q = orth(n, dt, g, bA)
    useM = bool(cfg["M"])
    if useM:
        Mb = sym(spd(n, 3.0, dt, g))
        L = torch.linalg.cholesky(Mb)
        nb = int(math.prod(bM)) if bM else 1
        cs = (0.75 + 0.75 * torch.arange(nb, dtype=torch.float64) / max(nb - 1, 1)).reshape(bM) if bM else \
            torch.tensor(1.0, dtype=torch.float64)
        Mmat = sym(cs.to(dt)[..., None, None] * Mb)
    else:
        L = torch.eye(n, dtype=dt)
        cs = torch.tensor(1.0, dtype=torch.float64)
        Mmat = None
    aux = None
    if cfg["opkind"] == "prod":
        U = orth(n + 1, dt, g, bA)[..., :, :n]
        G = (U * lam_t.sqrt().to(dt)) @ hc(Q) @ hc(L)           # (*bA, n+1, n)
        Amat = sym(hc(G) @ G)
        aux = G
    else:
        Amat = sym(L @ ((Q * lam_t.to(dt)) @ hc(Q)) @ hc(L))
        if cfg["opkind"] == "sum":
            aux = sym(randn((n, n), dt, g)) * 0.5
    bshape = tuple(torch.broadcast_shapes(tuple(bA), tuple(bM) if useM else ()))
    lam_b = (lam_t / cs[..., None]).expand(bshape + (n,)) if useM else lam_t.expand(bshape + (n,))
    return {"A": Amat, "M": Mmat, "aux": aux, "lam": lam, "lam_b": lam_b, "bshape": bshape, "cs": cs}


def _upper(mode):
    return mode.lower() in ("uppest", "uppermost")


def _fwd_opts(cfg):
    if cfg["method"] != "davidson":
        return {}
    neig = cfg.get("neig", cfg.get("k"))
    nmax = cfg["n"] if cfg["fam"] == "symeig" else min(cfg["m"], cfg["n"])
    o = {"v_init": cfg["v_init"], "nguess": min(neig + cfg["nguess"], nmax), "min_eps": cfg["min_eps"],
         "max_niter": 1000}
    if cfg.get("max_addition"):
        o["max_addition"] = cfg["max_addition"]
    return o


# ------------------------------------------------------------------ run: symeig

def run_symeig(cfg):
    from xitorch.linalg import symeig
    pb = build_symeig(cfg)
    n, neig = cfg["n"], cfg["neig"]
    A, M = pb["A"], pb["M"]
    dt = A.dtype
    dav = cfg["method"] == "davidson"
    mode = "uppest" if _upper(cfg["mode"]) else "lowest"
    sel = selected(n, neig, mode)
    bshape = pb["bshape"]

    # dense reference; harness self-check: construction and recomputation agree
    Ab = A.expand(bshape + (n, n))
    Mb = None if M is None else M.expand(bshape + (n, n))
    e_ref, x_ref = ref_eigh(Ab, Mb)
    if abserr(e_ref, pb["lam_b"]) > 1e-11:
        raise AssertionError("harness: constructed spectrum and recomputed reference disagree: %g"
                             % abserr(e_ref, pb["lam_b"]))

    if cfg.get("reuse"):
        # object history: the operator objects are first used on other matrices; the SAME tensors are then updated
        # in place (as an optimiser step does) and the same operator objects are used again
        tA = (A * 0.7 + 0.2 * torch.eye(n, dtype=dt)).clone()
        tM = None if M is None else (M * 1.3 + 0.1 * torch.eye(n, dtype=dt)).clone()
        Aop = herm_op(cfg["opkind"], tA, pb["aux"])
        Mop = None if M is None else herm_op("mfree" if cfg["opkind"] != "dense" else "dense", tM)
        torch.manual_seed(20240 + n)
        call(symeig, Aop, neig=neig, mode=cfg["mode"], M=Mop, method=cfg["method"], **_fwd_opts(cfg))
        with torch.no_grad():
            tA.copy_(A)
            if tM is not None:
                tM.copy_(M)
    else:
        if cfg.get("gm") == "rg":
            A = A.clone().requires_grad_()
            M = None if M is None else M.clone().requires_grad_()
        Aop = herm_op(cfg["opkind"], A, pb["aux"])
        Mop = None if M is None else herm_op("mfree" if cfg["opkind"] != "dense" else "dense", M)
    torch.manual_seed(20240 + n)
    if cfg.get("gm") == "ng":
        with torch.no_grad():
            o = call(symeig, Aop, neig=neig, mode=cfg["mode"], M=Mop, method=cfg["method"], **_fwd_opts(cfg))
    else:
        o = call(symeig, Aop, neig=neig, mode=cfg["mode"], M=Mop, method=cfg["method"], **_fwd_opts(cfg))
    if cfg.get("gm") == "rg":
        A = A.detach()
        M = None if M is None else M.detach()
        if o.exc is None:
            o.value = tuple(t.detach() for t in o.value)
    if o.exc is not None:
        return {"viol": [V("exception:%s" % o.exc_sig, {"exc": repr(o.exc)[:300]})], "obs": {"exc": o.exc_sig},
                "status": "exception"}
    viol = []
    try:
        E, X = o.value
    except Exception:
        return {"viol": [V("return-not-a-pair", {"type": str(type(o.value))})], "obs": None, "status": "violation"}

    # shapes and dtypes
    if tuple(E.shape) != bshape + (neig,) or tuple(X.shape) != bshape + (n, neig):
        viol.append(V("shape-mismatch", {"E": list(E.shape), "X": list(X.shape), "expected_batch": list(bshape)}))
        return {"viol": viol, "obs": {"E": list(E.shape), "X": list(X.shape)}, "status": "violation"}
    if E.is_complex() or X.dtype != dt:
        viol.append(V("dtype-mismatch", {"E": str(E.dtype), "X": str(X.dtype)}))
        return {"viol": viol, "obs": {"E": str(E.dtype)}, "status": "violation"}
    E = E.detach()
    X = X.detach()
    if not (torch.isfinite(E).all() and torch.isfinite(X).all()):
        viol.append(V("non-finite-output", {}))
        return {"viol": viol, "obs": {"finite": False}, "status": "violation"}

    # tolerances
    eps = torch.finfo(torch.float64).eps
    normA = float(Ab.abs().amax()) * n
    kM = 3.0
    lam_sel = pb["lam_b"][..., sel]
    cmax = float(pb["cs"].max())
    cmin = float(pb["cs"].min())
    if dav:
        me = cfg["min_eps"]
        tol_e = 1e-11 * max(1.0, normA) + 20.0 * math.sqrt(n) * me
        tol_r = 1e-11 * max(1.0, normA) + 1.01 * me
        tol_o = 1e-8 + 10.0 * me
    else:
        tol_e = tol_r = tol_o = 1e-11 * max(1.0, normA) * kM
    # 1. ascending
    if neig > 1:
        dmin = float((E[..., 1:] - E[..., :-1]).min())
        if dmin < -tol_e:
            viol.append(V("eigenvalues-not-ascending", {"min_step": dmin, "tol": tol_e}))
    # 2. the requested end of the spectrum (construction and recomputed reference)
    err_c = abserr(E, lam_sel)
    err_r = abserr(E, e_ref[..., sel])
    if max(err_c, err_r) > tol_e:
        other = selected(n, neig, "lowest" if mode == "uppest" else "uppest")
        viol.append(V("eigenvalues-not-the-requested-extreme", {
            "err_vs_construction": err_c, "err_vs_eigh": err_r, "tol": tol_e,
            "err_vs_other_end": abserr(E, pb["lam_b"][..., other]), "E": rnd(E), "expected": rnd(lam_sel)}))
    # 3. residual
    Md = torch.eye(n, dtype=dt).expand(bshape + (n, n)) if Mb is None else Mb
    res = Ab @ X - (Md @ X) * E.to(dt).unsqueeze(-2)
    rmax = float(res.abs().max())
    if rmax > tol_r:
        viol.append(V("residual-above-tolerance", {"resid": rmax, "tol": tol_r}))
    # 4. M-orthonormality
    G = hc(X) @ Md @ X
    omax = float((G - torch.eye(neig, dtype=dt)).abs().max())
    if omax > tol_o:
        viol.append(V("not-M-orthonormal", {"err": omax, "tol": tol_o}))
    # 5. spectral projector when the selection cuts no exactly degenerate cluster
    lam = pb["lam"]
    cl = clusters(lam, 0.0)
    cut = any((set(c) & set(sel)) and not (set(c) <= set(sel)) for c in cl)
    perr = None
    if not cut and neig < n:
        gap = gap_to_rest(lam, sel) / cmax
        if dav:
            tol_p = (1e-11 * normA * kM + 20.0 * math.sqrt(n) * cfg["min_eps"] * kM / cmin) / gap
        else:
            tol_p = 1e-11 * max(1.0, normA) * kM / gap
        if tol_p < 0.3:
            P = X @ hc(X) @ Md
            Xr = x_ref[..., sel]
            Pr = Xr @ hc(Xr) @ Md
            perr = abserr(P, Pr)
            if perr > tol_p:
                viol.append(V("spectral-projector-mismatch", {"err": perr, "tol": tol_p, "gap": gap}))
    obs = {"E": rnd(E.reshape(-1)[:8]), "resid": rnd(rmax, 2), "ortho": rnd(omax, 2),
           "eerr": rnd(max(err_c, err_r), 2), "perr": rnd(perr, 2) if perr is not None else None, "cut": cut}
    return {"viol": viol, "obs": obs, "status": "violation" if viol else "ok"}


# ------------------------------------------------------------------ run: svd

# 2mag: a batch of two operators of overall magnitude 1e4 and 1e-5 in one call (each judged relative to itself)
SVD_BATCH = {"-": (), "2": (2,), "21": (2, 1), "2mag": (2,)}
MAG = torch.tensor([1e4, 1e-5], dtype=torch.float64)


def run_svd(cfg):
    from xitorch.linalg import svd
    dt = DT[cfg["dtype"]]
    m, n, k = cfg["m"], cfg["n"], cfg["k"]
    r = min(m, n)
    g = _gen_for(cfg)
    b = SVD_BATCH[cfg["batch"]]
    sv = [0.5 + 2.5 * (j / max(r - 1, 1)) ** 1.3 + (0.0 if r > 1 else 0.7) for j in range(r)]     # ascending
    if cfg["sv"] == "rep":
        sv[1] = sv[0]
    sv_t = torch.tensor(sv, dtype=torch.float64)
    U = orth(m, dt, g, b)[..., :, :r]
    Vt = orth(n, dt, g, b)[..., :, :r]
    if cfg["sv"] == "symind":
        # square Hermitian INDEFINITE matrix (eigenvalues of both signs, |eigenvalue| = the singular values): its
        # singular triplets are not its extreme eigenpairs
        sg = torch.tensor([(-1.0 if (j % 2 == 0) else 1.0) for j in range(r)], dtype=torch.float64).to(dt)
        Vt = U
        U = U * sg
    A = (U * sv_t.to(dt)) @ hc(Vt)
    if cfg["sv"] == "symind":
        A = 0.5 * (A + hc(A))
    upper = _upper(cfg["mode"])
    sel = list(range(r - k, r)) if upper else list(range(k))
    s_ref = torch.linalg.svdvals(A).flip(-1)                   # ascending
    if abserr(s_ref, sv_t.expand(b + (r,))) > 1e-12:
        raise AssertionError("harness: svd construction and svdvals disagree")

    magmix = cfg["batch"] == "2mag"
    Acall = A * MAG.to(dt)[:, None, None] if magmix else A
    if cfg.get("mag"):
        Acall = A * cfg["mag"]
    if cfg["sv"] == "symind":
        import xitorch as _xt
        # dense: LinearOperator.m detects the symmetry itself; hflag: flagged by the caller; mfree: mv-only flagged
        Aop = {"dense": lambda: _xt.LinearOperator.m(A), "hflag": lambda: herm_op("dense", A),
               "mfree": lambda: herm_op("mfree", A)}[cfg["opkind"]]()
    else:
        Aop = gen_op(cfg["opkind"], Acall)
    dav = cfg["method"] == "davidson"
    torch.manual_seed(20240 + n)
    o = call(svd, Aop, k=k, mode=cfg["mode"], method=cfg["method"], **_fwd_opts(cfg))
    if o.exc is not None:
        return {"viol": [V("exception:%s" % o.exc_sig, {"exc": repr(o.exc)[:300]})], "obs": {"exc": o.exc_sig},
                "status": "exception"}
    viol = []
    try:
        u, s, vh = o.value
    except Exception:
        return {"viol": [V("return-not-a-triple", {"type": str(type(o.value))})], "obs": None, "status": "violation"}
    if tuple(u.shape) != b + (m, k) or tuple(s.shape) != b + (k,) or tuple(vh.shape) != b + (k, n):
        viol.append(V("shape-mismatch", {"u": list(u.shape), "s": list(s.shape), "vh": list(vh.shape)}))
        return {"viol": viol, "obs": {"u": list(u.shape)}, "status": "violation"}
    if s.is_complex() or u.dtype != dt or vh.dtype != dt:
        viol.append(V("dtype-mismatch", {"u": str(u.dtype), "s": str(s.dtype), "vh": str(vh.dtype)}))
        return {"viol": viol, "obs": {"s": str(s.dtype)}, "status": "violation"}
    u, s, vh = u.detach(), s.detach(), vh.detach()
    if magmix:
        s = s / MAG[:, None]        # every batch element is judged on its own scale
    if cfg.get("mag"):
        s = s / cfg["mag"]
    fin = all(bool(torch.isfinite(t).all()) for t in (u, s, vh))
    if not fin:
        return {"viol": [V("non-finite-output", {})], "obs": {"finite": False}, "status": "violation"}
    smax, smin = sv[-1], sv[0]
    # eigenproblem is on A^H A (spectrum s^2): an eigen-residual rho perturbs s by rho / (2 s)
    if dav:
        me = cfg["min_eps"]
        tol_s = 1e-11 + 20.0 * math.sqrt(r) * me / (2 * smin)
        tol_v = 1e-8 + 10.0 * me
        tol_u = 1e-8 + 40.0 * math.sqrt(r) * me / smin ** 2
        tol_av = 1e-10 + 20.0 * math.sqrt(r) * me / smin
    else:
        tol_s = tol_v = tol_u = tol_av = 1e-11 * max(m, n) * (smax / smin) ** 2
    if float(s.min()) < 0.0:
        viol.append(V("negative-singular-value", {"min": float(s.min())}))
    s_sorted = torch.sort(s, dim=-1).values
    serr = abserr(s_sorted, sv_t[sel].expand(b + (k,)))
    if serr > tol_s:
        other = list(range(k)) if upper else list(range(r - k, r))
        viol.append(V("singular-values-not-the-requested-extreme", {
            "err": serr, "tol": tol_s, "err_vs_other_end": abserr(s_sorted, sv_t[other].expand(b + (k,))),
            "s": rnd(s), "expected": rnd(sv_t[sel])}))
    I = torch.eye(k, dtype=dt)
    uerr = float((hc(u) @ u - I).abs().max())
    verr = float((vh @ hc(vh) - I).abs().max())
    if uerr > tol_u:
        viol.append(V("u-not-orthonormal", {"err": uerr, "tol": tol_u}))
    if verr > tol_v:
        viol.append(V("v-not-orthonormal", {"err": verr, "tol": tol_v}))
    av = float((A @ hc(vh) - u * s.to(dt).unsqueeze(-2)).abs().max())
    if av > tol_av:
        viol.append(V("Av-ne-su", {"err": av, "tol": tol_av}))
    rec = None
    if k == r:
        rec = float(((u * s.to(dt).unsqueeze(-2)) @ vh - A).abs().max())
        if rec > 4 * max(tol_av, tol_s) * smax:
            viol.append(V("reconstruction-mismatch", {"err": rec, "tol": 4 * max(tol_av, tol_s) * smax}))
    obs = {"s": rnd(s.reshape(-1)[:6]), "uerr": rnd(uerr, 2), "verr": rnd(verr, 2), "av": rnd(av, 2),
           "rec": rnd(rec, 2) if rec is not None else None}
    return {"viol": viol, "obs": obs, "status": "violation" if viol else "ok"}


# ------------------------------------------------------------------ run: rejections

def run_reject(cfg):
    import xitorch
    from xitorch.linalg import symeig
    n = cfg["n"]
    dt = torch.float64
    g = gen(0)
    A = sym(randn((n, n), dt, g))
    Mm = sym(spd(n, 3.0, dt, g))
    N = randn((n, n), dt, g)                        # not Hermitian
    kind = cfg["opkind"]
    what = cfg["what"]

    def mk(mat, herm):
        if herm:
            return herm_op(kind, mat)
        return gen_op(kind, mat)

    def build_and_call():
        if what == "A-nonherm":
            Aop, Mop = mk(N, False), None
        elif what == "M-nonherm":
            Aop, Mop = mk(A, True), mk(N + 3 * torch.eye(n, dtype=dt), False)
        elif what == "M-size":
            Aop, Mop = mk(A, True), mk(sym(spd(n - 1, 3.0, dt, g)), True)
        else:  # batch-mismatch: A (2,), M (3,)
            Ab = sym(randn((2, n, n), dt, g))
            Mb = Mm.expand(3, n, n).contiguous()
            Aop, Mop = mk(Ab, True), mk(Mb, True)
        kw = {}
        if cfg["method"] == "davidson":
            kw = {"min_eps": 1e-9, "max_niter": 100, "v_init": "randn"}
        torch.manual_seed(5)
        return symeig(Aop, neig=2, mode="lowest", M=Mop, method=cfg["method"], **kw)

    o = call(build_and_call)
    if o.exc is None:
        return {"viol": [V("accepted-invalid-input:%s" % what, {"returned": str(type(o.value))})],
                "obs": {"returned": True}, "status": "violation"}
    documented = what != "batch-mismatch"
    if documented and not isinstance(o.exc, RuntimeError):
        return {"viol": [V("rejection-wrong-exception-type:%s" % what, {"exc": o.exc_sig})],
                "obs": {"exc": o.exc_sig}, "status": "violation"}
    return {"viol": [], "obs": {"exc": type(o.exc).__name__, "msg": str(o.exc)[:40]}, "status": "rejected"}


def run_case(cfg):
    fam = cfg["fam"]
    if fam == "symeig":
        return run_symeig(cfg)
    if fam == "svd":
        return run_svd(cfg)
    return run_reject(cfg)


def coverage_extra(tier, seed, results):
    fam = {}
    for r in results:
        f = r["cfg"]["fam"]
        fam[f] = fam.get(f, 0) + 1
    return {"cases_by_family": fam}

# ---- call-order plane (executed by mc/core.py in fresh interpreters, see mc/props/_hist_common.py): the result of
# a call must not depend on which other calls (other dtype / method / size / options) were made before it
_HIST_LABELS = [('float32', 'exacteig', 0), ('float64', 'exacteig', 0), ('float64', 'custom_exacteig', 1), ('complex128', 'exacteig', 1), ('float64', 'davidson', 1)]
HISTORY = {"labels": ["/".join(str(x) for x in c) for c in _HIST_LABELS], "tol": [0.0001, 1e-11, 1e-11, 1e-11, 1e-07],
           "depth": {"quick": 2, "thorough": 3},
           "prelude": r'''import torch, xitorch
from xitorch import LinearOperator
from xitorch.linalg import symeig
CALLS = %r
def do(i):
    dtn, method, withM = CALLS[i]
    dt = getattr(torch, dtn)
    g = torch.Generator().manual_seed(7)
    n = 6
    A0 = torch.randn((n, n), generator=g, dtype=torch.float64)
    A = ((A0 + A0.T) / 2).to(dt)
    M0 = torch.randn((n, n), generator=g, dtype=torch.float64)
    M = (M0 @ M0.T / n + torch.eye(n, dtype=torch.float64)).to(dt)
    torch.manual_seed(0)
    opts = {"min_eps": 1e-10, "max_niter": 200} if method == "davidson" else {}
    e, v = symeig(LinearOperator.m(A, is_hermitian=True), neig=3, M=(LinearOperator.m(M, is_hermitian=True) if withM else None), method=method, **opts)
    return e.double().reshape(-1).tolist()
''' % (_HIST_LABELS,)}
