"""C11 — LinearOperator products are mutually consistent for every operator expression.

Two explorations of the real implementation:

(a) expression trees: every well-shaped tree of a stated lattice over leaf kinds x shapes x batch shapes x
    constructors x dtypes is built with the public constructors (.H, *, +, -, matmul) and every public product is
    compared with the same expression of the operands' dense matrices;
(b) instantiation histories: explicit-state search over all orders of all subsets of "first instantiation" events
    of a class hierarchy that is generated afresh for every path.
"""
from __future__ import annotations
import itertools
import math
import re
import torch

from mc.util import V, call, gen, randn, rnd

ID = "C11"
LEVEL = "model_checking"
DESIGN_REF = "DESIGN.md §5 C11"
RULE = (
    "part t1: every chain of <= 2 (quick) / 3 (thorough) unary constructors {.H, *2.0, *(-3), 0.5*, gram=X.H.matmul(X,"
    "is_hermitian=True)} over every leaf (9 kinds {mv; mv+rmv; mv+mm; all five; LinearOperator.m; m of a Hermitian "
    "matrix; matrix-free flagged Hermitian; xitorch.grad.jac; xitorch.grad.hess} x shapes {3x3, 3x2, 2x3} x operator "
    "batch {(), (2,), (1,2)}) x {float64, complex128, float32}; "
    "part t2c: every tree u0(u1(leaf1) op u2(leaf2)), op in {+,-,matmul}, u0 in 6 unary (incl. none, gram), u1,u2 in "
    "{none,.H,*2.0} (quick) / all 5 (thorough), all 81 kind pairs, shapes chosen as the first well-shaped non-square "
    "assignment, batches (2,) and (1,2); part t2s: every (op, kind pair) x all 9 shape pairs (ill-shaped pairs must "
    "raise at construction) x all 9 batch pairs + one non-broadcastable pair (must raise at construction or in every "
    "product) x u0 in {none,.H} (quick) / 5 unary (thorough); part t3 (thorough): every 3-leaf tree, both "
    "associations, 9 op pairs, 8^3 kind triples, with one unary constructor from {.H,*2.0,*(-3),0.5*} at at most one "
    "of the 5 node positions; float64 and complex128 (jac/hess leaves real only).  For every tree: shape, "
    "{mv, mm, rmv, rmm, fullmatrix, .H.mv, .H.mm, .H.rmv, .H.fullmatrix, .H.H.mv} on all unit vectors, on dense "
    "operands with batch shapes {(), (3,), (2,), (2,1), (1,2), (3,1,2)} (incl. fewer-but-nonzero batch dimensions than the operator; the first operand also under torch.no_grad()) (non-broadcastable ones must raise) and on an "
    "operand with a wrong last dimension (must raise).  part bad: malformed constructions must raise.  "
    "part hist: class hierarchy Base(_mv) <- Mid(+_rmv) <- Leaf(+_mm,+_fullmatrix), Base <- Other(+_rmm) created "
    "afresh per path; events = first instantiation of one of the four classes, 'attempt LinearOperator(...) itself' "
    "and 'first LinearOperator.m'; every order of every subset of the 6 events (1956 paths) x {invariant checked "
    "after every event, only at the end} x dtype; invariant per instantiated class: capability properties == methods "
    "the class defines, every product == dense, .H.mv == rmv, the class's own _rmv/_mm/_rmm/_fullmatrix is the one "
    "called.  distinct = distinct per-case observation tables; trivial = no product evaluated.")
RULE_ADDED = 'Added later: operand batch (2,), every product also under torch.no_grad(). Round 4: leaf idv (identity whose _mv hands back its argument) and the operand-immutability oracle after every product. Round 6: fullmatrix results overwritten in place by the caller and asked for again; adjoint consistency (H.fullmatrix == fullmatrix^H, H.mv == rmv) inside uselinopparams after .H was evaluated. Round 7: the left scalar factor is 0.3 (not representable in single precision) instead of 0.5.'
ASSUMPTIONS = [
    "matrix entries are N(0,1) draws from a fixed generator stream (plane 0; thorough adds one plane derived from "
    "VERIF_SEED for the <= 2-leaf parts); sizes 2 and 3",
    "comparison tolerance 256*eps(dtype)*|expr|(|operands|) where |expr| is the expression evaluated on entrywise "
    "absolute values (a rigorous rounding-error scale for sums/products of the dense operands)",
    "a non-broadcastable operand batch / ill-shaped construction may raise any exception type; it must not return",
    "class-level capability attributes of LinearOperator and of the library's subclasses are reset to their "
    "import-time values before each history path and restored afterwards, so paths are independent executions",
    "user _mv/_rmv/_mm/_rmm bodies are torch.matmul based, i.e. they broadcast like a dense batched matrix",
]
BUDGET_S = {"quick": 600, "thorough": 3000}

SH = {"sq": (3, 3), "tall": (3, 2), "wide": (2, 3)}
SHAPES = ["tall", "wide", "sq"]
BATCHES = [(), (2,), (1, 2)]
KINDS = ["mv", "mvr", "mvm", "all", "mat", "math", "mfh", "jac", "hess", "idv", "matz"]
KINDS3 = ["mv", "mvr", "mvm", "all", "mat", "math", "mfh", "jac"]
SQ_ONLY = ("math", "mfh", "hess", "idv", "matz")
NOBATCH = ("jac", "hess", "idv")
REAL_ONLY = ("jac", "hess")
UNARY = ["H", "mul2", "mulm3", "rmul"]
XBATCHES = [(), (3,), (2,), (2, 1), (1, 2), (3, 1, 2)]
DT = {"float64": torch.float64, "complex128": torch.complex128, "float32": torch.float32}


# ------------------------------------------------------------------ leaf operator classes
# every class derives DIRECTLY from LinearOperator (no instantiable parent) so that part (a) does not depend on the
# instantiation order of the leaf classes

def _xt():
    import xitorch
    return xitorch


_CLS = {}


def leaf_classes():
    if _CLS:
        return _CLS
    LinearOperator = _xt().LinearOperator

    def init(self, mat, herm=False):
        LinearOperator.__init__(self, shape=tuple(mat.shape), is_hermitian=herm, dtype=mat.dtype, device=mat.device)
        self.mat = mat

    def mv(self, x):
        return torch.matmul(self.mat, x.unsqueeze(-1)).squeeze(-1)

    def rmv(self, x):
        return torch.matmul(self.mat.transpose(-2, -1).conj(), x.unsqueeze(-1)).squeeze(-1)

    def mm(self, x):
        return torch.matmul(self.mat, x)

    def rmm(self, x):
        return torch.matmul(self.mat.transpose(-2, -1).conj(), x)

    def full(self):
        return self.mat

    def gpn(self, prefix=""):
        return [prefix + "mat"]

    base = {"__init__": init, "_mv": mv, "_getparamnames": gpn}
    _CLS["mv"] = type("OpMv", (LinearOperator,), dict(base))
    _CLS["mvr"] = type("OpMvR", (LinearOperator,), dict(base, _rmv=rmv))
    _CLS["mvm"] = type("OpMvM", (LinearOperator,), dict(base, _mm=mm))
    _CLS["all"] = type("OpAll", (LinearOperator,), dict(base, _rmv=rmv, _mm=mm, _rmm=rmm, _fullmatrix=full))

    def mv_same(self, x):
        return x            # the identity as users write it: the product IS the argument (same tensor object)
    # idv: Hermitian-flagged identity whose _mv hands back its argument; an operator built on top of it must not
    # modify that tensor (it is the caller's operand)
    _CLS["idv"] = type("OpIdSame", (LinearOperator,), dict(base, _mv=mv_same))
    return _CLS


def make_leaf(kind, shp, batch, dtype, g):
    """returns (operator, dense matrix)"""
    xt = _xt()
    p, q = SH[shp]
    if kind in ("jac", "hess"):
        W = randn((p, q), dtype, g) * 0.7
        c = randn((p,), dtype, g) * 0.5
        x0 = randn((q,), dtype, g).requires_grad_()
        if kind == "jac":
            def f(x):
                return torch.tanh(W @ x + c)
            from xitorch.grad import jac
            op = jac(f, (x0,), idxs=0)
            D = torch.autograd.functional.jacobian(f, x0.detach())
        else:
            def f(x):
                return torch.log(torch.cosh(W @ x + c)).sum() + 0.5 * (x * x).sum()
            from xitorch.grad import hess
            op = hess(f, (x0,), idxs=0)
            D = torch.autograd.functional.hessian(f, x0.detach())
        return op, D.detach()
    if kind == "idv":
        mat = torch.eye(p, dtype=dtype)
        return leaf_classes()["idv"](mat, True), mat
    mat = randn(tuple(batch) + (p, q), dtype, g)
    if kind in ("math", "mfh", "matz"):
        mat = (mat + mat.transpose(-2, -1).conj()) * 0.5
    if kind == "matz":
        # H - z I with complex z: conjugate-symmetric off the diagonal, NOT Hermitian (for a real dtype z is real
        # and the matrix stays symmetric); dense-wrapped, the library decides about the flag itself
        z = (0.3 + 0.7j) if mat.is_complex() else 0.3
        mat = mat - z * torch.eye(p, dtype=dtype)
    cls = leaf_classes()
    if kind == "mat":
        op = xt.LinearOperator.m(mat)
    elif kind in ("math", "matz"):
        op = xt.LinearOperator.m(mat)        # Hermiticity detected by the library
    elif kind == "mfh":
        op = cls["mv"](mat, True)
    else:
        op = cls[kind](mat)
    return op, mat


# ------------------------------------------------------------------ trees

def tree_str(t, leaves):
    if t[0] == "L":
        k, s, b = leaves[t[1]]
        return "%s[%s,%s]" % (k, s, "x".join(str(i) for i in b) or "-")
    if len(t) == 2:
        return "%s(%s)" % (t[0], tree_str(t[1], leaves))
    return "%s(%s,%s)" % (t[0], tree_str(t[1], leaves), tree_str(t[2], leaves))


def tree_pq(t, leaves):
    """(p, q) of a tree or None when ill-shaped"""
    if t[0] == "L":
        return SH[leaves[t[1]][1]]
    if len(t) == 2:
        s = tree_pq(t[1], leaves)
        if s is None:
            return None
        if t[0] == "H":
            return (s[1], s[0])
        if t[0] == "gram":
            return (s[1], s[1])
        return s
    a = tree_pq(t[1], leaves)
    b = tree_pq(t[2], leaves)
    if a is None or b is None:
        return None
    if t[0] in ("add", "sub"):
        return a if a == b else None
    return (a[0], b[1]) if a[1] == b[0] else None


def assign_shapes(t, kinds):
    """first well-shaped assignment of shape classes to the leaves (non-square preferred)"""
    opts = [["sq"] if k in SQ_ONLY else SHAPES for k in kinds]
    for combo in itertools.product(*opts):
        leaves = [(k, s, ()) for k, s in zip(kinds, combo)]
        if tree_pq(t, leaves) is not None:
            return list(combo)
    return None


def build(t, leaves, dtype, g, cache):
    """returns (operator, dense D, entrywise bound A)"""
    xt = _xt()
    if t[0] == "L":
        i = t[1]
        if i not in cache:
            k, s, b = leaves[i]
            op, D = make_leaf(k, s, b, dtype, g)
            cache[i] = (op, D, D.abs())
        return cache[i]
    if len(t) == 2:
        op, D, A = build(t[1], leaves, dtype, g, cache)
        if t[0] == "H":
            return op.H, D.transpose(-2, -1).conj(), A.transpose(-2, -1)
        if t[0] == "mul2":
            return op * 2.0, D * 2.0, A * 2.0
        if t[0] == "mulm3":
            return op * (-3), D * (-3), A * 3
        if t[0] == "rmul":
            return 0.3 * op, D * 0.3, A * 0.3
        if t[0] == "gram":
            return (op.H.matmul(op, is_hermitian=True), D.transpose(-2, -1).conj() @ D,
                    A.transpose(-2, -1) @ A)
        raise AssertionError(t[0])
    a, Da, Aa = build(t[1], leaves, dtype, g, cache)
    b, Db, Ab = build(t[2], leaves, dtype, g, cache)
    if t[0] == "add":
        return a + b, Da + Db, Aa + Ab
    if t[0] == "sub":
        return a - b, Da - Db, Aa + Ab
    if t[0] == "matmul":
        return a.matmul(b), Da @ Db, Aa @ Ab
    raise AssertionError(t[0])


def tree_batch(t, leaves):
    bs = []

    def rec(u):
        if u[0] == "L":
            bs.append(tuple(leaves[u[1]][2]))
        else:
            for c in u[1:]:
                rec(c)
    rec(t)
    try:
        return tuple(torch.broadcast_shapes(*bs))
    except RuntimeError:
        return None


# ------------------------------------------------------------------ exception description

def exc_fail(e, tag=None):
    """stable failure class of a library exception: type, message stem, the two innermost xitorch frames"""
    tb = e.__traceback__
    frames = []
    while tb is not None:
        co = tb.tb_frame.f_code
        fn = co.co_filename.replace("\\", "/")
        if "/xitorch/" in fn:
            frames.append(getattr(co, "co_qualname", co.co_name))
        tb = tb.tb_next
    msg = re.sub(r"\d+", "N", str(e).strip().split("\n")[0][:70])
    s = "exception:%s:%s:%s" % (type(e).__name__, msg, "<".join(reversed(frames[-2:])))
    return s


def _mvref(D, x):
    return torch.matmul(D, x.unsqueeze(-1)).squeeze(-1)


def _ct(D):
    return D.transpose(-2, -1).conj()


def _bshape(a, b):
    try:
        return tuple(torch.broadcast_shapes(tuple(a), tuple(b)))
    except RuntimeError:
        return None


class TreeChecker:
    """evaluates every product of one built tree against its dense matrix"""

    def __init__(self, T, D, A, dtype, g, at, viol, table):
        self.T, self.D, self.A, self.dtype, self.g = T, D, A, dtype, g
        self.at, self.viol, self.table = at, viol, table
        self.eps = torch.finfo(dtype).eps
        self.n = 0
        self.H = None

    def bump(self, key):
        self.table[key] = self.table.get(key, 0) + 1

    def report(self, failure, detail, **more):
        at = dict(self.at)
        at.update(more)
        self.viol.append(V(failure, detail, **at))

    def getH(self):
        if self.H is None:
            o = call(lambda: self.T.H)
            self.n += 1
            if o.exc is not None:
                self.report(exc_fail(o.exc), {"in": ".H"}, product="H")
                self.H = False
            else:
                self.H = o.value
        return self.H

    def fn(self, prod):
        T = self.T
        if prod.startswith("H."):
            H = self.getH()
            if H is False:
                return None
            if prod == "H.H.mv":
                return lambda x: H.H.mv(x)
            return getattr(H, prod[2:])
        return getattr(T, prod)

    def _callers(self):
        if getattr(self, "_own", None) is None:
            own = set()
            try:
                for t in self.T.getlinopparams():
                    own.add(t.untyped_storage().data_ptr())
            except Exception:
                pass
            for t in (self.D, self.A):
                own.add(t.untyped_storage().data_ptr())
            self._own = own
        return self._own

    def _is_callers(self, t):
        try:
            return t.untyped_storage().data_ptr() in self._callers()
        except Exception:
            return True

    def subst_consistency(self, p, q):
        """.H has been evaluated; the operator's tensors are then substituted (uselinopparams, as the backward pass
        of solve does) and the adjoint is asked for again: inside the block H.fullmatrix == fullmatrix^H and
        H.mv == rmv == fullmatrix^H y (mutual consistency at the substituted parameters)"""
        T = self.T
        o = call(T.getlinopparams)
        self.n += 1
        if o.exc is not None:
            return
        lp = list(o.value)
        if not lp or self.getH() is False:
            return
        new = [t.detach() * 1.5 + 0.25 for t in lp]
        y = randn((p,), self.dtype, self.g)

        def inside():
            with T.uselinopparams(*new):
                F = T.fullmatrix()
                Hn = T.H
                return F.detach().clone(), Hn.fullmatrix().detach().clone(), T.rmv(y).detach().clone(), \
                    Hn.mv(y).detach().clone()
        oi = call(inside)
        self.n += 1
        if oi.exc is not None:
            self.bump("subst-raises:" + type(oi.exc).__name__)
            return
        F, HF, r1, r2 = oi.value
        if tuple(HF.shape) != tuple(_ct(F).shape) or r1.shape != r2.shape:
            return
        scale = max(float(F.abs().max()) if F.numel() else 0.0, 1e-30)
        tol = 1024 * self.eps * scale * max(p, q)
        e1 = float((HF - _ct(F)).abs().max()) if F.numel() else 0.0
        ref = _mvref(_ct(F), y)
        e2 = float((r2 - ref).abs().max()) if ref.numel() else 0.0
        e3 = float((r1 - ref).abs().max()) if ref.numel() else 0.0
        ymax = max(1.0, float(y.abs().max()))
        if not e1 <= tol:
            self.report("adjoint-stale-after-substitution:H.fullmatrix", {"err": e1, "tol": tol}, product="H.fullmatrix",
                        change="uselinopparams")
        if not e2 <= tol * ymax:
            self.report("adjoint-stale-after-substitution:H.mv", {"err": e2, "tol": tol * ymax}, product="H.mv",
                        change="uselinopparams")
        if not e3 <= tol * ymax:
            self.report("rmv-inconsistent-after-substitution", {"err": e3, "tol": tol * ymax}, product="rmv",
                        change="uselinopparams")
        self.bump("subst-ok")

    def compare(self, prod, got, ref, bound, xb):
        if not isinstance(got, torch.Tensor):
            self.report("not-a-tensor:%s" % prod, {"type": str(type(got))}, product=prod, xb=list(xb))
            return
        if tuple(got.shape) != tuple(ref.shape):
            self.report("shape-mismatch:%s" % prod, {"got": list(got.shape), "want": list(ref.shape)},
                        product=prod, xb=list(xb))
            return
        err = (got.detach() - ref).abs().max().item() if ref.numel() else 0.0
        tol = 256 * self.eps * max(float(bound), 1e-30)
        if not (err <= tol):
            self.report("value-mismatch:%s" % prod, {"err": err, "tol": tol, "scale": float(bound)},
                        product=prod, xb=list(xb))
            self.bump("bad:" + prod)
        else:
            self.bump("ok:" + prod)

    def run(self, opbatch, xbatches, full=True):
        """full: every operand batch shape (the adjoint-operator products H.mm/H.rmv/H.H.mv only for the first),
        column-wise mm check, unit vectors; lite: operand batch () only"""
        T, D, A = self.T, self.D, self.A
        p, q = D.shape[-2], D.shape[-1]
        Dh, Ah = _ct(D), A.transpose(-2, -1)
        # shape attribute
        if tuple(T.shape) != tuple(D.shape):
            self.report("shape-attribute-wrong", {"got": list(T.shape), "want": list(D.shape)}, product="shape")
        # (matrix, bound matrix, operand length, is matrix operand)
        spec = {
            "mv": (D, A, q, False), "mm": (D, A, q, True), "rmv": (Dh, Ah, p, False), "rmm": (Dh, Ah, p, True),
            "H.mv": (Dh, Ah, p, False), "H.mm": (Dh, Ah, p, True), "H.rmv": (D, A, q, False),
            "H.H.mv": (D, A, q, False),
        }
        order = ["mv", "mm", "rmv", "rmm", "H.mv", "H.mm", "H.rmv", "H.H.mv"]
        # fullmatrix products
        for prod, M in (("fullmatrix", D), ("H.fullmatrix", Dh)):
            f = self.fn(prod)
            if f is None:
                continue
            o = call(f)
            self.n += 1
            if o.exc is not None:
                self.report(exc_fail(o.exc), {"product": prod}, product=prod, xb=[])
                self.bump("exc:" + prod)
            else:
                self.compare(prod, o.value, M, M.abs().max().item() if M.numel() else 0.0, ())
                if isinstance(o.value, torch.Tensor) and prod == "fullmatrix":
                    self.table["fp"] = self.table.get("fp", 0.0) + float(o.value.detach().abs().sum())
                # the returned matrix is the caller's: it is overwritten in place (unless it IS one of the caller's
                # own tensors handed to the operator) and asked for again - nothing may be shared between results
                if isinstance(o.value, torch.Tensor) and o.value.numel() and not self._is_callers(o.value):
                    with torch.no_grad():
                        o.value.detach().mul_(0).add_(7.5)
                    o2 = call(f)
                    self.n += 1
                    if o2.exc is None:
                        self.compare(prod + "@after-result-overwritten", o2.value, M,
                                     M.abs().max().item() if M.numel() else 0.0, ())
                        if isinstance(o2.value, torch.Tensor) and o2.value.numel() and not self._is_callers(o2.value):
                            with torch.no_grad():
                                o2.value.detach().mul_(0).add_(-3.25)
        self.subst_consistency(p, q)
        # unit vectors
        for prod in ("mv", "rmv"):
            M, B, n, _ = spec[prod]
            f = self.fn(prod)
            if f is None:
                continue
            for i in range(n):
                e = torch.zeros(n, dtype=self.dtype)
                e[i] = 1
                o = call(f, e)
                self.n += 1
                if o.exc is not None:
                    self.report(exc_fail(o.exc), {"product": prod, "unit": i}, product=prod, xb=[])
                    self.bump("exc:" + prod)
                    break
                self.compare(prod, o.value, M[..., :, i], B[..., :, i].max().item(), ())
        # dense operands for every operand batch shape
        for ixb, xb in enumerate(xbatches):
            ok = _bshape(opbatch, xb) is not None
            for prod in (order if ixb == 0 else order[:5]):
                M, B, n, ismat = spec[prod]
                f = self.fn(prod)
                if f is None:
                    continue
                x = randn(tuple(xb) + ((n, 2) if ismat else (n,)), self.dtype, self.g)
                xkeep = x.clone()
                o = call(f, x)
                self.n += 1
                if not torch.equal(x, xkeep):
                    self.report("operand-modified-in-place:%s" % prod,
                                {"max_abs_change": float((x - xkeep).abs().max())}, product=prod, xb=list(xb))
                    x = xkeep.clone()
                if not ok:
                    if o.exc is None:
                        self.report("nonbroadcastable-operand-accepted:%s" % prod,
                                    {"opbatch": list(opbatch), "xb": list(xb),
                                     "returned": list(o.value.shape) if isinstance(o.value, torch.Tensor) else None},
                                    product=prod, xb=list(xb))
                    else:
                        self.bump("rej:" + type(o.exc).__name__)
                    continue
                if o.exc is not None:
                    self.report(exc_fail(o.exc), {"product": prod}, product=prod, xb=list(xb))
                    self.bump("exc:" + prod)
                    continue
                if ismat:
                    ref = torch.matmul(M, x)
                    bound = torch.matmul(B, x.abs()).max().item()
                else:
                    ref = _mvref(M, x)
                    bound = _mvref(B, x.abs()).max().item()
                self.compare(prod, o.value, ref, bound, xb)
                if ixb == 0:
                    # the same product with gradient recording switched off by the caller (the fall-backs that obtain
                    # the adjoint by differentiation must switch it on themselves)
                    with torch.no_grad():
                        o2 = call(f, x)
                    self.n += 1
                    if o2.exc is not None:
                        self.report(exc_fail(o2.exc), {"product": prod, "under": "torch.no_grad()"},
                                    product=prod + "@no_grad", xb=list(xb))
                        self.bump("exc:" + prod + "@no_grad")
                    else:
                        self.compare(prod + "@no_grad", o2.value, ref, bound, xb)
                # mm equals mv column by column (direct comparison of the two library results)
                if full and prod in ("mm", "rmm") and not xb and isinstance(o.value, torch.Tensor) \
                        and tuple(o.value.shape) == tuple(ref.shape):
                    fv = self.fn("mv" if prod == "mm" else "rmv")
                    for j in range(2):
                        ov = call(fv, x[..., j])
                        self.n += 1
                        if ov.exc is None and isinstance(ov.value, torch.Tensor) and isinstance(o.value, torch.Tensor) \
                                and ov.value.shape == o.value[..., j].shape:
                            err = (ov.value - o.value[..., j]).abs().max().item()
                            if not (err <= 512 * self.eps * max(bound, 1e-30)):
                                self.report("mm-differs-from-columnwise-mv:%s" % prod, {"err": err},
                                            product=prod, xb=list(xb))
            if not full:
                break
        # wrong last dimension must raise
        for prod in order[:5]:
            M, B, n, ismat = spec[prod]
            f = self.fn(prod)
            if f is None:
                continue
            x = randn((n + 1, 2) if ismat else (n + 1,), self.dtype, self.g)
            o = call(f, x)
            self.n += 1
            if o.exc is None:
                self.report("mismatched-operand-accepted:%s" % prod, {"operand": list(x.shape), "op": list(D.shape)},
                            product=prod, xb=[])
            else:
                self.bump("rej:" + type(o.exc).__name__)


def check_tree(t, leaves, dtype, vseed, idx, viol, table, at=None, full=True):
    """build one tree with the public constructors and check all its products; returns #library calls"""
    g = gen(vseed * 1000003 + idx)
    at = dict(at or {})
    at["tree"] = tree_str(t, leaves)
    cache = {}
    o = call(build, t, leaves, dtype, g, cache)
    if o.exc is not None:
        viol.append(V(exc_fail(o.exc), {"in": "construction"}, product="construct", **at))
        table["exc:construct"] = table.get("exc:construct", 0) + 1
        return 1
    T, D, A = o.value
    ck = TreeChecker(T, D, A, dtype, g, at, viol, table)
    ck.run(tree_batch(t, leaves), XBATCHES, full=full)
    return ck.n + 1


def check_bad_tree(t, leaves, dtype, vseed, idx, viol, table, why, at=None):
    """an ill-shaped / non-broadcastable tree must raise at construction or in every product"""
    g = gen(vseed * 1000003 + idx)
    at = dict(at or {})
    at["tree"] = tree_str(t, leaves)
    cache = {}
    o = call(build_nodense, t, leaves, dtype, g, cache)
    n = 1
    if o.exc is not None:
        table["rej:construct:" + type(o.exc).__name__] = table.get("rej:construct:" + type(o.exc).__name__, 0) + 1
        return n
    if why == "shape":
        viol.append(V("ill-shaped-construction-accepted", {"why": why, "shape": list(o.value.shape)},
                      product="construct", **at))
        return n
    T = o.value
    p, q = T.shape[-2], T.shape[-1]
    for prod, x in (("mv", randn((q,), dtype, g)), ("mm", randn((q, 2), dtype, g)),
                    ("rmv", randn((p,), dtype, g)), ("rmm", randn((p, 2), dtype, g)), ("fullmatrix", None)):
        f = getattr(T, prod)
        oo = call(f) if x is None else call(f, x)
        n += 1
        if oo.exc is None:
            viol.append(V("nonbroadcastable-operands-accepted:%s" % prod,
                          {"returned": list(oo.value.shape) if isinstance(oo.value, torch.Tensor) else None},
                          product=prod, **at))
        else:
            k = "rej:" + type(oo.exc).__name__
            table[k] = table.get(k, 0) + 1
    return n


def build_nodense(t, leaves, dtype, g, cache):
    if t[0] == "L":
        i = t[1]
        if i not in cache:
            k, s, b = leaves[i]
            cache[i] = make_leaf(k, s, b, dtype, g)[0]
        return cache[i]
    if len(t) == 2:
        op = build_nodense(t[1], leaves, dtype, g, cache)
        return {"H": lambda: op.H, "mul2": lambda: op * 2.0, "mulm3": lambda: op * (-3),
                "rmul": lambda: 0.3 * op, "gram": lambda: op.H.matmul(op, is_hermitian=True)}[t[0]]()
    a = build_nodense(t[1], leaves, dtype, g, cache)
    b = build_nodense(t[2], leaves, dtype, g, cache)
    return {"add": lambda: a + b, "sub": lambda: a - b, "matmul": lambda: a.matmul(b)}[t[0]]()


# ------------------------------------------------------------------ case enumeration

def _kinds_for(dtype, kinds=KINDS):
    return [k for k in kinds if not (dtype != "float64" and dtype != "float32" and k in REAL_ONLY)]


def _leaf_configs(kind):
    shapes = ["sq"] if kind in SQ_ONLY else SHAPES
    batches = [()] if kind in NOBATCH else BATCHES
    return [(kind, s, b) for s in shapes for b in batches]


def _chains(maxlen):
    un = UNARY + ["gram"]
    out = [()]
    for n in range(1, maxlen + 1):
        out += list(itertools.product(un, repeat=n))
    return out


def cases(tier, seed):
    quick = tier == "quick"
    out = []
    planes = [0] if quick else [0, 1 + (int(seed) % 1000000)]
    # malformed constructions
    for what in BAD:
        out.append({"part": "bad", "what": what})
    # t1
    for vs in planes:
        for dtype in ("float64", "complex128", "float32"):
            for k in _kinds_for(dtype):
                out.append({"part": "t1", "k1": k, "dtype": dtype, "chain": 2 if quick else 3, "vseed": vs})
    # instantiation histories
    evs = "BMFOXD"
    for r in range(1, len(evs) + 1):
        for sub in itertools.combinations(evs, r):
            for first in sub:
                for dtype in (("float64",) if quick else ("float64", "complex128")):
                    for mode in ("each", "end"):
                        out.append({"part": "hist", "subset": "".join(sub), "first": first, "dtype": dtype,
                                    "mode": mode})
    # t2c, t2s
    for vs in planes:
        for dtype in ("float64", "complex128"):
            ks = _kinds_for(dtype)
            for op in ("add", "sub", "matmul"):
                for k1 in ks:
                    for k2 in ks:
                        out.append({"part": "t2c", "op": op, "k1": k1, "k2": k2, "dtype": dtype,
                                    "ul": "q" if quick else "t", "vseed": vs})
                        out.append({"part": "t2s", "op": op, "k1": k1, "k2": k2, "dtype": dtype,
                                    "ul": "q" if quick else "t", "vseed": vs})
    # t3
    if not quick:
        for dtype in ("float64", "complex128"):
            ks = _kinds_for(dtype, KINDS3)
            for assoc in ("L", "R"):
                for op1 in ("add", "sub", "matmul"):
                    for op2 in ("add", "sub", "matmul"):
                        for k1 in ks:
                            for k2 in ks:
                                out.append({"part": "t3", "assoc": assoc, "op": op1, "op2": op2, "k1": k1, "k2": k2,
                                            "dtype": dtype, "vseed": 0})
    return out


# ------------------------------------------------------------------ part runners

def _dedupe(viol, keyf=None):
    uniq = {}
    for v in viol:
        k = v["failure"] if keyf is None else keyf(v)
        if k not in uniq:
            v = dict(v)
            v["detail"] = dict(v["detail"] or {}, occurrences=1)
            uniq[k] = v
        else:
            uniq[k]["detail"]["occurrences"] += 1
    return list(uniq.values())


def run_t1(cfg):
    dtype = DT[cfg["dtype"]]
    viol, table = [], {}
    n = 0
    ntrees = 0
    idx = 0
    for leaf in _leaf_configs(cfg["k1"]):
        for ch in _chains(cfg["chain"]):
            t = ("L", 0)
            for u in ch:
                t = (u, t)
            idx += 1
            if tree_pq(t, [leaf]) is None:
                continue
            n += check_tree(t, [leaf], dtype, cfg["vseed"], idx, viol, table,
                            at={"u": ".".join(ch) or "-", "shape1": leaf[1], "b1": list(leaf[2])})
            ntrees += 1
    return viol, table, n, ntrees


def _lb(kind, b):
    return () if kind in NOBATCH else b


def run_t2c(cfg):
    dtype = DT[cfg["dtype"]]
    k1, k2, op = cfg["k1"], cfg["k2"], cfg["op"]
    viol, table = [], {}
    n = ntrees = idx = 0
    u_leaf = [None, "H", "mul2"] if cfg["ul"] == "q" else [None] + UNARY
    u_root = [None, "H", "mulm3", "gram"] if cfg["ul"] == "q" else [None] + UNARY + ["gram"]
    for u0 in u_root:
        for u1 in u_leaf:
            for u2 in u_leaf:
                a = ("L", 0) if u1 is None else (u1, ("L", 0))
                b = ("L", 1) if u2 is None else (u2, ("L", 1))
                t = (op, a, b)
                if u0 is not None:
                    t = (u0, t)
                idx += 1
                sh = assign_shapes(t, [k1, k2])
                if sh is None:
                    continue
                leaves = [(k1, sh[0], _lb(k1, (2,))), (k2, sh[1], _lb(k2, (1, 2)))]
                n += check_tree(t, leaves, dtype, cfg["vseed"], idx, viol, table,
                                at={"u0": u0 or "-", "u1": u1 or "-", "u2": u2 or "-"}, full=False)
                ntrees += 1
    return viol, table, n, ntrees


def run_t2s(cfg):
    dtype = DT[cfg["dtype"]]
    k1, k2, op = cfg["k1"], cfg["k2"], cfg["op"]
    viol, table = [], {}
    n = ntrees = idx = 0
    u_root = [None] if cfg["ul"] == "q" else [None] + UNARY
    s1s = ["sq"] if k1 in SQ_ONLY else SHAPES
    s2s = ["sq"] if k2 in SQ_ONLY else SHAPES
    b1s = [()] if k1 in NOBATCH else BATCHES
    b2s = [()] if k2 in NOBATCH else BATCHES
    for s1 in s1s:
        for s2 in s2s:
            t0 = (op, ("L", 0), ("L", 1))
            well = tree_pq(t0, [(k1, s1, ()), (k2, s2, ())]) is not None
            if not well:
                idx += 1
                n += check_bad_tree(t0, [(k1, s1, ()), (k2, s2, ())], dtype, cfg["vseed"], idx, viol, table, "shape",
                                    at={"shape1": s1, "shape2": s2})
                continue
            for b1 in b1s:
                for b2 in b2s:
                    for u0 in u_root:
                        t = t0 if u0 is None else (u0, t0)
                        idx += 1
                        n += check_tree(t, [(k1, s1, b1), (k2, s2, b2)], dtype, cfg["vseed"], idx, viol, table,
                                        at={"u0": u0 or "-", "shape1": s1, "shape2": s2, "b1": list(b1),
                                            "b2": list(b2)})
                        ntrees += 1
            # one non-broadcastable pair of operator batch shapes
            if k1 not in NOBATCH and k2 not in NOBATCH:
                idx += 1
                n += check_bad_tree(t0, [(k1, s1, (2,)), (k2, s2, (3,))], dtype, cfg["vseed"], idx, viol, table,
                                    "batch", at={"shape1": s1, "shape2": s2, "b1": [2], "b2": [3]})
    return viol, table, n, ntrees


def run_t3(cfg):
    dtype = DT[cfg["dtype"]]
    k1, k2 = cfg["k1"], cfg["k2"]
    viol, table = [], {}
    n = ntrees = idx = 0
    bsel = [(2,), (1, 2), ()]
    for k3 in _kinds_for(cfg["dtype"], KINDS3):
        kinds = [k1, k2, k3]
        for pos in range(6):
            for u in (UNARY if pos else [None]):
                lv = [("L", 0), ("L", 1), ("L", 2)]
                if pos in (1, 2, 3):
                    lv[pos - 1] = (u, lv[pos - 1])
                if cfg["assoc"] == "L":
                    inner = (cfg["op"], lv[0], lv[1])
                    if pos == 4:
                        inner = (u, inner)
                    t = (cfg["op2"], inner, lv[2])
                else:
                    inner = (cfg["op2"], lv[1], lv[2])
                    if pos == 4:
                        inner = (u, inner)
                    t = (cfg["op"], lv[0], inner)
                if pos == 5:
                    t = (u, t)
                idx += 1
                sh = assign_shapes(t, kinds)
                if sh is None:
                    continue
                leaves = [(k, s, _lb(k, b)) for k, s, b in zip(kinds, sh, bsel)]
                n += check_tree(t, leaves, dtype, cfg["vseed"], idx, viol, table,
                                at={"k3": k3, "upos": pos, "u": u or "-"}, full=False)
                ntrees += 1
    return viol, table, n, ntrees


# ------------------------------------------------------------------ malformed constructions

def _bad_specs():
    xt = _xt()
    L = xt.LinearOperator
    cls = leaf_classes()
    g = gen(77)
    A32 = cls["mv"](randn((3, 2), torch.float64, g))
    B33 = cls["all"](randn((3, 3), torch.float64, g))
    M32 = L.m(randn((3, 2), torch.float64, g))
    nonherm = randn((3, 3), torch.float64, g)

    class NoMv(L):
        def __init__(self, mat):
            super().__init__(shape=mat.shape, dtype=mat.dtype)
            self.mat = mat

        def _getparamnames(self, prefix=""):
            return [prefix + "mat"]

    class NoInit(L):
        def __init__(self, mat):
            self.mat = mat

        def _mv(self, x):
            return torch.matmul(self.mat, x.unsqueeze(-1)).squeeze(-1)

    x2 = randn((2,), torch.float64, g)
    return {
        "herm_nonsquare_flag": lambda: cls["mv"](randn((3, 2), torch.float64, g), True),
        "herm_nonsquare_flag_batched": lambda: cls["all"](randn((2, 2, 3), torch.float64, g), True),
        "m_hermitian_true_on_nonhermitian": lambda: L.m(nonherm, is_hermitian=True),
        "m_hermitian_true_on_nonhermitian_complex": lambda: L.m(
            torch.complex(nonherm + nonherm.T, nonherm + nonherm.T), is_hermitian=True),
        "m_hermitian_true_on_nonsquare": lambda: L.m(randn((3, 2), torch.float64, g), is_hermitian=True),
        "shape_one_dim": lambda: cls["mv"](randn((3,), torch.float64, g)),
        "mul_tensor": lambda: A32 * torch.tensor(2.0, dtype=torch.float64),
        "mul_complex": lambda: A32 * (1 + 2j),
        "rmul_complex": lambda: (1 + 2j) * A32,
        "mul_str": lambda: A32 * "2",
        "mul_tensor_matrixop": lambda: M32 * torch.tensor(2.0, dtype=torch.float64),
        "mul_complex_matrixop": lambda: M32 * (1 + 2j),
        "add_number": lambda: A32 + 3.0,
        "add_tensor": lambda: A32 + randn((3, 2), torch.float64, g),
        "sub_tensor": lambda: A32 - randn((3, 2), torch.float64, g),
        "matmul_shape": lambda: A32.matmul(B33),
        "matmul_shape_matrixops": lambda: M32.matmul(M32),
        "add_shape": lambda: A32 + B33,
        "add_shape_transposed": lambda: A32 + A32.H,
        "sub_shape": lambda: B33 - A32,
        "subclass_without_mv": lambda: NoMv(randn((3, 2), torch.float64, g)),
        "subclass_without_init:mv": lambda: NoInit(randn((3, 2), torch.float64, g)).mv(x2),
        "subclass_without_init:mm": lambda: NoInit(randn((3, 2), torch.float64, g)).mm(randn((2, 2), torch.float64, g)),
        "subclass_without_init:rmv": lambda: NoInit(randn((3, 2), torch.float64, g)).rmv(randn((3,), torch.float64, g)),
        "subclass_without_init:fullmatrix": lambda: NoInit(randn((3, 2), torch.float64, g)).fullmatrix(),
    }


BAD = ["herm_nonsquare_flag", "herm_nonsquare_flag_batched", "m_hermitian_true_on_nonhermitian",
       "m_hermitian_true_on_nonhermitian_complex", "m_hermitian_true_on_nonsquare", "shape_one_dim", "mul_tensor",
       "mul_complex", "rmul_complex", "mul_str", "mul_tensor_matrixop", "mul_complex_matrixop", "add_number",
       "add_tensor", "sub_tensor", "matmul_shape", "matmul_shape_matrixops", "add_shape", "add_shape_transposed",
       "sub_shape", "subclass_without_mv", "subclass_without_init:mv", "subclass_without_init:mm",
       "subclass_without_init:rmv", "subclass_without_init:fullmatrix"]


def run_bad(cfg):
    with pristine_flags():
        spec = _bad_specs()[cfg["what"]]
        o = call(spec)
    viol = []
    if o.exc is None:
        viol.append(V("malformed-construction-accepted:%s" % cfg["what"],
                      {"returned": str(type(o.value).__name__)}))
    return viol, {"outcome": type(o.exc).__name__ if o.exc is not None else "returned"}, 1, 0


# ------------------------------------------------------------------ (b) instantiation histories

FLAG_NAMES = ["mm", "rmv", "rmm", "fullmatrix", "getparamnames"]
_PRISTINE = {}


def _lib_classes():
    xt = _xt()
    import xitorch._core.linop as lo
    import xitorch.grad.jachess as jh
    L = xt.LinearOperator
    res = [L]
    for mod in (lo, jh):
        for v in vars(mod).values():
            if isinstance(v, type) and issubclass(v, L) and v is not L and v not in res:
                res.append(v)
    for v in leaf_classes().values():
        res.append(v)
    return res


def _is_state_attr(k):
    return k.startswith("_is_") or k.startswith("_implementation") or k.startswith("_impl")


def capture_pristine():
    """class-level state attributes of LinearOperator and the library subclasses, taken at import time (before any
    operator has been instantiated in this process)"""
    if _PRISTINE:
        return
    for c in _lib_classes():
        _PRISTINE[c] = {k: v for k, v in vars(c).items() if _is_state_attr(k)}


def _set_state(target):
    for c, want in target.items():
        cur = {k: v for k, v in vars(c).items() if _is_state_attr(k)}
        for k in cur:
            if k not in want:
                delattr(c, k)
        for k, v in want.items():
            if k not in cur or cur[k] is not v:
                setattr(c, k, v)


class pristine_flags:
    """run a block from the import-time class state; restore the state found at entry afterwards"""

    def __enter__(self):
        capture_pristine()
        self.saved = {c: {k: v for k, v in vars(c).items() if _is_state_attr(k)} for c in _PRISTINE}
        _set_state(_PRISTINE)
        return self

    def __exit__(self, *a):
        _set_state(self.saved)
        return False


def make_hierarchy(counter):
    L = _xt().LinearOperator

    class Base(L):
        def __init__(self, mat):
            super().__init__(shape=tuple(mat.shape), dtype=mat.dtype, device=mat.device)
            self.mat = mat

        def _mv(self, x):
            return torch.matmul(self.mat, x.unsqueeze(-1)).squeeze(-1)

        def _getparamnames(self, prefix=""):
            return [prefix + "mat"]

    class Mid(Base):
        def _rmv(self, x):
            counter["_rmv"] = counter.get("_rmv", 0) + 1
            return torch.matmul(self.mat.transpose(-2, -1).conj(), x.unsqueeze(-1)).squeeze(-1)

    class Leaf(Mid):
        def _mm(self, x):
            counter["_mm"] = counter.get("_mm", 0) + 1
            return torch.matmul(self.mat, x)

        def _fullmatrix(self):
            counter["_fullmatrix"] = counter.get("_fullmatrix", 0) + 1
            return self.mat

    class Other(Base):
        def _rmm(self, x):
            counter["_rmm"] = counter.get("_rmm", 0) + 1
            return torch.matmul(self.mat.transpose(-2, -1).conj(), x)

    return {"B": Base, "M": Mid, "F": Leaf, "O": Other}


DEFINES = {"B": ["getparamnames"], "M": ["rmv", "getparamnames"], "F": ["rmv", "mm", "fullmatrix", "getparamnames"],
           "O": ["rmm", "getparamnames"], "D": ["mm", "rmv", "rmm", "fullmatrix", "getparamnames"]}
CLSNAME = {"B": "Base", "M": "Mid", "F": "Leaf", "O": "Other", "D": "MatrixLinearOperator", "X": "LinearOperator"}


def check_instance(ev, inst, mat, counter, dtype, hist, viol, sig):
    """invariant for one instantiated class; returns number of library calls"""
    n = 0
    name = CLSNAME[ev]
    at = {"cls": name, "history": ">".join(hist), "before": "".join(hist[:hist.index(ev)])}
    flags = []
    for f in FLAG_NAMES:
        o = call(lambda: getattr(inst, "is_%s_implemented" % f))
        want = f in DEFINES[ev]
        if o.exc is not None:
            viol.append(V(exc_fail(o.exc), {"property": f}, product="is_%s_implemented" % f, **at))
            flags.append(None)
        else:
            flags.append(bool(o.value))
            if bool(o.value) != want:
                viol.append(V("capability-flag-wrong:is_%s_implemented" % f,
                              {"got": bool(o.value), "class_defines": want}, product="is_%s_implemented" % f, **at))
    sig.append((ev, tuple(flags)))
    g = gen(4242)
    p, q = mat.shape[-2], mat.shape[-1]
    Dh = _ct(mat)
    x, X = randn((q,), dtype, g), randn((q, 2), dtype, g)
    y, Y = randn((p,), dtype, g), randn((p, 2), dtype, g)
    eps = torch.finfo(dtype).eps
    prods = [("mv", lambda: inst.mv(x), _mvref(mat, x), None),
             ("mm", lambda: inst.mm(X), mat @ X, "mm"),
             ("rmv", lambda: inst.rmv(y), _mvref(Dh, y), "rmv"),
             ("rmm", lambda: inst.rmm(Y), Dh @ Y, "rmm"),
             ("fullmatrix", lambda: inst.fullmatrix(), mat, "fullmatrix"),
             ("H.mv", lambda: inst.H.mv(y), _mvref(Dh, y), None),
             ("H.rmv", lambda: inst.H.rmv(x), _mvref(mat, x), None)]
    res = {}
    for pname, f, ref, own in prods:
        counter.clear()
        o = call(f)
        n += 1
        if o.exc is not None:
            viol.append(V(exc_fail(o.exc), {"product": pname}, product=pname, **at))
            continue
        res[pname] = o.value
        if not isinstance(o.value, torch.Tensor) or tuple(o.value.shape) != tuple(ref.shape):
            viol.append(V("shape-mismatch:%s" % pname, {"want": list(ref.shape)}, product=pname, **at))
            continue
        err = (o.value - ref).abs().max().item()
        tol = 256 * eps * max(1.0, ref.abs().max().item()) * q
        if not (err <= tol):
            viol.append(V("value-mismatch:%s" % pname, {"err": err, "tol": tol}, product=pname, **at))
        if own is not None and ev != "D" and own in DEFINES[ev] and counter.get("_" + own, 0) < 1:
            viol.append(V("defined-method-not-used:_%s" % own, {"product": pname, "calls": dict(counter)},
                          product=pname, **at))
    if "H.mv" in res and "rmv" in res and res["H.mv"].shape == res["rmv"].shape:
        err = (res["H.mv"] - res["rmv"]).abs().max().item()
        if not (err <= 512 * eps * max(1.0, mat.abs().max().item()) * q):
            viol.append(V("H.mv-differs-from-rmv", {"err": err}, product="H.mv", **at))
    return n


def run_path(order, dtype, mode, viol, states):
    """one history, executed from the pristine class state on a freshly generated hierarchy"""
    xt = _xt()
    L = xt.LinearOperator
    counter = {}
    n = 0
    trans = 0
    with pristine_flags():
        classes = make_hierarchy(counter)
        g = gen(99)
        insts = []      # (event, instance, matrix)
        hist = []
        for ev in order:
            hist.append(ev)
            trans += 1
            if ev == "X":
                o = call(lambda: L(shape=(3, 2), dtype=dtype))
                n += 1
                if o.exc is None:
                    viol.append(V("abstract-LinearOperator-instantiated", {"returned": str(type(o.value))},
                                  cls="LinearOperator", history=">".join(hist), before="".join(hist[:-1])))
            else:
                mat = randn((2, 3, 2), dtype, g)
                if ev == "D":
                    o = call(lambda: L.m(mat))
                else:
                    o = call(classes[ev], mat)
                n += 1
                if o.exc is not None:
                    viol.append(V(exc_fail(o.exc), {"in": "instantiation"}, cls=CLSNAME[ev], product="construct",
                                  history=">".join(hist), before="".join(hist[:-1])))
                else:
                    insts.append((ev, o.value, mat))
            if mode == "each" or len(hist) == len(order):
                sig = []
                for (e, inst, mat) in insts:
                    n += check_instance(e, inst, mat, counter, dtype, hist, viol, sig)
                states.add((tuple(sorted(hist)), tuple(sig)))
    return n, trans


def run_hist(cfg):
    dtype = DT[cfg["dtype"]]
    rest = [e for e in cfg["subset"] if e != cfg["first"]]
    viol = []
    states = set()
    n = trans = npaths = 0
    for perm in itertools.permutations(rest):
        order = [cfg["first"]] + list(perm)
        a, b = run_path(order, dtype, cfg["mode"], viol, states)
        n += a
        trans += b
        npaths += 1
    # dedupe on (failure, class, set of classes instantiated before); keep the shortest history
    uniq = {}
    for v in viol:
        k = (v["failure"], v["at"].get("cls"), "".join(sorted(v["at"].get("before", ""))))
        if k not in uniq or len(v["at"]["history"]) < len(uniq[k]["at"]["history"]):
            uniq[k] = v
    table = {"paths": npaths, "states": len(states),
             "flagsets": sorted(set(str(s[1]) for s in states))[:6]}
    return list(uniq.values()), table, n, npaths, len(states), trans


# ------------------------------------------------------------------ entry point

def run_case(cfg):
    capture_pristine()
    part = cfg["part"]
    states = transitions = 0
    if part == "t1":
        viol, table, n, nt = run_t1(cfg)
    elif part == "t2c":
        viol, table, n, nt = run_t2c(cfg)
    elif part == "t2s":
        viol, table, n, nt = run_t2s(cfg)
    elif part == "t3":
        viol, table, n, nt = run_t3(cfg)
    elif part == "bad":
        viol, table, n, nt = run_bad(cfg)
    elif part == "hist":
        viol, table, n, nt, states, transitions = run_hist(cfg)
    else:
        raise ValueError(part)
    if part in ("t1", "t2c", "t2s", "t3"):
        viol = _dedupe(viol)
        if "fp" in table:
            table["fp"] = rnd(float(table["fp"]), 8)
        table = dict(sorted(table.items()))
        table["trees"] = nt
    res = {"viol": viol, "obs": {"part": part, "table": table, "nviol": len(viol)},
           "trivial": n == 0, "n": n, "status": "ok" if not viol else "violation",
           "trees": nt}
    if part == "hist":
        res["states"] = states
        res["transitions"] = transitions
    else:
        res["states"] = nt
        res["transitions"] = n
    return res


def coverage_extra(tier, seed, results):
    trees = sum(r.get("trees", 0) for r in results if r["cfg"]["part"] in ("t1", "t2c", "t2s", "t3"))
    paths = sum(r.get("trees", 0) for r in results if r["cfg"]["part"] == "hist")
    parts = {}
    for r in results:
        p = r["cfg"]["part"]
        parts[p] = parts.get(p, 0) + 1
    return {"expression_trees": trees, "history_paths": paths, "cases_per_part": parts,
            "max_depth": 6}


capture_pristine()
