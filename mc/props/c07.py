"""C07 — solve_ivp integrates the ODE with the declared scheme and accuracy.

Three layers (DESIGN.md §5 C07):
 (a) scheme extraction with a call-programmed right-hand side (k-th answer = e_k): the executed tableau of the
     fixed-step methods equals the textbook one on every interval of every grid, the executed coefficients of
     rk23/rk45 satisfy every rooted-tree order condition, the embedded pair has the declared lower order
     (decided from accept/reject of steps whose stage answers are programmed to elementary weights);
 (b) behavioural lattice method x family x grid x tolerance x dtype with closed-form solutions;
 (c) rejections.
"""
from __future__ import annotations
import math
import torch

from mc.util import V, call, rnd, gen
from mc.props._ivp_common import (FIXED, ADAPTIVE, METHODS, STAGES, ORDER, EMB_ORDER, TABLEAU, EMB_E, eps_of, dt_of,
                                  rooted_trees, tree_order, tree_gamma, tree_name, elem_weights, Spy, unit_answer,
                                  parse_attempts)

ID = "C07"
LEVEL = "exploration"
DESIGN_REF = "DESIGN.md §5 C07"
RULE = ("union of five complete lattices: [tableau] fixed-step method x grid (single interval h in {0.5,-0.5,1e-3,7}, "
        "uniform 3/6 points, ragged 6 points, decreasing copies) x dtype with the k-th evaluation answered by e_k; "
        "[scheme] adaptive method x the same grids: extraction of (c,A,b,FSAL row), all 4/17 rooted-tree order "
        "conditions, and one programmed scalar problem per rooted tree of order <= p_hat+1 (accept/reject observed); "
        "[lattice] method x ODE family (7) x grid (13: single point, uniform 2/5/9, ragged, very short, long, and the "
        "decreasing copy of each) x (atol,rtol) (3, adaptive only) x dtype; [order] fixed-step method x family by "
        "h-halving; [reject] method x non-1-D ts shapes.  Thorough adds value planes (rates / initial values scaled by "
        "seed-derived factors).  distinct = distinct observation hashes (extracted coefficients, error ratios, step "
        "counts); a case is trivial only for the single-time-point grid")
RULE_ADDED = 'Added later: stage-2 conformance of every accepted adaptive step, per-step error budgets with the signed logarithmic norm, purely relative tolerances, call-order plane in fresh interpreters, mixdt (float32 time grid with float64 state: dtype, y[0] == y0 bit for bit, agreement with the float64 grid). Round 4: nested plane (the right-hand side calls solve_ivp re-entrantly with the same method and state size). Round 5: domain plane (adaptive method x right-hand sides that are NaN outside the half space containing the exact solution x long first output intervals x tolerances x dtype: the trial step that leaves the domain has to be rejected; finite result within the global error bound). Round 6: evaluation budget of the spied right-hand side (100 000 per solve; exceeding it is a violation). Round 7: cplx (complex state, non-normal complex linear system: matrix-exponential reference for the adaptive methods, textbook tableau in complex arithmetic for the fixed-step ones) and tol0 (rtol or atol given as exactly 0 / 0.0: purely absolute request on |y| ~ 1, purely relative request on |y| ~ 1e-12).'
ASSUMPTIONS = [
    "the right-hand side is evaluated once at the start and then s times per attempted step of rk23/rk45, the last "
    "evaluation being at the end of the step (used only to read accept/reject and step counts from the call log; "
    "when the log has another shape those sub-checks are skipped, not failed)",
    "float32 is not asked for tolerances below 100*eps (the (1e-10,1e-8) setting is float64 only)",
    "global error bound: 10*(atol+rtol*max|y|)*steps*exp(mu*|t-t0|) + 100*eps*evaluations*max|y|*exp(mu*|t-t0|), mu = "
    "one-sided Lipschitz constant (logarithmic 2-norm, clipped at 0) of the family in the direction of integration",
    "time grids are strictly monotone; ts and y0 share one dtype except in the mixdt plane (float32 grid, float64 state)",
]
BUDGET_S = {"quick": 300, "thorough": 3000}

TREES = rooted_trees(5)
# "rel": a purely relative request (atol far below rtol |y| along the whole trajectory): enumerated for the
# contractive linear families, whose solutions decay by orders of magnitude over the long grids
TOLS = {"default": (1e-8, 1e-5), "tight": (1e-10, 1e-8), "loose": (1e-4, 1e-3), "rel": (1e-14, 1e-6)}
REL_FAMILIES = ("decay", "bdecay", "lin2", "lin3")
REL_GRIDS = ("u9", "long", "ragged")


# ====================================================================== grids

def grid_points(name):
    dec = name.endswith("-dec")
    base = name[:-4] if dec else name
    if base == "single":
        g = [0.5]
    elif base == "u2":
        g = [0.0, 1.0]
    elif base == "u3":
        g = [0.0, 0.5, 1.0]
    elif base == "u5":
        g = [0.25 * i for i in range(5)]
    elif base == "u6":
        g = [0.25 + 0.125 * i for i in range(6)]
    elif base == "u9":
        g = [0.25 * i for i in range(9)]
    elif base == "ragged":
        g = [0.25, 0.3, 0.75, 0.8, 1.5, 1.625]
    elif base == "short":
        g = [0.5, 0.5 + 1e-6]
    elif base == "long":
        g = [0.0, 8.0]
    elif base.startswith("h="):
        g = [0.0, float(base[2:])]
    else:
        raise KeyError(name)
    return list(reversed(g)) if dec else g


LATTICE_GRIDS = ["single", "u2", "u5", "u9", "ragged", "short", "long",
                 "u2-dec", "u5-dec", "u9-dec", "ragged-dec", "short-dec", "long-dec"]
EXTRACT_GRIDS = ["h=0.5", "h=-0.5", "h=0.001", "h=7.0", "u3", "u6", "ragged", "u3-dec", "u6-dec", "ragged-dec"]


# ====================================================================== ODE families with closed-form flows

class Family:
    tuple_state = False

    def __init__(self, plane, seed):
        # plane 0 is fixed; other planes scale rates and initial values by seed-derived factors in [0.75, 1.25]
        if plane == 0:
            self.fr, self.fy = 1.0, 1.0
        else:
            g = gen(1000 * plane + seed)
            u = torch.rand(2, generator=g, dtype=torch.float64)
            self.fr = float(0.75 + 0.5 * u[0])
            self.fy = float(0.75 + 0.5 * u[1])

    # state handling: a state is a tensor, or a tuple of tensors for tuple families
    def flat(self, y):
        if isinstance(y, (tuple, list)):
            return torch.cat([v.reshape(-1) for v in y])
        return y.reshape(-1)

    def mu_raw(self, sgn, tlo, thi):
        """signed upper bound of the logarithmic 2-norm of the Jacobian in the direction of integration (negative
        for contractive dynamics); default: the clipped bound"""
        return self.mu(sgn, tlo, thi)


class Decay(Family):
    name = "decay"

    def y0(self, dt):
        return torch.tensor([0.8 * self.fy], dtype=dt)

    def rhs(self, t, y):
        return -(1.3 * self.fr) * y

    def flow(self, t0, y0, t):
        return y0 * math.exp(-(1.3 * self.fr) * (t - t0))

    def mu(self, sgn, tlo, thi):
        return max(0.0, -sgn * 1.3 * self.fr)

    def mu_raw(self, sgn, tlo, thi):
        return -sgn * 1.3 * self.fr

    def lip(self, tmax, ymax):
        return 1.3 * self.fr


class Lin(Family):
    def __init__(self, plane, seed, n):
        super().__init__(plane, seed)
        self.n = n
        if n == 2:
            A = [[-0.3, 2.0], [-1.5, -0.3]]
            self.y0v = [1.0, -0.5]
        else:
            A = [[-0.2, 1.5, 0.3], [-1.5, -0.2, 0.7], [0.0, -0.7, -0.5]]
            self.y0v = [1.0, 0.5, -0.7]
        self.A64 = torch.tensor(A, dtype=torch.float64) * self.fr
        self.name = "lin%d" % n
        sym = 0.5 * (self.A64 + self.A64.T)
        ev = torch.linalg.eigvalsh(sym)
        self._mu_f = float(ev[-1])
        self._mu_b = float(-ev[0])
        self._L = float(torch.linalg.matrix_norm(self.A64, 2))
        self._Ad = {}

    def y0(self, dt):
        return torch.tensor(self.y0v, dtype=dt) * self.fy

    def rhs(self, t, y):
        A = self._Ad.get(y.dtype)
        if A is None:
            A = self._Ad[y.dtype] = self.A64.to(y.dtype)
        return A @ y

    def flow(self, t0, y0, t):
        return torch.linalg.matrix_exp(self.A64 * (t - t0)) @ y0

    def mu(self, sgn, tlo, thi):
        return max(0.0, self._mu_f if sgn > 0 else self._mu_b)

    def mu_raw(self, sgn, tlo, thi):
        return self._mu_f if sgn > 0 else self._mu_b

    def lip(self, tmax, ymax):
        return self._L


class Logistic(Family):
    name = "logistic"

    def y0(self, dt):
        return torch.tensor([0.2, 0.6], dtype=dt) * self.fy

    def rhs(self, t, y):
        return (1.5 * self.fr) * y * (1.0 - y)

    def flow(self, t0, y0, t):
        e = math.exp(1.5 * self.fr * (t - t0))
        return y0 * e / (1.0 - y0 + y0 * e)

    def mu(self, sgn, tlo, thi):
        # J = r (1 - 2y), y in (0, 1) along the exact trajectories used; numerical trajectory may leave by the error
        return 1.5 * self.fr * 1.2

    def lip(self, tmax, ymax):
        return 1.5 * self.fr * (1.0 + 2.0 * ymax)


class Separable(Family):
    name = "sep"

    def y0(self, dt):
        return torch.tensor([1.1 * self.fy], dtype=dt)

    def rhs(self, t, y):
        return -(2.0 * self.fr) * t * y

    def flow(self, t0, y0, t):
        return y0 * math.exp(-self.fr * (t * t - t0 * t0))

    def mu(self, sgn, tlo, thi):
        # J = -2 r t on [tlo, thi]
        return max(0.0, max(-sgn * 2.0 * self.fr * tlo, -sgn * 2.0 * self.fr * thi))

    def lip(self, tmax, ymax):
        return 2.0 * self.fr * tmax


class Osc(Family):
    """harmonic oscillators as a tuple state (q of shape (2,), p of shape (1,2)): q' = p, p' = -w^2 q"""
    name = "osc"
    tuple_state = True

    def __init__(self, plane, seed):
        super().__init__(plane, seed)
        self.w64 = torch.tensor([1.0, 2.0], dtype=torch.float64) * self.fr
        self._wd = {}

    def y0(self, dt):
        return (torch.tensor([1.0, -0.4], dtype=dt) * self.fy, torch.tensor([[0.3, 0.9]], dtype=dt) * self.fy)

    def _w2(self, dt):
        w = self._wd.get(dt)
        if w is None:
            w = self._wd[dt] = (self.w64 ** 2).to(dt)
        return w

    def rhs(self, t, y):
        q, p = y
        return (p.reshape(2), (-self._w2(q.dtype) * q).reshape(1, 2))

    def rhs_cat(self, t, y):
        q, p = y[:2], y[2:]
        return torch.cat([p, -self._w2(y.dtype) * q])

    def flow(self, t0, y0, t):
        q, p = y0[:2], y0[2:]
        w = self.w64
        c, s = torch.cos(w * (t - t0)), torch.sin(w * (t - t0))
        return torch.cat([q * c + p / w * s, -q * w * s + p * c])

    def mu(self, sgn, tlo, thi):
        return float(((1.0 - self.w64 ** 2).abs() / 2).max())

    def lip(self, tmax, ymax):
        return float(torch.maximum(self.w64 ** 2, torch.ones(2, dtype=torch.float64)).max())


class BDecay(Family):
    """batched decay, state of shape (2,3), one rate per element"""
    name = "bdecay"

    def __init__(self, plane, seed):
        super().__init__(plane, seed)
        self.a64 = torch.tensor([[0.5, 0.9, 1.6], [1.1, 0.7, 1.3]], dtype=torch.float64) * self.fr
        self._ad = {}

    def y0(self, dt):
        return torch.tensor([[1.0, -0.5, 0.25], [2.0, 0.7, -1.2]], dtype=dt) * self.fy

    def rhs(self, t, y):
        a = self._ad.get(y.dtype)
        if a is None:
            a = self._ad[y.dtype] = self.a64.to(y.dtype)
        return -a * y

    def flow(self, t0, y0, t):
        return y0 * torch.exp(-self.a64.reshape(-1) * (t - t0))

    def mu(self, sgn, tlo, thi):
        return max(0.0, float((-sgn * self.a64).max()))

    def mu_raw(self, sgn, tlo, thi):
        return float((-sgn * self.a64).max())

    def lip(self, tmax, ymax):
        return float(self.a64.max())


FAMILIES = ["decay", "lin2", "lin3", "logistic", "sep", "osc", "bdecay"]


def make_family(name, plane, seed):
    if name == "decay":
        return Decay(plane, seed)
    if name == "lin2":
        return Lin(plane, seed, 2)
    if name == "lin3":
        return Lin(plane, seed, 3)
    if name == "logistic":
        return Logistic(plane, seed)
    if name == "sep":
        return Separable(plane, seed)
    if name == "osc":
        return Osc(plane, seed)
    if name == "bdecay":
        return BDecay(plane, seed)
    raise KeyError(name)


# ====================================================================== enumeration

def _pl(cfg, seed):
    """the seed only selects the numeric instance of the extra value planes"""
    if cfg["plane"] != 0:
        cfg["seed"] = int(seed)
    return cfg


# ---- call-order plane (fresh interpreters, see _hist_common): results must not depend on earlier calls
HIST_LABELS = [("float32", "rk45"), ("float64", "rk45"), ("float64", "rk23"), ("float32", "rk23"), ("float64", "rk4"),
               ("float32", "rk4")]
HIST_TOL = [1e-4, 1e-9, 1e-9, 1e-4, 1e-12, 1e-5]
HIST_PRELUDE = r'''
import torch
from xitorch.integrate import solve_ivp
CALLS = %r
def do(i):
    dtn, method = CALLS[i]
    dt = getattr(torch, dtn)
    A = torch.tensor([[-0.3, 2.0], [-1.5, -0.3]], dtype=dt)
    def f(t, y):
        return A @ y + torch.cos(3.0 * t) * torch.tensor([0.2, -0.1], dtype=dt)
    ts = torch.linspace(0.0, 2.0, 6, dtype=dt)
    y0 = torch.tensor([1.0, -0.5], dtype=dt)
    opts = {"atol": 1e-12, "rtol": 1e-9} if (method != "rk4" and dtn == "float64") else ({} if method == "rk4" else {"atol": 1e-6, "rtol": 1e-4})
    return solve_ivp(f, ts, y0, method=method, **opts).double().reshape(-1).tolist()
''' % (HIST_LABELS,)


def cases(tier, seed):
    out = []
    dtypes = ["float64", "float32"]
    # (a) scheme extraction
    for m in FIXED:
        for g in EXTRACT_GRIDS:
            for d in dtypes:
                out.append({"kind": "tableau", "method": m, "grid": g, "dtype": d})
    for m in ADAPTIVE:
        for g in EXTRACT_GRIDS:
            out.append({"kind": "scheme", "method": m, "grid": g, "dtype": "float64"})
    # (c) rejections
    for m in METHODS:
        for shp in ["0d", "2x1", "1x2", "2x2"]:
            out.append({"kind": "reject", "method": m, "ts_shape": shp, "dtype": "float64"})
    # h-halving
    planes = [0] if tier == "quick" else [0, 1, 2, 3, 4]
    for pl in planes:
        for m in FIXED:
            for f in FAMILIES:
                out.append(_pl({"kind": "order", "method": m, "family": f, "dtype": "float64", "plane": pl}, seed))
    # (b) behavioural lattice
    for pl in planes:
        for g in LATTICE_GRIDS:
            for f in FAMILIES:
                for m in METHODS:
                    for d in dtypes:
                        if m in FIXED:
                            out.append(_pl({"kind": "lattice", "method": m, "family": f, "grid": g, "tol": "none",
                                            "dtype": d, "plane": pl}, seed))
                        else:
                            for tl in ("default", "tight", "loose"):
                                if d == "float32" and tl == "tight":
                                    continue
                                out.append(_pl({"kind": "lattice", "method": m, "family": f, "grid": g, "tol": tl,
                                                "dtype": d, "plane": pl}, seed))
                            if d == "float64" and f in REL_FAMILIES and g in REL_GRIDS:
                                out.append(_pl({"kind": "lattice", "method": m, "family": f, "grid": g, "tol": "rel",
                                                "dtype": d, "plane": pl}, seed))
    # (d) time grid and state of different dtypes (float32 grid as produced by torch.linspace without a dtype,
    # float64 state): the result has the dtype of the state, starts at y0 bit for bit and agrees with the run on
    # the same times given in float64
    for m in METHODS:
        for f in FAMILIES:
            for g in (("u5", "ragged", "u5-dec") if tier == "quick" else LATTICE_GRIDS):
                out.append({"kind": "mixdt", "method": m, "family": f, "grid": g, "dtype": "float64",
                            "tsdtype": "float32", "plane": 0})
    # (f) right-hand sides defined only on the domain of the solution (NaN beyond it): a trial step that leaves the
    # domain must be rejected like any other failed step
    for m in ADAPTIVE:
        for f in DOMAIN_FAMILIES:
            for g in DOMAIN_GRIDS:
                for tl in ("default", "tight", "loose"):
                    for d in dtypes:
                        if d == "float32" and tl == "tight":
                            continue
                        out.append({"kind": "domain", "method": m, "family": f, "grid": g, "tol": tl, "dtype": d})
    # (e) re-entrancy: the right-hand side of a solve calls solve_ivp itself (same method, same state size, same
    # dtype): nothing of the inner call may leak into the outer one
    for m in METHODS:
        for d in dtypes:
            for inner in ("same", "rk4" if m != "rk4" else "rk45"):
                out.append({"kind": "nested", "method": m, "inner": (m if inner == "same" else inner), "dtype": d})
    # (g) complex state (y' = C y with a non-normal complex C; closed form by the matrix exponential; fixed-step
    # methods against the textbook tableau in complex arithmetic) and (h) a tolerance given as exactly 0
    for m in METHODS:
        for g in ("u5", "ragged", "long", "u5-dec", "ragged-dec"):
            for tl in (("default", "tight") if m in ADAPTIVE else ("-",)):
                out.append({"kind": "cplx", "method": m, "grid": g, "tol": tl})
    for m in ADAPTIVE:
        for z in ("rtol0", "atol0", "atol0-int", "rtol0-int"):
            for g in ("u5", "long", "u5-dec"):
                out.append({"kind": "tol0", "method": m, "zero": z, "grid": g})
    from mc.props import _hist_common as H
    H.spread(out, H.hist_cases(len(HIST_LABELS), 2 if tier == "quick" else 3))
    return out


# ====================================================================== helpers

def _solve(f, ts, y0, method, **opts):
    from xitorch.integrate import solve_ivp
    return call(solve_ivp, f, ts, y0, method=method, **opts)


def _exc_v(o, **at):
    return V("exception:%s" % o.exc_sig, {"message": str(o.exc)[:300]}, **at)


def _bits_equal(a, b):
    return a.shape == b.shape and a.dtype == b.dtype and bool(torch.equal(a, b))


# ====================================================================== (a) fixed-step tableau extraction

def run_tableau(cfg):
    m, dt = cfg["method"], dt_of(cfg["dtype"])
    eps = eps_of(dt)
    c, A, b = TABLEAU[m]
    s = STAGES[m]
    pts = grid_points(cfg["grid"])
    ts = torch.tensor(pts, dtype=dt)
    n = len(pts)
    N = s * (n - 1) + 2
    y0 = torch.zeros(N, dtype=dt)
    y0[N - 1] = 1.0                       # a slot no answer ever touches: must be carried unchanged
    spy = Spy(answer=unit_answer(N, dt))
    o = _solve(spy.f, ts, y0, m)
    if o.exc is not None:
        return {"viol": [_exc_v(o)], "status": "exception", "obs": {"exc": o.exc_sig}}
    yt = o.value
    viol = []
    if tuple(yt.shape) != (n, N):
        return {"viol": [V("result-shape", {"shape": list(yt.shape), "expected": [n, N]})], "obs": None}
    if not _bits_equal(yt[0], y0):
        viol.append(V("y[0]-differs-from-y0", {"y[0]": rnd(yt[0])}))
    if len(spy.log) != s * (n - 1):
        viol.append(V("evaluation-count", {"calls": len(spy.log), "expected": s * (n - 1)}))
        return {"viol": viol, "obs": {"calls": len(spy.log)}}
    tmax = max(abs(x) for x in pts)
    worst = {"c": 0.0, "a": 0.0, "b": 0.0}
    for i in range(n - 1):
        ti = float(ts[i])
        h = float(ts[i + 1] - ts[i])          # the step in the arithmetic of the dtype
        own = list(range(i * s, i * s + s))
        for j in range(s):
            t, y = spy.log[i * s + j]
            # node
            dtm = abs(t - (ti + c[j] * h)) / (eps * tmax)
            worst["c"] = max(worst["c"], dtm)
            if dtm > 4.0:
                viol.append(V("tableau-node:c", {"interval": i, "stage": j, "t": t, "expected": ti + c[j] * h,
                                                 "c_executed": (t - ti) / h, "c": c[j]}, coef="c%d" % j))
            for mm in range(s):
                got = float(y[own[mm]]) / h
                ref = A[j][mm] if mm < j else 0.0
                d = abs(got - ref) / (eps * abs(ref)) if ref != 0.0 else (0.0 if got == 0.0 else float("inf"))
                worst["a"] = max(worst["a"], d if d != float("inf") else 1e30)
                if d > 4.0:
                    viol.append(V("tableau-coefficient:a", {"interval": i, "executed": got, "textbook": ref,
                                                            "ulp": d}, coef="a%d%d" % (j, mm)))
            rest = [k for k in range(N) if k not in own]
            if not torch.equal(y[rest], yt[i][rest]):
                viol.append(V("stage-argument-touches-foreign-components", {"interval": i, "stage": j}))
        for j in range(s):
            got = float(yt[i + 1][own[j]]) / h
            d = abs(got - b[j]) / (eps * abs(b[j]))
            worst["b"] = max(worst["b"], d)
            if d > 4.0:
                viol.append(V("tableau-weight:b", {"interval": i, "executed": got, "textbook": b[j], "ulp": d},
                              coef="b%d" % j))
        rest = [k for k in range(N) if k not in own]
        if not torch.equal(yt[i + 1][rest], yt[i][rest]):
            viol.append(V("state-leaks-across-intervals", {"interval": i, "row": rnd(yt[i + 1])}))
    return {"viol": _dedupe(viol), "obs": {"calls": len(spy.log), "worst_ulp": {k: rnd(v, 3) for k, v in worst.items()},
                                           "row_last": rnd(yt[-1], 8)}}


def _dedupe(viol, limit=6):
    seen = {}
    for v in viol:
        key = (v["failure"], tuple(sorted((k, str(x)) for k, x in v["at"].items())))
        if key not in seen:
            seen[key] = v
    return list(seen.values())[:limit]


# ====================================================================== (a) adaptive: extraction + order conditions

def _decode_attempt(log, a, s, sgn, ystart, N):
    """reads one attempted step of a run whose k-th evaluation was answered by e_k.
    returns (k0, rows, problems): k0 = index of the evaluation used as first-stage derivative, rows[j] (j = 1..s) =
    executed coefficients [a_j0, a_j1, .., a_j,j-1] of the evaluation j of the attempt"""
    hg = sgn * (a["u1"] - a["u0"])
    lo = a["lo"]
    k0 = None
    rows = {}
    problems = []
    for j in range(1, s + 1):
        y = log[lo + j - 1][1]
        delta = (y - ystart) / hg
        own = list(range(lo, lo + j - 1))
        mask = torch.ones(N, dtype=torch.bool)
        mask[own] = False
        outside = torch.nonzero((delta != 0) & mask).reshape(-1).tolist()
        if j == 1:
            if len(outside) != 1:
                problems.append(("first-stage-not-a-single-earlier-evaluation", {"support": outside[:6]}))
                return None, rows, problems
            k0 = outside[0]
        else:
            extra = [x for x in outside if x != k0]
            if extra:
                problems.append(("stage-uses-foreign-evaluation", {"stage": j, "extra": extra[:6]}))
        rows[j] = [float(delta[k0])] + [float(delta[k]) for k in own]
    return k0, rows, problems


def run_scheme(cfg):
    m, dt = cfg["method"], dt_of(cfg["dtype"])
    eps = eps_of(dt)
    s = STAGES[m]              # evaluations per attempt; evaluation s of an attempt is made at the end of the step
    p, ph = ORDER[m], EMB_ORDER[m]
    pts = grid_points(cfg["grid"])
    n = len(pts)
    sgn = 1.0 if pts[1] > pts[0] else -1.0
    ts = torch.tensor(pts, dtype=dt)
    tmax = max(abs(x) for x in pts)
    N = 2 + 2 * s * (n - 1) + 8 * s + 2
    y0 = torch.zeros(N, dtype=dt)
    y0[N - 1] = 1.0
    spy = Spy(answer=unit_answer(N, dt))
    o = _solve(spy.f, ts, y0, m, atol=1e30, rtol=0.0)
    if o.exc is not None:
        return {"viol": [_exc_v(o)], "status": "exception", "obs": {"exc": o.exc_sig}}
    yt = o.value
    viol = []
    if not _bits_equal(yt[0], y0):
        viol.append(V("y[0]-differs-from-y0", {"y[0]": rnd(yt[0])}))
    times = [t for t, _ in spy.log]
    att = parse_attempts(times, s, sgn, pts[0])
    if att is None or len(spy.log) > N - 1 or any(not a["acc"] for a in att):
        return {"viol": viol, "status": "log-shape-unrecognised", "obs": {"calls": len(spy.log)}}
    pre = att[0]["pre"]

    # ---- every attempted step (atol = 1e30: all are accepted): coefficients, and the first stage must be the
    #      derivative evaluated at the start point of the step
    Aex = None
    cex = None
    bex = None
    ystart = y0
    nsteps = 0
    for g, a in enumerate(att):
        hg = sgn * (a["u1"] - a["u0"])
        lo = a["lo"]
        if hg != 0.0:
            nsteps += 1
            k0, rows, problems = _decode_attempt(spy.log, a, s, sgn, ystart, N)
            for (fl, det) in problems:
                det["attempt"] = g
                viol.append(V(fl, det))
            if k0 is None:
                break
            t0g = sgn * a["u0"]
            tk, yk = spy.log[k0]
            if tk != t0g or not torch.equal(yk, ystart):
                viol.append(V("first-stage-derivative-not-evaluated-at-step-start",
                              {"attempt": g, "step_start_t": t0g, "used_evaluation": k0, "its_t": tk,
                               "its_y_equals_start": bool(torch.equal(yk, ystart))}))
            if Aex is None:
                Aex = [[0.0] * (s + 1) for _ in range(s + 1)]
                for j in range(1, s + 1):
                    for mm, v in enumerate(rows[j]):
                        Aex[j][mm] = v
                cex = [0.0] + [(spy.log[lo + j - 1][0] - t0g) / hg for j in range(1, s + 1)]
                h_first = hg
                yend = spy.log[lo + s - 1][1]
                # the weights of the propagated solution = coefficients of the point of the last evaluation
                bex = list(Aex[s])
                # the row returned for the time this step lands on must be that point
            else:
                for j in range(1, s + 1):
                    for mm, got in enumerate(rows[j]):
                        ref = Aex[j][mm]
                        if abs(got - ref) > 16 * eps * max(abs(ref), 1e-3):
                            viol.append(V("scheme-changes-between-steps", {"attempt": g, "stage": j, "m": mm,
                                                                           "first_step": ref, "this_step": got}))
        ystart = spy.log[lo + s - 1][1]
    if Aex is None:
        return {"viol": _dedupe(viol), "status": "log-shape-unrecognised", "obs": {"calls": len(spy.log)}}
    # returned rows are the points of the last evaluations of the steps that land on the requested times
    ends = {}
    for a in att:
        ends[a["u1"]] = spy.log[a["lo"] + s - 1][1]
    for i in range(1, n):
        ye = ends.get(sgn * pts[i])
        if ye is not None and not torch.equal(ye, yt[i]):
            viol.append(V("returned-row-differs-from-propagated-solution", {"i": i, "max_abs_diff":
                                                                           float((ye - yt[i]).abs().max())}))
    obs = {"calls": len(spy.log), "pre": pre, "steps": nsteps, "c": rnd(torch.tensor(cex), 12),
           "b": rnd(torch.tensor(bex), 12)}
    crel = 1.0 + tmax / abs(h_first)
    if abs(cex[s] - 1.0) > 8 * eps * crel:
        viol.append(V("scheme:last-evaluation-not-at-step-end", {"c_last": cex[s]}))
    # row sums
    for j in range(1, s + 1):
        rs = math.fsum(Aex[j][:j])
        sa = math.fsum(abs(x) for x in Aex[j][:j])
        tol = 16 * eps * max(sa, 1.0) + 4 * eps * crel
        if abs(rs - cex[j]) > tol:
            viol.append(V("scheme:row-sum-differs-from-node", {"stage": j, "sum_a": rs, "c": cex[j], "tol": tol},
                          coef="c%d" % j))
    # order conditions of the propagated formula: every rooted tree of order <= p
    absA = [[abs(x) for x in row] for row in Aex]
    worst_oc = 0.0
    for q in range(1, p + 1):
        for tr in TREES[q]:
            phi = elem_weights(Aex, tr)
            phia = elem_weights(absA, tr)
            lhs = math.fsum(bex[k] * phi[k] for k in range(s + 1))
            cond = math.fsum(abs(bex[k]) * phia[k] for k in range(s + 1))
            tol = 64 * eps * (tree_order(tr) + 1) * max(cond, 1.0)
            r = abs(lhs - 1.0 / tree_gamma(tr))
            worst_oc = max(worst_oc, r / tol)
            if r > tol:
                viol.append(V("order-condition-violated", {"tree": tree_name(tr), "order": q, "sum_b_phi": lhs,
                                                           "expected": 1.0 / tree_gamma(tr), "tol": tol},
                              tree=tree_name(tr), tree_order=q))
    obs["order_conditions_worst_over_tol"] = rnd(worst_oc, 3)

    # ---- embedded pair: order decided behaviourally, one programmed scalar problem per rooted tree
    pattern = {}
    if cfg["grid"].startswith("h="):
        hh = pts[1] - pts[0]
        for q in range(1, ph + 2):
            for tr in TREES[q]:
                phi = elem_weights(Aex, tr)

                def ans(k, t, y, phi=phi):
                    # evaluation 0 is stage 0; evaluations pre .. pre+s-1 are stages 1..s of the first attempt
                    if k == 0:
                        v = phi[0]
                    elif pre <= k < pre + s:
                        v = phi[k - pre + 1]
                    elif k < pre:
                        v = phi[0]
                    else:
                        v = 0.0
                    return torch.full((1,), v, dtype=dt)
                sp2 = Spy(answer=ans)
                o2 = _solve(sp2.f, torch.tensor([0.0, hh], dtype=dt), torch.zeros(1, dtype=dt), m,
                            atol=1e-11, rtol=0.0)
                if o2.exc is not None:
                    viol.append(_exc_v(o2, tree=tree_name(tr)))
                    continue
                att2 = parse_attempts([t for t, _ in sp2.log], s, 1.0 if hh > 0 else -1.0, 0.0)
                if att2 is None or att2[0]["pre"] != pre:
                    pattern[tree_name(tr)] = "?"
                    continue
                acc = att2[0]["acc"]
                pattern[tree_name(tr)] = "acc" if acc else "rej"
                if q <= ph and not acc:
                    viol.append(V("embedded-formula-below-declared-order",
                                  {"tree": tree_name(tr), "order": q, "declared_embedded_order": ph,
                                   "observation": "first attempt rejected although every elementary differential of "
                                                  "order <= p_hat must cancel in the error estimate"},
                                  tree=tree_name(tr), tree_order=q))
        top = [pattern.get(tree_name(tr)) for tr in TREES[ph + 1]]
        if "?" not in top and top and all(x == "acc" for x in top):
            viol.append(V("error-estimate-blind-at-order-p_hat+1",
                          {"pattern": pattern, "note": "no tree of order p_hat+1 is rejected: the estimator vanishes "
                                                       "or the embedded formula has the order of the propagated one"}))
        obs["pair"] = pattern
    return {"viol": _dedupe(viol), "obs": obs, "n": 1 + len(pattern)}


# ====================================================================== (c) rejections

def run_reject(cfg):
    m = cfg["method"]
    shp = {"0d": (), "2x1": (2, 1), "1x2": (1, 2), "2x2": (2, 2)}[cfg["ts_shape"]]
    nel = 1
    for k in shp:
        nel *= k
    ts = (torch.arange(nel, dtype=torch.float64) * 0.25).reshape(shp)
    fam = Decay(0, 0)
    opts = {} if m in FIXED else {"atol": 1e-8, "rtol": 1e-5}
    o = _solve(lambda t, y: fam.rhs(t, y), ts, fam.y0(torch.float64), m, **opts)
    if o.exc is None:
        val = o.value
        return {"viol": [V("bad-input-accepted:ts-not-1D", {"ts_shape": list(shp),
                                                            "returned_shape": list(getattr(val, "shape", []))})],
                "obs": {"returned": True}, "status": "accepted"}
    return {"viol": [], "obs": {"exc": type(o.exc).__name__}, "status": "rejected"}


# ====================================================================== h-halving order of the fixed-step methods

def run_order(cfg):
    m = cfg["method"]
    fam = make_family(cfg["family"], cfg.get("plane", 0), cfg.get("seed", 0))
    dt = torch.float64
    n1 = 64 if m == "euler" else 8
    errs = []
    for nint in (n1, 2 * n1):
        pts = [0.25 + 1.0 * i / nint for i in range(nint + 1)]
        ts = torch.tensor(pts, dtype=dt)
        y0 = fam.y0(dt)
        o = _solve(lambda t, y: fam.rhs(t, y), ts, y0, m)
        if o.exc is not None:
            return {"viol": [_exc_v(o)], "status": "exception", "obs": {"exc": o.exc_sig}}
        yt = o.value
        ytf = torch.cat([v.reshape(len(pts), -1) for v in yt], dim=1) if fam.tuple_state else yt.reshape(len(pts), -1)
        y0f = fam.flat(y0).double()
        e = 0.0
        for i, t in enumerate(pts):
            e = max(e, float((ytf[i] - fam.flow(pts[0], y0f, t)).norm()))
        errs.append(e)
    viol = []
    order = math.log2(errs[0] / errs[1]) if errs[0] > 0 and errs[1] > 0 else float("nan")
    if not (abs(order - ORDER[m]) <= 0.3):
        viol.append(V("convergence-order", {"observed": order, "declared": ORDER[m], "err_h": errs[0],
                                            "err_h/2": errs[1], "intervals": n1}))
    return {"viol": viol, "obs": {"order": rnd(order, 4), "err": rnd(errs[0], 4)}, "n": 2}


# ====================================================================== (b) behavioural lattice

def _ref_step(m, f, t, h, y):
    """one step of the textbook tableau, written as in the textbook: k_j = f(t + c_j h, y + h sum a_jm k_m)"""
    c, A, b = TABLEAU[m]
    ks = []
    ymax = float(y.abs().max())
    for j in range(len(c)):
        yj = y
        if j > 0:
            acc = None
            for mm in range(j):
                if A[j][mm] != 0.0:
                    term = A[j][mm] * ks[mm]
                    acc = term if acc is None else acc + term
            yj = y + h * acc
        ymax = max(ymax, float(yj.abs().max()))
        ks.append(f(t + c[j] * h, yj))
    acc = None
    for j in range(len(c)):
        term = b[j] * ks[j]
        acc = term if acc is None else acc + term
    scale = max([float(y.abs().max())] + [float((h * k).abs().max()) for k in ks])
    return y + h * acc, scale, ymax


def run_lattice(cfg):
    m, dt = cfg["method"], dt_of(cfg["dtype"])
    eps = eps_of(dt)
    fam = make_family(cfg["family"], cfg.get("plane", 0), cfg.get("seed", 0))
    pts = grid_points(cfg["grid"])
    n = len(pts)
    ts = torch.tensor(pts, dtype=dt)
    pts = [float(x) for x in ts]            # the times the library really sees
    dec = n > 1 and pts[1] < pts[0]
    sgn = -1.0 if dec else 1.0
    s = STAGES[m]
    opts = {}
    if m in ADAPTIVE:
        atol, rtol = TOLS[cfg["tol"]]
        opts = {"atol": atol, "rtol": rtol}

    # initial value: the base value on increasing grids; on decreasing grids the exact solution at the largest
    # time, so that the integration runs the same trajectory backwards
    y0 = fam.y0(dt)
    if dec:
        base = fam.flat(y0).double()
        end = fam.flow(min(pts), base, max(pts)).to(dt)
        if fam.tuple_state:
            parts, k = [], 0
            for v in y0:
                parts.append(end[k:k + v.numel()].reshape(v.shape))
                k += v.numel()
            y0 = tuple(parts)
        else:
            y0 = end.reshape(y0.shape)
    y0f = fam.flat(y0).double()
    shapes = [tuple(v.shape) for v in y0] if fam.tuple_state else [tuple(y0.shape)]

    def flat_rows(yt):
        if fam.tuple_state:
            return torch.cat([v.reshape(v.shape[0], -1) for v in yt], dim=1)
        return yt.reshape(yt.shape[0], -1)

    spy = Spy(rhs=fam.rhs)
    o = _solve(spy.f, ts, y0, m, **opts)
    nexec = 1
    if o.exc is not None:
        return {"viol": [_exc_v(o)], "status": "exception", "obs": {"exc": o.exc_sig}, "trivial": n == 1}
    yt = o.value
    viol = []
    # ---- shape / type
    ok_shape = True
    if fam.tuple_state:
        if not isinstance(yt, (tuple, list)) or len(yt) != len(shapes) or \
                any(tuple(v.shape) != (n,) + shp for v, shp in zip(yt, shapes)):
            ok_shape = False
    elif not isinstance(yt, torch.Tensor) or tuple(yt.shape) != (n,) + shapes[0]:
        ok_shape = False
    if not ok_shape:
        got = [list(v.shape) for v in yt] if isinstance(yt, (tuple, list)) else list(getattr(yt, "shape", []))
        return {"viol": [V("result-shape", {"got": got, "expected": [[n] + list(x) for x in shapes]})],
                "obs": {"shape": got}, "trivial": n == 1}
    Y = flat_rows(yt)
    if Y.dtype != dt:
        viol.append(V("result-dtype", {"got": str(Y.dtype)}))
    # ---- y[0] is y0, bit for bit
    if not torch.equal(Y[0], fam.flat(y0)):
        viol.append(V("y[0]-differs-from-y0", {"y[0]": rnd(Y[0]), "y0": rnd(fam.flat(y0))}))
    if n == 1:
        return {"viol": viol, "obs": {"single": rnd(Y[0])}, "trivial": True}

    exact = torch.stack([fam.flow(pts[0], y0f, t) for t in pts])
    # max |y| along the exact trajectory (sampled)
    lo_t, hi_t = min(pts), max(pts)
    samp = [fam.flow(pts[0], y0f, lo_t + (hi_t - lo_t) * k / 64.0).norm() for k in range(65)]
    ymax2 = float(torch.stack(samp + [e.norm() for e in exact]).max())
    tmax = max(abs(x) for x in pts)
    obs = {"calls": len(spy.log)}

    def f_flat(t, yflat):
        if fam.tuple_state:
            parts, k = [], 0
            for shp in shapes:
                nel = 1
                for q in shp:
                    nel *= q
                parts.append(yflat[k:k + nel].reshape(shp))
                k += nel
            return fam.flat(fam.rhs(t, tuple(parts)))
        return fam.rhs(t, yflat.reshape(shapes[0])).reshape(-1)

    if m in FIXED:
        c, A, b = TABLEAU[m]
        # exactly s evaluations per interval, at the textbook nodes
        if len(spy.log) != s * (n - 1):
            viol.append(V("evaluation-count", {"calls": len(spy.log), "expected": s * (n - 1)}))
        else:
            for i in range(n - 1):
                h = float(ts[i + 1] - ts[i])
                for j in range(s):
                    t = spy.log[i * s + j][0]
                    if abs(t - (pts[i] + c[j] * h)) > 4 * eps * tmax:
                        viol.append(V("evaluation-time-off-node", {"interval": i, "stage": j, "t": t,
                                                                   "expected": pts[i] + c[j] * h}))
        # one textbook step per interval from the returned previous row
        worst = 0.0
        for i in range(n - 1):
            h = ts[i + 1] - ts[i]
            ref, scale, ystage = _ref_step(m, f_flat, ts[i], h, Y[i])
            L = fam.lip(tmax, ystage)
            amp = max(1.0, abs(float(h)) * L) ** (s - 1)
            tol = 16 * eps * max(scale, 1e-300) * amp
            d = float((Y[i + 1] - ref).abs().max())
            if not (d <= tol):
                viol.append(V("fixed-step-result-differs-from-textbook-step",
                              {"interval": i, "h": float(h), "max_abs_diff": d, "tol": tol,
                               "ulp_of_scale": d / (eps * scale), "got": rnd(Y[i + 1], 10), "textbook": rnd(ref, 10)}))
            worst = max(worst, d / tol if tol > 0 else 0.0)
        obs["step_diff_over_tol"] = rnd(worst, 3)
        err = float((Y - exact).norm(dim=1).max())
        obs["err"] = rnd(err, 3)
    else:
        atol, rtol = TOLS[cfg["tol"]]
        times = [t for t, _ in spy.log]
        att = parse_attempts(times, s, sgn, pts[0])
        slack = 4 * eps * tmax
        steps_at = None
        calls_at = None
        if att is not None:
            # every evaluation inside the current requested interval; segments completed in order
            U = [sgn * x for x in pts]
            seg = 0
            steps_at = [0] * n
            calls_at = [1] * n
            nst = 0
            bad_time = None
            for a in att:
                cur = min(seg, n - 2)
                lo_u, hi_u = U[cur], U[cur + 1]
                for u in [a["u0"]] + a["us"]:
                    if u < lo_u - slack or u > hi_u + slack:
                        if bad_time is None:
                            bad_time = {"t": sgn * u, "interval": [pts[cur], pts[cur + 1]], "call": a["lo"]}
                if a["acc"]:
                    if a["u1"] > a["u0"]:
                        nst += 1
                    if seg <= n - 2 and abs(a["u1"] - U[seg + 1]) <= slack:
                        seg += 1
                        steps_at[seg] = nst
                        calls_at[seg] = a["lo"] + s
            if bad_time is not None:
                viol.append(V("evaluation-outside-current-interval", bad_time))
            if seg != n - 1:
                viol.append(V("requested-time-not-reached-by-a-step-end", {"segments_completed": seg,
                                                                           "segments": n - 1}))
                steps_at = None
            obs["steps"] = nst
            obs["rejected"] = sum(1 for a in att if not a["acc"])
        if steps_at is None:
            steps_at = [len(spy.log)] * n
            calls_at = [len(spy.log)] * n
            obs["log"] = "unparsed"
        mu = fam.mu(sgn, lo_t, hi_t)
        tolscale = atol + rtol * ymax2
        # ---- estimator-blind steps: an accepted step on which the embedded estimate of the textbook pair is below
        # the tolerance while the true local error is far above it (e.g. y' = -2ty from t = 0 with h = 1: the
        # Bogacki-Shampine estimate vanishes identically).  Every correct implementation accepts such a step, so
        # the global error from there on is not judged.
        blind_u = None
        if att is not None and att and att[0]["pre"] == 1 and m in EMB_E:
            Ew = EMB_E[m]
            start = spy.log[0]
            for a in att:
                if not a["acc"]:
                    continue
                ent = [start] + spy.log[a["lo"]: a["lo"] + s]
                if len(ent) == len(Ew) and a["u1"] > a["u0"]:
                    Ks = [fam.flat(fam.rhs(te, ye)).double() for te, ye in ent]
                    errv = (a["u1"] - a["u0"]) * sum(w * k for w, k in zip(Ew, Ks))
                    ys, ye_ = fam.flat(start[1]).double(), fam.flat(ent[-1][1]).double()
                    est = float(errv.abs().max()) / (atol + rtol * max(float(ys.norm()), float(ye_.norm())))
                    le = float((ye_ - fam.flow(sgn * a["u0"], ys, sgn * a["u1"])).norm())
                    if est < 1.0 and le > 10.0 * tolscale:
                        blind_u = a["u1"]
                        obs["estimator_blind_step"] = {"t0": rnd(sgn * a["u0"], 6), "t1": rnd(sgn * a["u1"], 6),
                                                       "textbook_estimate_over_scale": rnd(est, 3),
                                                       "local_error_over_tol": rnd(le / tolscale, 3)}
                        break
                start = spy.log[a["lo"] + s - 1]
        # ---- every attempted step starts from f(start of the step): the second stage state of an explicit
        # Runge-Kutta step is y_s + (t_2 - t_s) f(t_s, y_s) (row-sum condition c_2 = a_21), whatever the tableau.
        # A stale first stage (e.g. the derivative at a rejected trial point carried into the retry) shows here.
        # ---- and the per-step error budget: E_{k+1} <= exp(mu_k h_k) E_k + 10 (atol + rtol max(|y_k|, |y_{k+1}|))
        # with the signed logarithmic norm mu_k (errors committed while |y| was large decay with the dynamics)
        refined = None
        if att is not None and att and att[0]["pre"] == 1:
            start = spy.log[0]
            Eacc = 0.0
            refined = {0: 0.0}
            seg_r = 0
            U = [sgn * x for x in pts]
            for a in att:
                ts_, ys_ = start
                ysf = fam.flat(ys_)
                if len(spy.log) > a["lo"]:
                    t2, y2 = spy.log[a["lo"]]
                    k1 = fam.flat(fam.rhs(ts_, ys_))
                    exp2 = ysf + (t2 - ts_) * k1
                    d2 = float((fam.flat(y2) - exp2).abs().max())
                    tol2 = 64.0 * eps * max(1.0, float(ysf.abs().max()), abs(t2 - ts_) * float(k1.abs().max()))
                    if not (d2 <= tol2):
                        viol.append(V("second-stage-state-is-not-y+c2*h*f(step start)",
                                      {"attempt_first_call": a["lo"], "t_start": ts_, "t_stage": t2, "max_abs_diff": d2,
                                       "tol": tol2, "after_a_rejected_attempt": bool(a["lo"] > 1 and not att[max(0, att.index(a) - 1)]["acc"])}))
                        refined = None
                        break
                if not a["acc"]:
                    continue
                end = spy.log[a["lo"] + s - 1]
                h_u = a["u1"] - a["u0"]
                mk_ = fam.mu_raw(sgn, min(ts_, end[0]), max(ts_, end[0]))
                Eacc = Eacc * math.exp(min(mk_ * h_u, 700.0)) + 10.0 * (atol + rtol * max(
                    float(ysf.double().norm()), float(fam.flat(end[1]).double().norm())))
                if seg_r <= n - 2 and abs(a["u1"] - U[seg_r + 1]) <= slack:
                    seg_r += 1
                    refined[seg_r] = Eacc
                start = end
        worst = 0.0
        for i in range(1, n):
            if blind_u is not None and sgn * pts[i] >= blind_u - slack:
                break
            growth = math.exp(min(mu * abs(pts[i] - pts[0]), 700.0))
            bound = 10.0 * tolscale * max(1, steps_at[i]) * growth + 100.0 * eps * calls_at[i] * ymax2 * growth
            if refined is not None and i in refined:
                bound = min(bound, refined[i] + 100.0 * eps * calls_at[i] * ymax2 * growth)
            e = float((Y[i] - exact[i]).norm())
            if not (e <= bound):
                viol.append(V("global-error-above-tolerance-bound",
                              {"i": i, "t": pts[i], "error": e, "bound": bound, "atol": atol, "rtol": rtol,
                               "steps": steps_at[i], "mu": mu, "max|y|": ymax2}))
                break
            worst = max(worst, e / bound)
        obs["err_over_bound"] = rnd(worst, 3)

    # ---- prefix independence: rows do not depend on time points requested later (k = 1 is the grid "single")
    for k in range(2, n):
        ok = _solve(lambda t, y: fam.rhs(t, y), ts[:k].clone(), y0, m, **opts)
        nexec += 1
        if ok.exc is not None:
            viol.append(_exc_v(ok, prefix=k))
            break
        Yk = flat_rows(ok.value)
        if not torch.equal(Yk, Y[:k]):
            d = float((Yk - Y[:k]).abs().max())
            viol.append(V("prefix-dependence", {"prefix_len": k, "max_abs_diff": d,
                                                "row": rnd(Yk[-1], 12), "row_in_full_run": rnd(Y[k - 1], 12)}))
            break

    # ---- tuple state == concatenated state
    if fam.tuple_state:
        oc = _solve(lambda t, y: fam.rhs_cat(t, y), ts, fam.flat(y0), m, **opts)
        nexec += 1
        if oc.exc is not None:
            viol.append(_exc_v(oc, variant="concatenated"))
        else:
            Yc = oc.value.reshape(n, -1)
            d = float((Yc - Y).abs().max())
            if not (d <= 4 * eps * max(float(Y.abs().max()), 1e-300)):
                viol.append(V("tuple-state-differs-from-concatenated-state", {"max_abs_diff": d}))
            obs["tuple_vs_cat"] = rnd(d, 3)
    obs["last"] = rnd(Y[-1], 7)
    return {"viol": _dedupe(viol), "obs": obs, "n": nexec}


# ====================================================================== dispatch

def run_mixdt(cfg):
    m = cfg["method"]
    dt, tdt = dt_of(cfg["dtype"]), dt_of(cfg["tsdtype"])
    fam = make_family(cfg["family"], 0, 0)
    ts = torch.tensor(grid_points(cfg["grid"]), dtype=tdt)
    n = ts.numel()
    y0 = fam.y0(dt)

    def rows(yt):
        if fam.tuple_state:
            return torch.cat([v.reshape(v.shape[0], -1) for v in yt], dim=1)
        return yt.reshape(yt.shape[0], -1)
    o = _solve(Spy(rhs=fam.rhs).f, ts, y0, m)
    if o.exc is not None:
        return {"viol": [_exc_v(o)], "status": "exception", "obs": {"exc": o.exc_sig}}
    o2 = _solve(Spy(rhs=fam.rhs).f, ts.to(dt), y0, m)
    if o2.exc is not None:
        raise AssertionError("harness: the reference run (grid in the dtype of the state) raised: %s" % o2.exc_sig)
    viol = []
    parts = list(o.value) if fam.tuple_state else [o.value]
    want = list(y0) if fam.tuple_state else [y0]
    for v, w in zip(parts, want):
        if not isinstance(v, torch.Tensor) or tuple(v.shape) != (n,) + tuple(w.shape):
            return {"viol": [V("result-shape", {"got": list(getattr(v, "shape", [])), "expected": [n] + list(w.shape)})],
                    "obs": {}, "status": "violation"}
        if v.dtype != w.dtype:
            viol.append(V("result-dtype", {"got": str(v.dtype), "state": str(w.dtype), "ts": str(ts.dtype)}))
    if viol:
        return {"viol": viol[:1], "obs": {"dtype": str(parts[0].dtype)}, "status": "violation", "n": 2}
    Y, R = rows(o.value), rows(o2.value)
    if not torch.equal(Y[0], fam.flat(y0)):
        viol.append(V("y[0]-differs-from-y0", {"y[0]": rnd(Y[0]), "y0": rnd(fam.flat(y0))}))
    # the two runs differ by the rounding of the time arithmetic (float32: 6e-8 relative per operation) and, for
    # the adaptive methods, by step sequences that both respect the default tolerances (rtol 1e-5)
    scale = max(1.0, float(R.abs().max()))
    d = float((Y - R).abs().max())
    tol = (1e-5 if m in FIXED else 1e-4) * scale
    if not d <= tol:
        viol.append(V("mixed-dtype-result-differs", {"max_abs_difference": d, "tol": tol}))
    return {"viol": viol, "obs": {"d": rnd(d, 2)}, "status": "violation" if viol else "ok", "n": 2}


# ---- (f) right-hand sides that are defined only on the domain of the solution (NaN outside it)
DOMAIN_FAMILIES = ("gompertz", "gdecay", "gdecay2")
DOMAIN_GRIDS = {"T10": [0.0, 10.0], "T4_10": [0.0, 4.0, 10.0], "T8": [0.0, 8.0], "T2_3_20": [0.0, 2.0, 3.0, 20.0]}


def _domain_problem(name, dt):
    """(rhs, y0, flow): contractive problems whose right-hand side is NaN outside the half space that contains the
    whole exact solution; the first trial step of the adaptive methods (the first output interval) leaves it"""
    if name == "gompertz":          # y' = -y log y, y(t) = exp(log(y0) exp(-t)); log of a negative number is NaN
        y0 = torch.tensor([5.0, 2.0], dtype=dt)
        return (lambda t, y: -y * torch.log(y)), y0, (lambda t: torch.exp(torch.log(y0.double()) * math.exp(-t)))
    if name == "gdecay":            # y' = -1.3 y for y > 0, undefined (NaN) otherwise
        y0 = torch.tensor([0.8], dtype=dt)
        return (lambda t, y: -1.3 * y + 0.0 * torch.sqrt(y)), y0, (lambda t: y0.double() * math.exp(-1.3 * t))
    if name == "gdecay2":           # two components; only the second one is guarded
        y0 = torch.tensor([0.5, 3.0], dtype=dt)
        r = torch.tensor([0.4, 2.0], dtype=dt)
        return ((lambda t, y: -r * y + 0.0 * torch.sqrt(y[1])), y0,
                (lambda t: y0.double() * torch.exp(-r.double() * t)))
    raise KeyError(name)


def run_domain(cfg):
    """the adaptive methods must reject a trial step whose error estimate is not a number (the trial left the
    domain of the right-hand side) and deliver the solution within the tolerances; nothing else is demanded: a
    raised exception that names the problem would be accepted, a silent non-finite or inaccurate result is not"""
    m = cfg["method"]
    dt = dt_of(cfg["dtype"])
    atol, rtol = TOLS[cfg["tol"]]
    rhs, y0, flow = _domain_problem(cfg["family"], dt)
    ts = torch.tensor(DOMAIN_GRIDS[cfg["grid"]], dtype=dt)
    spy = Spy(rhs=rhs)
    o = _solve(spy.f, ts, y0, m, atol=atol, rtol=rtol)
    if o.exc is not None:
        return {"viol": [], "obs": {"exc": o.exc_sig}, "status": "rejected"}
    yt = o.value
    if tuple(yt.shape) != (ts.numel(),) + tuple(y0.shape):
        return {"viol": [V("result-shape", {"got": list(yt.shape)})], "obs": {}, "status": "violation"}
    viol = []
    nan_evals = sum(1 for (_, yy) in spy.log if not bool(torch.isfinite(rhs(0.0, yy)).all()))
    if not bool(torch.isfinite(yt).all()):
        viol.append(V("non-finite-result-returned-silently", {"y": rnd(yt.double().reshape(-1)[:8]),
                                                              "evaluations_outside_the_domain": nan_evals}))
    else:
        if not torch.equal(yt[0], y0):
            viol.append(V("y[0]-differs-from-y0", {"y[0]": rnd(yt[0])}))
        s = STAGES[m]
        attempts = max(1, (len(spy.log) - 1) // s + 1)
        ymax = float(y0.abs().max())
        eps = eps_of(dt)
        bound = 10.0 * (atol + rtol * ymax) * attempts + 100.0 * eps * len(spy.log) * ymax
        worst = 0.0
        for i, t in enumerate(DOMAIN_GRIDS[cfg["grid"]]):
            worst = max(worst, float((yt[i].double() - flow(t)).abs().max()))
        if not worst <= bound:
            viol.append(V("global-error-above-tolerance-bound", {"error": worst, "bound": bound,
                                                                 "attempts": attempts}))
    return {"viol": viol, "obs": {"evals": len(spy.log), "outside": nan_evals,
                                  "y_end": rnd(yt[-1].double().reshape(-1)[:2], 6)},
            "status": "violation" if viol else "ok", "trivial": nan_evals == 0}


def run_nested(cfg):
    """outer: y' = -z(t) y with z(t) obtained by an inner solve_ivp of z' = -z, z(0) = (1, 1) from 0 to t (same
    state shape as y).  Closed form: z = exp(-t), y = y0 exp(-(1 - exp(-t))).  Reference run: the same outer solve
    with the closed-form z(t) in place of the inner solve."""
    m, mi, dt = cfg["method"], cfg["inner"], dt_of(cfg["dtype"])
    f32 = dt == torch.float32
    opts_o = {"atol": 1e-6, "rtol": 1e-4} if m in ADAPTIVE else {}
    opts_i = {"atol": 1e-8, "rtol": 1e-6} if mi in ADAPTIVE else {}
    ts = torch.linspace(0.0, 1.5, 4, dtype=dt)
    y0 = torch.tensor([1.0, -0.5], dtype=dt)
    z0 = torch.ones(2, dtype=dt)
    ncall = [0]

    class TooMany(Exception):
        pass

    def inner_rhs(t, z):
        return -z

    def rhs_nested(t, y):
        ncall[0] += 1
        if ncall[0] > 4000:
            raise TooMany("more than 4000 evaluations of the outer right-hand side")
        tt = torch.stack([torch.zeros((), dtype=dt), t.to(dt).reshape(())]) if mi in ADAPTIVE else \
            torch.linspace(0.0, 1.0, 9, dtype=dt) * t.to(dt)
        if float(t) == 0.0:
            z = z0
        else:
            from xitorch.integrate import solve_ivp
            z = solve_ivp(inner_rhs, tt, z0, method=mi, **opts_i)[-1]
        return -z * y

    def rhs_closed(t, y):
        return -torch.exp(-t.to(dt)) * y
    o = _solve(rhs_nested, ts, y0, m, **opts_o)
    if o.exc is not None:
        return {"viol": [_exc_v(o)], "status": "exception", "obs": {"exc": o.exc_sig, "calls": ncall[0]}, "n": 1}
    o2 = _solve(rhs_closed, ts, y0, m, **opts_o)
    if o2.exc is not None:
        raise AssertionError("harness: the reference run raised: %s" % o2.exc_sig)
    Y, R = o.value.double(), o2.value.double()
    viol = []
    if Y.shape != R.shape or o.value.dtype != dt:
        viol.append(V("result-shape", {"got": list(Y.shape), "dtype": str(o.value.dtype)}))
        return {"viol": viol, "obs": {}, "status": "violation", "n": 2}
    exact = y0.double() * torch.exp(-(1.0 - torch.exp(-ts.double())))[:, None]
    d = float((Y - R).abs().max())
    # the two runs see z(t) values that differ by the error of the inner solve (<= 1e-5 for the fourth-order inner
    # grids of 8 steps, a few 1e-2 for inner euler, <= 1e-6 for the adaptive ones; float32: 1e-5) - and, for an adaptive outer method, may take
    # different step sequences that both respect rtol = 1e-4
    tol = (2e-3 if m in ADAPTIVE else 2e-4) + (1e-4 if f32 else 0.0) + (5e-2 if mi == "euler" else 0.0)
    if not d <= tol:
        viol.append(V("nested-call-changes-the-outer-solution",
                      {"max_abs_difference": d, "tol": tol, "error_of_nested_run": float((Y - exact).abs().max()),
                       "error_of_reference_run": float((R - exact).abs().max()), "outer_rhs_calls": ncall[0]}))
    return {"viol": viol, "obs": {"d": rnd(d, 2), "calls": ncall[0]}, "status": "violation" if viol else "ok", "n": 2}


def run_cplx(cfg):
    """complex state: y' = C y, C complex and non-normal; y(t) = expm(C (t - t0)) y0"""
    m = cfg["method"]
    dt = torch.complex128
    C = torch.tensor([[-0.2 + 1.5j, 0.4 + 0.0j], [-0.3j, -0.1 - 0.8j]], dtype=dt)
    y0 = torch.tensor([1.0 + 0.5j, -0.5 + 1.0j], dtype=dt)
    ts = torch.tensor(grid_points(cfg["grid"]), dtype=torch.float64)
    nev = [0]

    def f(t, y):
        nev[0] += 1
        return C @ y
    opts = {}
    if m in ADAPTIVE:
        atol, rtol = TOLS[cfg["tol"]]
        opts = {"atol": atol, "rtol": rtol}
    o = _solve(f, ts, y0, m, **opts)
    if o.exc is not None:
        return {"viol": [_exc_v(o)], "obs": {"exc": o.exc_sig}, "status": "exception"}
    y = o.value
    viol = []
    if tuple(y.shape) != (len(ts), 2) or y.dtype != dt:
        return {"viol": [V("shape-or-dtype-mismatch", {"shape": list(y.shape), "dtype": str(y.dtype)})],
                "obs": None, "status": "violation"}
    ref = torch.stack([torch.linalg.matrix_exp(C * (t - ts[0])) @ y0 for t in ts])
    ymax = float(ref.abs().max())
    sgn = 1.0 if ts[-1] >= ts[0] else -1.0
    mu = max(0.0, float(torch.linalg.eigvalsh(sgn * 0.5 * (C + C.conj().T))[-1]))
    T = float((ts[-1] - ts[0]).abs())
    err = float((y - ref).abs().max())
    if m in ADAPTIVE:
        bound = 10.0 * (atol + rtol * ymax) * max(nev[0] // STAGES[m], 1) * math.exp(mu * T) \
            + 100 * 2.3e-16 * nev[0] * ymax * math.exp(mu * T)
        if not err <= bound:
            viol.append(V("global-error-above-bound", {"err": err, "bound": bound, "evaluations": nev[0]}))
    else:
        yk = y0
        worst = 0.0
        for i in range(len(ts) - 1):
            yk, scale, _ = _ref_step(m, lambda t, v: C @ v, float(ts[i]), float(ts[i + 1] - ts[i]), yk)
            d = float((y[i + 1] - yk).abs().max())
            worst = max(worst, d / (1e-13 * max(scale, 1.0) * (i + 1)))
        if worst > 1.0:
            viol.append(V("fixed-step-result-is-not-the-textbook-scheme", {"ratio": worst}))
    if not bool(torch.equal(y[0], y0)):
        viol.append(V("first-row-is-not-y0", {}))
    return {"viol": viol, "obs": {"err": rnd(err, 2), "nev": nev[0]}, "status": "violation" if viol else "ok"}


def run_tol0(cfg):
    """a tolerance given as exactly 0: rtol = 0 (purely absolute request, |y| ~ 1) or atol = 0 (purely relative
    request on a solution of size 1e-12); '-int' variants pass the zero as the integer 0"""
    m = cfg["method"]
    z = cfg["zero"]
    zero = 0 if z.endswith("-int") else 0.0
    dt = torch.float64
    ts = torch.tensor(grid_points(cfg["grid"]), dtype=dt)
    a = torch.tensor([-0.7, -0.2], dtype=dt)
    if z.startswith("rtol0"):
        y0 = torch.tensor([1.0, -2.0], dtype=dt)
        atol, rtol = 1e-9, zero
    else:
        y0 = torch.tensor([1e-12, -2e-12], dtype=dt)
        atol, rtol = zero, 1e-7
    nev = [0]

    def f(t, y):
        nev[0] += 1
        return a * y
    o = _solve(f, ts, y0, m, atol=atol, rtol=rtol)
    if o.exc is not None:
        return {"viol": [_exc_v(o)], "obs": {"exc": o.exc_sig}, "status": "exception"}
    y = o.value
    ref = y0 * torch.exp(a * (ts - ts[0]).unsqueeze(-1))
    sgn = 1.0 if ts[-1] >= ts[0] else -1.0
    mu = max(0.0, float((sgn * a).max()))
    T = float((ts[-1] - ts[0]).abs())
    ymax = float(ref.abs().max())
    err = float((y - ref).abs().max())
    steps = max(nev[0] // STAGES[m], 1)
    bound = 10.0 * (float(atol) + float(rtol) * ymax) * steps * math.exp(mu * T) \
        + 100 * 2.3e-16 * nev[0] * ymax * math.exp(mu * T)
    viol = []
    if nev[0] > 100000:
        viol.append(V("evaluation-budget-exceeded", {"evaluations": nev[0]}))
    if not err <= bound:
        viol.append(V("global-error-above-bound", {"err": err, "bound": bound, "evaluations": nev[0]}))
    return {"viol": viol, "obs": {"err_over_bound": rnd(err / bound, 2), "nev": nev[0]},
            "status": "violation" if viol else "ok"}


def run_case(cfg):
    torch.manual_seed(0)
    k = cfg["kind"]
    if k == "cplx":
        return run_cplx(cfg)
    if k == "tol0":
        return run_tol0(cfg)
    if k == "nested":
        return run_nested(cfg)
    if k == "mixdt":
        return run_mixdt(cfg)
    if k == "domain":
        return run_domain(cfg)
    if k == "history":
        from mc.props import _hist_common as H
        return H.run_history("C07", HIST_PRELUDE, ["%s/%s" % c for c in HIST_LABELS], cfg["seq"], HIST_TOL,
                             sym=bool(cfg.get("sym")))
    if k == "tableau":
        return run_tableau(cfg)
    if k == "scheme":
        return run_scheme(cfg)
    if k == "reject":
        return run_reject(cfg)
    if k == "order":
        return run_order(cfg)
    if k == "lattice":
        return run_lattice(cfg)
    raise KeyError(k)


def coverage_extra(tier, seed, results):
    kinds = {}
    for r in results:
        k = r["cfg"]["kind"]
        kinds[k] = kinds.get(k, 0) + 1
    return {"cases_by_layer": kinds, "rooted_trees": {str(k): len(v) for k, v in TREES.items()}}
