"""Shared constructions for C05 / C06 (symeig, svd): spectra with known cluster structure, operator kinds,
dense references (Cholesky-reduced eigh, contour-integral spectral projectors).  Keep boring."""
from __future__ import annotations
import math
import torch
from mc.util import gen, randn, orth

DT = {"f64": torch.float64, "c128": torch.complex128}


def hc(x):
    return x.transpose(-2, -1).conj()


def sym(x):
    return 0.5 * (x + hc(x))


# ------------------------------------------------------------------ spectra

def spectrum(kind, n):
    """ascending list of n eigenvalues with a known cluster structure.
    sep   : mixed sign, gaps >= 0.55
    edge  : the two extreme eigenvalues far outside, the interior compressed (n >= 6)
    clus  : entries 1,2 (0,1 when n == 2) 5e-4 apart, the rest as sep
    deg2  : entries 1,2 (0,1 when n == 2) exactly equal
    deg3  : entries 1,2,3 (0..2 when n == 3) exactly equal            (n >= 3)
    deg0  : deg2 shifted so that the coinciding pair sits at 0 (a two-dimensional null space)
    near  : entries 1,2 (0,1 when n == 2) 2e-7 apart: separated, but closer than the default degeneracy tolerance
    neg   : all negative, separated
    pos   : all positive, separated                                    (usable for A = B^H B)
    pdeg2 / pdeg3 / pclus : positive versions of deg2 / deg3 / clus
    """
    base = [-1.3 + 0.8 * k + 0.07 * ((k * k) % 5) for k in range(n)]      # gaps between 0.59 and 1.08
    shift = 0.0
    if kind.startswith("p") and kind != "pos":
        kind = kind[1:]
        shift = 1.8
    if kind == "neg":
        return [b - base[-1] - 0.6 for b in base]
    if kind == "pos":
        return [b + 1.8 for b in base]
    lam = [b + shift for b in base]
    j = 0 if n == 2 else 1
    if kind == "sep":
        pass
    elif kind == "edge":
        # both extreme eigenvalues far outside (6 away), the interior compressed (gaps ~0.06 .. 0.11): a subspace
        # method converges the outermost pair long before the next ones
        lam = [-0.5 + 0.1 * (b + 1.3) for b in base]
        lam[0] -= 6.0
        lam[-1] += 6.0
    elif kind == "clus":
        lam[j + 1] = lam[j] + 5e-4
    elif kind == "near":
        lam[j + 1] = lam[j] + 2e-7
    elif kind == "deg2":
        lam[j + 1] = lam[j]
    elif kind == "deg0":
        lam[j + 1] = lam[j]
        s0 = lam[j]
        lam = [v - s0 for v in lam]
    elif kind == "deg3":
        if n < 3:
            raise ValueError("deg3 needs n >= 3")
        j = 0 if n == 3 else 1
        lam[j + 1] = lam[j]
        lam[j + 2] = lam[j]
    else:
        raise ValueError(kind)
    return lam


def clusters(lam, tol=0.0):
    """partition of range(n) into runs of eigenvalues closer than tol (chained); lam ascending"""
    out = [[0]]
    for i in range(1, len(lam)):
        if lam[i] - lam[i - 1] <= tol:
            out[-1].append(i)
        else:
            out.append([i])
    return out


def selected(n, neig, mode):
    return list(range(neig)) if mode == "lowest" else list(range(n - neig, n))


def boundary_neigs(lam, mode, tol=0.0):
    """values of neig in 1..n that do not cut a cluster (tol = 0: exact degeneracy only)"""
    n = len(lam)
    res = []
    for neig in range(1, n + 1):
        sel = set(selected(n, neig, mode))
        if all(set(c) <= sel or not (set(c) & sel) for c in clusters(lam, tol)):
            res.append(neig)
    return res


def gap_to_rest(lam, idx):
    """distance of the eigenvalues with indices idx to all other eigenvalues (inf when idx is everything)"""
    s = set(idx)
    g = math.inf
    for i in idx:
        for j in range(len(lam)):
            if j not in s:
                g = min(g, abs(lam[i] - lam[j]))
    return g


# ------------------------------------------------------------------ operators

_CLS = {}


def _classes():
    """LinearOperator subclasses are created lazily (xitorch import happens in the worker)"""
    if _CLS:
        return _CLS
    import xitorch

    class MFreeH(xitorch.LinearOperator):
        """matrix-free Hermitian operator: only _mv (+ _getparamnames)"""

        def __init__(self, mat):
            super().__init__(shape=tuple(mat.shape), is_hermitian=True, dtype=mat.dtype, device=mat.device)
            self.mat = mat

        def _mv(self, x):
            return torch.matmul(self.mat, x.unsqueeze(-1)).squeeze(-1)

        def _getparamnames(self, prefix=""):
            return [prefix + "mat"]

    class MFreeG(xitorch.LinearOperator):
        """matrix-free general operator with _mv and _rmv"""

        def __init__(self, mat):
            super().__init__(shape=tuple(mat.shape), is_hermitian=False, dtype=mat.dtype, device=mat.device)
            self.mat = mat

        def _mv(self, x):
            return torch.matmul(self.mat, x.unsqueeze(-1)).squeeze(-1)

        def _rmv(self, x):
            return torch.matmul(hc(self.mat), x.unsqueeze(-1)).squeeze(-1)

        def _getparamnames(self, prefix=""):
            return [prefix + "mat"]

    class MFreeHnd(xitorch.LinearOperator):
        """matrix-free Hermitian operator scale * mat whose FIRST declared parameter (scale = 1) does not require
        grad while the second one (mat) does"""

        def __init__(self, mat):
            super().__init__(shape=tuple(mat.shape), is_hermitian=True, dtype=mat.dtype, device=mat.device)
            self.scale = torch.ones((), dtype=mat.dtype)
            self.mat = mat

        def _mv(self, x):
            return self.scale * torch.matmul(self.mat, x.unsqueeze(-1)).squeeze(-1)

        def _getparamnames(self, prefix=""):
            return [prefix + "scale", prefix + "mat"]

    class MFreeGmv(xitorch.LinearOperator):
        """matrix-free general operator with _mv ONLY: rmv / rmm / .H come from the library's adjoint trick
        (differentiation of mv w.r.t. its argument)"""

        def __init__(self, mat):
            super().__init__(shape=tuple(mat.shape), is_hermitian=False, dtype=mat.dtype, device=mat.device)
            self.mat = mat

        def _mv(self, x):
            return torch.matmul(self.mat, x.unsqueeze(-1)).squeeze(-1)

        def _getparamnames(self, prefix=""):
            return [prefix + "mat"]

    _CLS["MFreeGmv"] = MFreeGmv
    _CLS["MFreeHnd"] = MFreeHnd
    _CLS["MFreeH"] = MFreeH
    _CLS["MFreeG"] = MFreeG
    return _CLS


def herm_op(kind, mat, aux=None):
    """Hermitian LinearOperator representing `mat` (already exactly Hermitian).
    dense: MatrixLinearOperator flagged Hermitian; mfree: mv-only subclass;
    sum: mfree(mat - aux) + dense(aux), aux Hermitian;  prod: G^H G with G = aux matrix-free (mat == aux^H aux)"""
    import xitorch
    c = _classes()
    if kind == "dense":
        return xitorch.LinearOperator.m(mat, is_hermitian=True)
    if kind == "mfree":
        return c["MFreeH"](mat)
    if kind == "mfree_nd":
        return c["MFreeHnd"](mat)
    if kind == "sum":
        return c["MFreeH"](mat - aux) + xitorch.LinearOperator.m(aux, is_hermitian=True)
    if kind == "prod":
        g = c["MFreeG"](aux)
        return g.H.matmul(g, is_hermitian=True)
    raise ValueError(kind)


def gen_op(kind, mat):
    """general (non-Hermitian, possibly rectangular) operator"""
    import xitorch
    if kind == "dense":
        return xitorch.LinearOperator.m(mat, is_hermitian=False)
    if kind == "mfree_mv":
        return _classes()["MFreeGmv"](mat)
    return _classes()["MFreeG"](mat)


# ------------------------------------------------------------------ dense references

def ref_eigh(A, M=None):
    """generalised Hermitian eigenproblem by Cholesky reduction + torch.linalg.eigh; X^H M X = I"""
    if M is None:
        return torch.linalg.eigh(A)
    L = torch.linalg.cholesky(M)
    Li = torch.linalg.inv(L)
    e, y = torch.linalg.eigh(sym(Li @ A @ hc(Li)))
    return e, hc(Li) @ y


def contour(A, M, center, radius, npts=96):
    """P = (2 pi i)^-1 \\oint (zM - A)^-1 dz  and  S = (2 pi i)^-1 \\oint z tr((zM - A)^-1 M) dz
    by the trapezoid rule on a circle; differentiable w.r.t. A and M to any order.
    P = X_C X_C^H (M-normalised eigenvectors inside the circle), S = sum of the eigenvalues inside."""
    cdt = torch.complex128
    center = torch.as_tensor(center, dtype=torch.float64)    # scalar or batch shape of A / M
    radius = torch.as_tensor(radius, dtype=torch.float64)
    th = (torch.arange(npts, dtype=torch.float64) + 0.5) * (2.0 * math.pi / npts)
    w = radius.unsqueeze(-1).to(cdt) * torch.exp(1j * th.to(cdt))      # (*B, npts): r e^{i th}
    z = center.unsqueeze(-1).to(cdt) + w
    n = A.shape[-1]
    Ac = A.to(cdt).unsqueeze(-3)
    Mc = (torch.eye(n, dtype=cdt) if M is None else M.to(cdt)).unsqueeze(-3)
    R = torch.linalg.inv(z[..., None, None] * Mc - Ac)       # (*B, npts, n, n)
    P = (w[..., None, None] * R).sum(-3) / npts
    RM = R @ Mc
    S = ((z * w) * torch.diagonal(RM, dim1=-2, dim2=-1).sum(-1)).sum(-1) / npts
    return P, S.real


def circle_for(lam, idx):
    """center/radius of a circle separating eigenvalues idx (a contiguous run) from the rest"""
    lo, hi = lam[idx[0]], lam[idx[-1]]
    g = gap_to_rest(lam, idx)
    if math.isinf(g):
        g = 2.0
    c = 0.5 * (lo + hi)
    r = 0.5 * (hi - lo) + 0.5 * g
    return c, r
