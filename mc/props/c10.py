"""C10 — functionals never leave the caller's objects modified, even on failure.

(a) crash-point enumeration on the real functionals: every index k at which the user's function (or an operator
    product) raises, in every phase, for every function kind and debug mode;
(b) protocol search: explicit-state exploration (replay from scratch) of nested temporary substitutions
    (PureFunction.useobjparams / disable_state_change, LinearOperator.uselinopparams, enable_debug / disable_debug)
    against a python list used as a stack."""
from __future__ import annotations
import contextlib
import re
import torch
from mc.util import V, call, relerr, rnd
from mc.props import _fn_common as F
from mc.props._fn_common import Injected, Probe, Snapshot, DT

ID = "C10"
LEVEL = "fault_enumeration"
DESIGN_REF = "DESIGN.md §5 C10"
RULE = ("two searches. crash: case = (functional, function kind, debug mode off / set_debug_mode(True) / with "
        "enable_debug(), phase forward / backward / backward with create_graph / double backward); the fault-free run "
        "from scratch gives N = number of user-function (operator-product) calls in that phase, then EVERY k in 1..N "
        "is executed from scratch with a private exception raised at the k-th call of the phase; after every execution "
        "(fault-free too) the post-state invariant is evaluated and the functional is re-run on the same objects and "
        "compared with the fault-free result. protocol: case = (object kind); events push(S) for S in {current, "
        "originals, fresh 1, fresh 2 sharing a prefix with fresh 1, aliased pair, originals' first + fresh rest}, pop, "
        "pop-by-exception, unwind-all-by-exception, call, lock (disable_state_change), enable_debug / disable_debug "
        "enter / leave / leave-by-exception; all event sequences to depth 4 undeduplicated plus breadth-first search "
        "deduplicated on (labels on the reference stack, lock depth, debug stack) to depth 6 (quick) / 8 (thorough); "
        "every sequence is replayed from a fresh object and ends with a full unwind. distinct = distinct "
        "(N per phase, outcome table) observations; a crash case is trivial when the phase makes no call (N = 0)")
RULE_ADDED = "Added later: every crash point also with a fault that does not derive from Exception (KeyboardInterrupt-like); alias search = every set partition of up to 5 / 6 declared names for EditableModule and LinearOperator; push label 'first'. Round 4: kind em_cplx (object also holds complex / integer tensors that the function does not use). Round 5: re-assignment search = (functional incl. list-state solve_ivp, object kind, declared attribute, backward / recorded backward / double backward): the owner assigns a new tensor to the attribute between the forward call and the backward pass, the object must hold exactly that state afterwards. Round 6: kind em_nn2 (EditableModule declaring a subset of the Parameters of an inner nn.Module). Round 7: alias2 = every ordered PAIR of set partitions of up to 3 / 4 declared names: the object is used once (solve + backward / getuniqueparams-setuniqueparams cycle) under the first partition, its owner binds fresh tensors according to the second, a backward pass of a result of the first binding runs late, then everything is judged for the tensors held now (unique list, substitution, restoration, solution and gradients of solve by exactsolve and bicgstab)."
ASSUMPTIONS = [
    "one fault per execution in the crash search; the fault is raised at the start of the user's function / "
    "operator product; scripted functions are not enumerated (no object state, no place to inject a fault)",
    "functionals are called with the bound method / module / function exactly as a user would (not a pre-built "
    "PureFunction), so the debug-mode pre-check is exercised; PureFunction internals are therefore not read in the "
    "crash search",
    "installed tensors are read by declared name (get_attr), never through named_parameters(), while a substitution "
    "is active; the full registration snapshot (named_parameters names/order/identity/type, __dict__ shadowing, "
    "sub-modules, containers) is compared only when no substitution is active",
    "in debug mode LinearOperator.check() documents that an exception raised by a product is re-raised as "
    "RuntimeError; that wrapper (with the injected exception as its context) counts as 'the injected exception'",
    "re-run comparison tolerance 1e-12 relative (same arithmetic; a clone left behind disconnects the gradient "
    "completely)",
    "canonical state of the protocol search = (labels of the tensor sets on the reference stack, lock depth, debug "
    "stack): the implementation's behaviour depends on the installed objects only through identity comparisons "
    "with the incoming set; the undeduplicated depth-4 pass does not rely on this",
]
BUDGET_S = {"quick": 900, "thorough": 3400}
RTOL = 1e-12

PHASES = ["forward", "backward", "backward_cg", "double_backward"]
DEBUGS = ["off", "set", "ctx"]
FN_FUNCTIONALS = F.FUNCTIONALS + ["jac_solve"]
QUICK_KINDS = ["pure", "nn_flat", "nn_nested", "nn_tied", "nn_extra", "em_leaves", "em_derived", "em_alias",
               "em_list", "em_dict", "em_nn", "em_nn2", "em_call", "em_cplx", "sib:nn_nested", "sib:em_list", "multi_em_em",
               "multi_em_nn", "multi_nn_em", "multi_em2_em"]
ALL_FN_KINDS = [k for k in F.ALL_KINDS if k != "script"]
LO_KINDS = {"solve": ["lo_herm", "lo_alias", "lo_list", "lo_rmv", "lo_sum"],
            "symeig": ["lo_herm", "lo_alias", "lo_list", "lo_sum"]}
PROTO_FN_KINDS = ["nn_flat", "nn_nested", "nn_tied", "nn_extra", "em_leaves", "em_derived", "em_alias", "em_list",
                  "em_dict", "em_nn", "em_call", "sib:em_alias", "sib:nn_nested", "multi_em_nn", "multi_nn_em",
                  "multi_em2_em"]
PROTO_LO_KINDS = ["lo_herm", "lo_alias", "lo_list", "lo_sum", "lo_jac:em_leaves", "lo_jac:nn_flat"]


def cases(tier, seed):
    out = []
    quick = tier == "quick"
    # ---- (b) protocol search
    proto = []
    for kind in PROTO_FN_KINDS + PROTO_LO_KINDS:
        is_linop = kind.startswith("lo_")
        heavy = kind.startswith("lo_jac:")       # every replay constructs a Jacobian operator
        depth = 3 if (heavy and quick) else 4
        bfs = (4 if quick else 6) if heavy else (6 if quick else 8)
        proto.append({"search": "protocol", "kind": kind, "part": "bfs", "first": "", "depth": depth, "bfs": bfs})
        for ev in _events(is_linop, bfs=False):
            proto.append({"search": "protocol", "kind": kind, "part": "seq", "first": "%s/%s" % ev,
                          "depth": depth, "bfs": bfs})
    # ---- (a) crash-point enumeration
    for fname in FN_FUNCTIONALS + ["solve", "symeig"]:
        if fname in LO_KINDS:
            kinds = LO_KINDS[fname]
        else:
            kinds = QUICK_KINDS if quick else ALL_FN_KINDS
        rgs = ["abp"] if quick else ["abp", "a"]
        for kind in kinds:
            for rg in rgs:
                for debug in DEBUGS:
                    for phase in PHASES:
                        out.append({"search": "crash", "functional": fname, "kind": kind, "debug": debug,
                                    "phase": phase, "rg": rg, "extra": 1})
                        if debug == DEBUGS[0] and rg == "abp":
                            # the same crash points with a fault that does not derive from Exception
                            # (KeyboardInterrupt-like): clean-up written as `except Exception` does not run
                            out.append({"search": "crash", "functional": fname, "kind": kind, "debug": debug,
                                        "phase": phase, "rg": rg, "extra": 1, "fault": "base"})
    # ---- (d) the owner re-assigns one declared attribute between the forward call and the backward pass(es)
    for fname in FN_FUNCTIONALS:
        for method in [None] + [m for m in F.METHODS[fname][1:] if m == F.METHODS[fname][0] + ":list"]:
            for kind in MUT_KINDS:
                for slot in (0, 1, 2):
                    for phase in MUT_PHASES:
                        for debug in (("off",) if quick else ("off", "set")):
                            c = {"search": "mut", "functional": fname, "kind": kind, "slot": slot, "phase": phase,
                                 "rg": "abp", "extra": 1, "debug": debug}
                            if method:
                                c["method"] = method
                            out.append(c)
                            if debug == "off" and kind in ("nn_flat", "nn_tied", "em_leaves", "em_list", "sib:em_leaves",
                                                           "multi_em_nn"):
                                # the backward pass runs while a substitution of an UNRELATED wrapper is active
                                # (e.g. inside the function evaluation of an outer functional)
                                out.append(dict(c, inside=True))
    # ---- (c) every alias partition of up to 5 (quick) / 6 (thorough) declared names
    for k in range(1, (6 if quick else 7)):
        for kindo in ("em", "lo"):
            out.append({"search": "alias", "k": k, "obj": kindo})
    # ---- (e) every ordered pair of alias partitions: used once, re-bound by the owner, used again
    for k in range(1, (4 if quick else 5)):
        for kindo in ("em", "lo"):
            out.append({"search": "alias2", "k": k, "obj": kindo})
    # the runner hands out consecutive chunks of cases to its workers: spread the long breadth-first cases so
    # that no chunk holds two of them, then the remaining protocol cases, then the crash scenarios
    n = len(out) + len(proto)
    chunk = max(1, min(64, n // (16 * 8) or 1))
    long_cases = [c for c in proto if c["part"] == "bfs"]
    rest = [c for c in proto if c["part"] != "bfs"] + out
    merged = []
    while long_cases or rest:
        if long_cases:
            merged.append(long_cases.pop(0))
            merged.extend(rest[:chunk - 1])
            rest = rest[chunk - 1:]
        else:
            merged.extend(rest)
            rest = []
    return merged


# =================================================================== matrix-free LinearOperators

import xitorch  # noqa: E402
from xitorch import LinearOperator  # noqa: E402

N_LO = 4
_TICK = [None]      # the probe of the execution in progress (classes are created once per process because the
                    # capability flags of a LinearOperator subclass are cached on the class)


def _tick():
    if _TICK[0] is not None:
        _TICK[0].tick()


class LOHerm(LinearOperator):
    """A = diag(d) + u u^T, matrix-free, flagged Hermitian"""

    def __init__(self, d, u):
        super().__init__(shape=(N_LO, N_LO), is_hermitian=True, dtype=DT)
        self.d = d
        self.u = u

    def _mv(self, x):
        _tick()
        return self.d * x + self.u * (self.u * x).sum(-1, keepdim=True)

    def _getparamnames(self, prefix=""):
        return [prefix + "d", prefix + "u"]


class LOAlias(LinearOperator):
    """same operator, u held under two names"""

    def __init__(self, d, u):
        super().__init__(shape=(N_LO, N_LO), is_hermitian=True, dtype=DT)
        self.d = d
        self.u = u
        self.u2 = u

    def _mv(self, x):
        _tick()
        return self.d * x + self.u * (self.u2 * x).sum(-1, keepdim=True)

    def _getparamnames(self, prefix=""):
        return [prefix + "d", prefix + "u", prefix + "u2"]


class LOList(LinearOperator):
    """same operator, tensors held in a list"""

    def __init__(self, d, u):
        super().__init__(shape=(N_LO, N_LO), is_hermitian=True, dtype=DT)
        self.ps = [d, u]

    def _mv(self, x):
        _tick()
        return self.ps[0] * x + self.ps[1] * (self.ps[1] * x).sum(-1, keepdim=True)

    def _getparamnames(self, prefix=""):
        return [prefix + "ps[0]", prefix + "ps[1]"]


class LORmv(LinearOperator):
    """A = diag(d) + u w^T (not Hermitian) with _mv and _rmv"""

    def __init__(self, d, u, w):
        super().__init__(shape=(N_LO, N_LO), is_hermitian=False, dtype=DT)
        self.d = d
        self.u = u
        self.w = w

    def _mv(self, x):
        _tick()
        return self.d * x + self.u * (self.w * x).sum(-1, keepdim=True)

    def _rmv(self, x):
        _tick()
        return self.d * x + self.w * (self.u * x).sum(-1, keepdim=True)

    def _getparamnames(self, prefix=""):
        return [prefix + "d", prefix + "u", prefix + "w"]


class LODiag(LinearOperator):
    def __init__(self, d):
        super().__init__(shape=(N_LO, N_LO), is_hermitian=True, dtype=DT)
        self.d = d

    def _mv(self, x):
        _tick()
        return self.d * x

    def _getparamnames(self, prefix=""):
        return [prefix + "d"]


class LORank1(LinearOperator):
    def __init__(self, u):
        super().__init__(shape=(N_LO, N_LO), is_hermitian=True, dtype=DT)
        self.u = u

    def _mv(self, x):
        _tick()
        return self.u * (self.u * x).sum(-1, keepdim=True)

    def _getparamnames(self, prefix=""):
        return [prefix + "u"]


def _lo_leaves(rg=True):
    d = torch.tensor([1.0, 1.4, 1.9, 2.5], dtype=DT)
    u = torch.tensor([0.3, -0.2, 0.4, 0.1], dtype=DT)
    w = torch.tensor([0.2, 0.3, -0.1, 0.25], dtype=DT)
    if rg:
        d.requires_grad_()
        u.requires_grad_()
        w.requires_grad_()
    return d, u, w


def build_linop(kind, rg=True):
    """returns (A, leaves dict, holders)"""
    d, u, w = _lo_leaves(rg)
    if kind == "lo_herm":
        A = LOHerm(d, u)
        return A, {"d": d, "u": u}, [A]
    if kind == "lo_alias":
        A = LOAlias(d, u)
        return A, {"d": d, "u": u}, [A]
    if kind == "lo_list":
        A = LOList(d, u)
        return A, {"d": d, "u": u}, [A]
    if kind == "lo_rmv":
        A = LORmv(d, u, w)
        return A, {"d": d, "u": u, "w": w}, [A]
    if kind == "lo_sum":
        A1, A2 = LODiag(d), LORank1(u)
        A = A1 + A2           # library-built AddLinearOperator over two user operators
        return A, {"d": d, "u": u}, [A1, A2]
    raise ValueError(kind)


# =================================================================== (a) crash-point enumeration

class World:
    """one fresh instance of the scenario: the user's objects, how to run the functional, what to differentiate"""

    def __init__(self, cfg, probe):
        self.cfg = cfg
        self.probe = probe
        fname = cfg["functional"]
        self.fname = fname
        self.aux = {}
        if fname in ("solve", "symeig"):
            _TICK[0] = probe
            self.A, leaves, self.holders = build_linop(cfg["kind"])
            self.leaves = list(leaves.values())
            self.linops = [self.A] + [h for h in self.holders if h is not self.A]
        else:
            _TICK[0] = None
            self.rep = F.build(cfg["kind"], fname, cfg["extra"], cfg["rg"], probe)
            self.holders = self.rep.holders
            self.leaves = [self.rep.leaves[k] for k in cfg["rg"]]
            self.linops = []
        self.snap = Snapshot(self.holders)
        self.lop_ids = [(lo, list(lo.getlinopparams())) for lo in self.linops]

    # ---- the functional
    def forward(self):
        fname = self.fname
        if fname == "solve":
            import xitorch.linalg as xl
            B = torch.tensor([[1.0, 0.2], [0.5, -0.3], [-0.4, 0.8], [0.3, 0.6]], dtype=DT)
            herm = self.cfg["kind"] != "lo_rmv"
            opts = dict(rtol=1e-10, atol=1e-12, max_niter=12, posdef=True if herm else False)
            x = xl.solve(self.A, B, method="cg" if herm else "bicgstab",
                         bck_options=dict(opts, method="cg" if herm else "bicgstab"), **opts)
            return [x]
        if fname == "symeig":
            import xitorch.linalg as xl
            opts = dict(max_niter=12, nguess=2, v_init="eye", max_addition=2, min_eps=1e-8)
            ev, evec = xl.symeig(self.A, neig=2, mode="lowest", method="davidson",
                                 bck_options={"method": "exactsolve"}, **opts)
            return [ev, evec.abs()]
        if fname in ("jac", "hess"):
            import xitorch.grad as xg
            rep = self.rep
            y = torch.tensor([0.4, -0.3], dtype=DT).requires_grad_()
            J = getattr(xg, fname)(rep.fcn, params=(y,) + tuple(rep.params), idxs=0)
            self.aux["J"] = J
            self.aux["lp"] = list(J.getlinopparams())
            v = torch.tensor([0.7, -1.3], dtype=DT)
            w = torch.tensor([1.1, 0.6], dtype=DT)
            outs = [J.mv(v), J.rmv(w)]
            fresh = [t.detach().clone().requires_grad_() for t in self.aux["lp"]]
            self.aux["fresh"] = fresh
            with J.uselinopparams(*fresh):      # forces re-evaluation of the user's function under substitution
                outs += [J.mv(v), J.rmv(w)]
            return outs
        return F.run_functional(fname, self.rep, self.cfg.get("method"), "bicgstab" if fname in ("rootfinder", "equilibrium") else (
            "cg" if fname == "minimize" else None), light=True)

    # ---- invariants beyond the snapshot
    def linop_state(self):
        fails = []
        for lo, ids in self.lop_ids:
            try:
                cur = list(lo.getlinopparams())
            except Exception as e:
                fails.append(("state:getlinopparams-raises", type(e).__name__))
                continue
            if len(cur) != len(ids) or any(a is not b for a, b in zip(cur, ids)):
                fails.append(("state:linop-params-replaced", type(lo).__name__))
        if "J" in self.aux and "lp" in self.aux:
            try:
                cur = list(self.aux["J"].getlinopparams())
                if len(cur) != len(self.aux["lp"]) or any(a is not b for a, b in zip(cur, self.aux["lp"])):
                    fails.append(("state:jac-operator-params-replaced", ""))
            except Exception as e:
                fails.append(("state:getlinopparams-raises", type(e).__name__))
        return fails


def _sig(exc):
    msg = str(exc).strip().split("\n")[0][:70]
    return re.sub(r"\d+", "#", "%s:%s" % (type(exc).__name__, msg))


def _is_injected(exc, raised):
    """the propagated exception is the injected one (or check()'s documented RuntimeError wrapper around it)"""
    if exc is raised:
        return True, "same"
    seen = 0
    e = exc
    while e is not None and seen < 6:
        if e is raised:
            return (isinstance(exc, RuntimeError) and "An error is raised from" in str(exc)), "wrapped"
        e = e.__cause__ or e.__context__
        seen += 1
    return False, "other"


def _pipeline(world, phase, probe):
    """run the functional and the autograd passes up to `phase`; returns dict with outs/grads"""
    res = {}
    probe.phase = "forward"
    torch.manual_seed(777)
    outs = world.forward()
    res["outs"] = outs
    if phase == "forward":
        return res
    loss = F.loss_of(outs)
    if phase == "backward":
        probe.phase = "backward"
        torch.manual_seed(778)
        # retain_graph: the derived (non-leaf) tensors held by the user's object are built once per world; their
        # graph must survive this backward pass for the re-run on the same objects
        res["g1"] = torch.autograd.grad(loss, world.leaves, allow_unused=True, retain_graph=True)
        return res
    probe.phase = "backward_cg"
    torch.manual_seed(778)
    g1 = torch.autograd.grad(loss, world.leaves, create_graph=True, allow_unused=True)
    res["g1"] = g1
    if phase == "backward_cg":
        return res
    probe.phase = "double_backward"
    l2 = F.loss2_of(g1)
    if l2 is not None:
        torch.manual_seed(779)
        res["g2"] = torch.autograd.grad(l2, world.leaves, allow_unused=True, retain_graph=True)
    return res


def _detach(res):
    out = {}
    for k, v in res.items():
        out[k] = [None if t is None else t.detach().clone() for t in v]
    return out


def _execute(cfg, arm):
    """one execution from scratch; returns (record dict, list of (failure, detail))"""
    xitorch.set_debug_mode(False)
    probe = Probe()
    probe.arm = arm
    probe.base = cfg.get("fault") == "base"
    world = World(cfg, probe)
    dbg = cfg["debug"]
    fails = []
    pre = False
    if dbg == "set":
        xitorch.set_debug_mode(True)
        pre = True
    inside = {}

    def body():
        if dbg == "ctx":
            with xitorch.enable_debug():
                try:
                    return _pipeline(world, cfg["phase"], probe)
                finally:
                    inside["flag"] = xitorch.is_debug_enabled()
        return _pipeline(world, cfg["phase"], probe)

    o = call(body)
    flag = xitorch.is_debug_enabled()
    xitorch.set_debug_mode(False)
    rec = {"counts": dict(probe.counts), "exc": None, "res": None}
    if flag != pre:
        fails.append(("debug-flag-not-restored", {"before": pre, "after": flag}))
    if dbg == "ctx" and inside.get("flag") is not True:
        fails.append(("debug-flag-changed-inside-enable_debug", {"inside": inside.get("flag")}))
    if o.exc is not None:
        rec["exc"] = _sig(o.exc)
        if probe.raised is None:
            if arm is None:
                fails.append(("exception:" + _sig(o.exc), {"fault_free": True, "message": str(o.exc)[:300]}))
            else:
                fails.append(("exception-before-crash-point:" + _sig(o.exc), {"message": str(o.exc)[:300]}))
        else:
            ok, how = _is_injected(o.exc, probe.raised)
            rec["exc_how"] = how
            if not ok:
                fails.append(("exception-replaced:" + _sig(o.exc), {"injected": str(probe.raised), "how": how}))
    else:
        if probe.raised is not None:
            fails.append(("injected-exception-swallowed", {"injected": str(probe.raised)}))
        rec["res"] = _detach(o.value)
    # ---- post-state
    for f, d in world.snap.diff():
        fails.append((f, d))
    for f, d in world.linop_state():
        fails.append((f, d))
    # ---- re-run on the same objects (fault-free, debug off): forward + first-order backward
    probe.arm = None
    probe.phase = "rerun"
    probe.raised = None
    world.aux.pop("J", None)
    o2 = call(_pipeline, world, "backward", probe)
    probe.phase = "done"
    if o2.exc is not None:
        rec["rerun"] = "raises"
        fails.append(("rerun-raises:" + _sig(o2.exc), {"message": str(o2.exc)[:300]}))
    else:
        rec["rerun"] = _detach(o2.value)
    for f, d in world.snap.diff():
        if (f, d) not in fails:
            fails.append((f + "@after-rerun" if not f.endswith("rerun") else f, d))
    _TICK[0] = None
    return rec, fails


def _cmp_res(a, b):
    """max relative difference between two result dicts over their common keys; None == zeros"""
    worst = 0.0
    for k in ("outs", "g1"):
        if k not in a or k not in b:
            continue
        if len(a[k]) != len(b[k]):
            return float("inf")
        for x, y in zip(a[k], b[k]):
            if x is None and y is None:
                continue
            if x is None:
                x = torch.zeros_like(y)
            if y is None:
                y = torch.zeros_like(x)
            worst = max(worst, relerr(x, y))
    return worst


def run_crash(cfg):
    viol = {}
    n_exec = 0

    def add(failure, detail, **at):
        key = failure
        if key not in viol:
            viol[key] = V(failure, {"first": detail, "info": [], "ks": []}, **at)
        dd = viol[key]["detail"]
        if at.get("k") not in dd["ks"]:
            dd["ks"].append(at.get("k"))
        txt = str(detail)[:160]
        if txt not in dd["info"] and len(dd["info"]) < 6:
            dd["info"].append(txt)

    # ---- fault-free execution
    base, fails = _execute(cfg, None)
    n_exec += 2
    phase = cfg["phase"]
    for f, d in fails:
        add(f, d, k=0, fault="none")
    N = base["counts"].get(phase, 0)
    obs = {"N": {p: base["counts"].get(p, 0) for p in PHASES}, "exc": base["exc"]}
    if base["exc"] is not None:
        # the fault-free run itself fails in this phase: nothing to enumerate (the failure is reported above)
        return {"viol": list(viol.values()), "obs": obs, "status": "fault-free-raises", "n": n_exec, "trivial": True}
    ref = base["rerun"] if isinstance(base["rerun"], dict) else None
    if ref is not None:
        e = _cmp_res(base["res"], ref)
        if e > RTOL:
            add("rerun-differs", {"relerr": e, "tol": RTOL}, k=0, fault="none")
    table = {}
    for k in range(1, N + 1):
        rec, fails = _execute(cfg, (phase, k))
        n_exec += 2
        key = "%s/%s" % (rec["exc"].split(":")[0] if rec["exc"] else "none", rec.get("exc_how", "-"))
        table[key] = table.get(key, 0) + 1
        for f, d in fails:
            add(f, d, k=k, fault="crash")
        if rec["exc"] is None and not fails:
            add("crash-point-not-reached", {"k": k, "N": N}, k=k, fault="crash")
        if ref is not None and isinstance(rec["rerun"], dict):
            e = _cmp_res(rec["rerun"], ref)
            if e > RTOL:
                add("rerun-differs", {"relerr": e, "tol": RTOL}, k=k, fault="crash")
    obs["table"] = table
    out = list(viol.values())
    for v in out:
        ks = v["detail"]["ks"]
        v["detail"]["n_crash_points"] = len(ks)
        v["detail"]["ks"] = ks[:12]
        v["at"]["phase"] = phase
    return {"viol": out, "obs": obs, "status": "violation" if out else "ok", "n": n_exec, "trivial": N == 0,
            "crash_points": N}


# =================================================================== (b) protocol search

from xitorch._utils.attr import get_attr  # noqa: E402   (the library's own by-name reader)

PUSH_LABELS = ["cur", "orig", "f1", "f2", "alias", "mix", "first"]
BFS_PUSH_LABELS = ["cur", "orig", "f1", "alias"]


def _events(is_linop, bfs):
    ev = [("push", l) for l in (BFS_PUSH_LABELS if bfs else PUSH_LABELS)]
    ev += [("pop", "normal"), ("pop", "exc"), ("popall", "exc"), ("call", "")]
    if not is_linop:
        ev.append(("lock", ""))
    ev += [("dbg", "on"), ("dbg", "off"), ("dpop", "normal"), ("dpop", "exc")]
    return ev


class PWorld:
    """a fresh object + PureFunction (or LinearOperator) and the reference model that consumes the same events"""

    def __init__(self, kind):
        xitorch.set_debug_mode(False)
        _TICK[0] = None
        self.kind = kind
        self.is_linop = kind.startswith("lo_")
        probe = Probe()
        self.user_holders = []
        if not self.is_linop:
            rep = F.build(kind, "rootfinder", 0, "ab", probe)
            self.rep = rep
            self.pf = xitorch.get_pure_function(rep.fcn)
            self.holders = rep.holders
            self.slots = rep.slots
            self.orig = list(self.pf.objparams())
            self.y = torch.tensor([0.3, -0.6], dtype=DT)
        elif kind.startswith("lo_jac:"):
            import xitorch.grad as xg
            rep = F.build(kind[7:], "jac", 0, "abp", probe)
            self.rep = rep
            self.yv = torch.tensor([0.4, -0.3], dtype=DT).requires_grad_()
            self.A = xg.jac(rep.fcn, params=(self.yv,) + tuple(rep.params), idxs=0)
            self.holders = []
            self.user_holders = rep.holders
            self._slots_from_names(self.A)
            self.orig = list(self.A.getlinopparams())
            self.y = torch.tensor([0.7, -1.3], dtype=DT)
        else:
            self.A, _, self.holders = build_linop(kind, rg=False)
            self._slots_from_names(self.A)
            self.orig = list(self.A.getlinopparams())
            self.y = torch.tensor([0.7, -1.3, 0.4, 0.9], dtype=DT)
        self.m = len(self.orig)
        self.snap = Snapshot(self.holders)
        self.usnap = Snapshot(self.user_holders)
        self.sets = {"orig": self.orig}
        self.counter = 0
        f1 = [self._fresh(t) for t in self.orig]
        f2 = [f1[0]] + [self._fresh(t) for t in self.orig[1:]]
        z = self._fresh(self.orig[0])
        if kind.startswith("lo_jac:"):
            # slots 0 and 1 are the differentiation point and an explicit argument of the function: installing ONE
            # tensor for both changes the mathematical function (autograd returns the total derivative), which no
            # caller of the library does and the property does not speak about; alias two object parameters instead
            if self.m >= 4 and self.orig[2].shape == self.orig[3].shape:
                z = self._fresh(self.orig[2])
                alias = [self._fresh(t) for t in self.orig[:2]] + [z, z] + [self._fresh(t) for t in self.orig[4:]]
            else:
                alias = [self._fresh(t) for t in self.orig]
        else:
            alias = [z, z] + [self._fresh(t) for t in self.orig[2:]] if self.m >= 2 and \
                self.orig[0].shape == self.orig[1].shape else [self._fresh(t) for t in self.orig]
        mix = [self.orig[0]] + f1[1:]
        # only the FIRST tensor differs from the original ones (a partial substitution must not reorder anything)
        first = [self._fresh(self.orig[0])] + list(self.orig[1:])
        self.sets.update({"f1": f1, "f2": f2, "alias": alias, "mix": mix, "first": first})
        # reference model
        self.ref = []            # python list used as a stack: (label, tensors)
        self.locks = 0
        self.ctx = []            # real contexts of the parameter stack, parallel to ref + locks: ("set"/"lock", ExitStack)
        self.dref = []           # debug reference stack: value before entering
        self.dctx = []
        self.keep = []

    def _slots_from_names(self, A):
        names = A.getparamnames("mm")
        tens = [get_attr(A, n) for n in names]
        uniq = []
        self.slots = []
        for n, t in zip(names, tens):
            for i, q in enumerate(uniq):
                if q is t:
                    self.slots.append((A, n, i))
                    break
            else:
                uniq.append(t)
                self.slots.append((A, n, len(uniq) - 1))

    def _fresh(self, like):
        self.counter += 1
        t = torch.full(like.shape, 0.35 + 0.07 * self.counter, dtype=DT)
        if like.requires_grad:
            t.requires_grad_()
        return t

    # ------------------------------------------------ reference queries
    def expected(self):
        return self.ref[-1][1] if self.ref else self.orig

    def canon(self):
        return (tuple(l for l, _ in self.ref), self.locks, tuple(self.dref_kinds()))

    def dref_kinds(self):
        return [k for k, _ in self.dref]

    def debug_expected(self):
        return self.dref[-1][0] == "on" if self.dref else False

    def ref_value(self, U):
        with torch.no_grad():
            if not self.is_linop:
                asq, b = self.rep.from_unique(U)
                return self.rep.core(self.y, asq, b, self.rep.params[0], 1.0)
            if self.kind.startswith("lo_jac:"):
                # unique parameters of the Jacobian operator: [y, p, object parameters...]
                yv, p = U[0], U[1]
                asq, b = self.rep.from_unique(U[2:])
                with torch.enable_grad():
                    yy = yv.detach().clone().requires_grad_()
                    f = self.rep.core(yy, asq.detach(), b.detach(), p.detach(), 1.0)
                    cols = [torch.autograd.grad(f[i], yy, retain_graph=True)[0] for i in range(f.numel())]
                return torch.stack(cols) @ self.y
            if self.kind == "lo_sum":
                d, u = U[0], U[1]
            elif self.kind == "lo_alias":
                d, u = U[0], U[1]
            else:
                d, u = U[0], U[1]
            return d * self.y + u * (u * self.y).sum()

    # ------------------------------------------------ events
    def enabled(self, ev):
        k, a = ev
        if k in ("pop", "popall"):
            return len(self.ctx) > 0
        if k == "dpop":
            return len(self.dctx) > 0
        return True

    def _open(self, S):
        if self.is_linop:
            return self.A.uselinopparams(*S)
        return self.pf.useobjparams(S)

    def step(self, ev):
        """apply one event to the implementation and to the reference; returns (outcome, [failure strings])"""
        k, a = ev
        fails = []
        outcome = "ok"
        if k == "push":
            if a == "cur":
                label = self.ref[-1][0] if self.ref else "orig"
                S = list(self.A.getlinopparams()) if self.is_linop else list(self.pf.objparams())
            else:
                label = a
                S = list(self.sets[a])
            es = contextlib.ExitStack()
            try:
                es.enter_context(self._open(S))
                entered = True
            except RuntimeError as e:
                entered = False
                if self.locks == 0:
                    fails.append("push-raised:%s" % _sig(e))
                outcome = "rejected"
            except Exception as e:
                entered = False
                fails.append("push-raised:%s" % _sig(e))
                outcome = "rejected"
            if entered:
                if self.locks > 0:
                    fails.append("push-accepted-while-state-change-disabled")
                # the reference follows what was passed (for "cur": the objects the implementation reported)
                self.ref.append((label, S if a == "cur" else list(self.sets[a])))
                self.ctx.append(("set", es))
                if a == "cur":
                    exp_prev = self.ref[-2][1] if len(self.ref) > 1 else self.orig
                    if len(S) != len(exp_prev) or any(x is not y for x, y in zip(S, exp_prev)):
                        fails.append("current-objects-not-top-of-stack")
        elif k == "lock":
            es = contextlib.ExitStack()
            es.enter_context(self.pf.disable_state_change())
            self.ctx.append(("lock", es))
            self.locks += 1
        elif k in ("pop", "popall"):
            n = 1 if k == "pop" else len(self.ctx)
            exc = Injected("protocol") if a == "exc" else None
            for _ in range(n):
                kind, es = self.ctx.pop()
                try:
                    if exc is None:
                        es.close()
                    else:
                        sup = es.__exit__(Injected, exc, None)
                        if sup:
                            fails.append("exception-swallowed-by-context")
                except Exception as e:
                    if e is not exc:
                        fails.append("pop-raised:%s" % _sig(e))
                if kind == "lock":
                    self.locks -= 1
                else:
                    self.ref.pop()
        elif k == "dbg":
            es = contextlib.ExitStack()
            es.enter_context(xitorch.enable_debug() if a == "on" else xitorch.disable_debug())
            self.dref.append((a, None))
            self.dctx.append(es)
        elif k == "dpop":
            es = self.dctx.pop()
            self.dref.pop()
            exc = Injected("protocol") if a == "exc" else None
            try:
                if exc is None:
                    es.close()
                else:
                    if es.__exit__(Injected, exc, None):
                        fails.append("exception-swallowed-by-context")
            except Exception as e:
                if e is not exc:
                    fails.append("pop-raised:%s" % _sig(e))
        elif k == "call":
            try:
                if self.is_linop:
                    got = self.A.mv(self.y)
                else:
                    got = self.pf(self.y, *self.rep.params)
                want = self.ref_value(self.expected())
                if relerr(got.detach(), want) > 1e-12:
                    fails.append("call-does-not-use-installed-tensors")
            except Exception as e:
                fails.append("call-raised:%s" % _sig(e))
        fails.extend(self.invariant(full=(k in ("pop", "popall", "call"))))
        return outcome, fails

    def invariant(self, full=True):
        """full=False skips the registration snapshot (used after events that cannot have touched the object)"""
        fails = []
        exp = self.expected()
        for holder, name, ui in self.slots:
            try:
                cur = get_attr(holder, name)
            except Exception as e:
                fails.append("installed:cannot-read:%s" % type(e).__name__)
                continue
            if cur is not exp[ui]:
                fails.append("installed:not-top-of-stack")
                break
        if self.is_linop:
            try:
                cur = list(self.A.getlinopparams())
                if len(cur) != len(exp) or any(x is not y for x, y in zip(cur, exp)):
                    fails.append("getlinopparams()-not-top-of-stack")
            except Exception as e:
                fails.append("getlinopparams-raises:%s" % type(e).__name__)
        else:
            cur = self.pf.objparams()
            if len(cur) != len(exp) or any(x is not y for x, y in zip(cur, exp)):
                fails.append("objparams()-not-top-of-stack")
        if xitorch.is_debug_enabled() != self.debug_expected():
            fails.append("debug-flag-not-top-of-stack")
        if full:
            if not self.ref:
                for f, d in self.snap.diff():
                    fails.append("at-rest-" + f)
            # the user's object under a library-built operator is only substituted during a product
            if self.user_holders:
                for f, d in self.usnap.diff():
                    fails.append("user-object-" + f)
        return fails

    def unwind(self):
        """leave every context normally, LIFO; afterwards the object must be exactly as it was"""
        fails = []
        try:
            while self.ctx:
                kind, es = self.ctx.pop()
                es.close()
                if kind == "lock":
                    self.locks -= 1
                else:
                    self.ref.pop()
            while self.dctx:
                self.dctx.pop().close()
                self.dref.pop()
            for f in self.invariant():
                fails.append("unwind:" + f)
        except Exception as e:
            fails.append("unwind-raised:%s" % _sig(e))
        if not self.is_linop:
            # a push after a full unwind must be accepted again (the lock is released)
            try:
                with self.pf.useobjparams(list(self.sets["f1"])):
                    pass
            except Exception as e:
                fails.append("unwind:push-rejected-after-unwind:%s" % type(e).__name__)
            for f in self.invariant(full=False):
                fails.append("unwind:" + f)
        xitorch.set_debug_mode(False)
        return fails


def _replay(kind, hist):
    """fresh world, apply the events; returns (world, outcome of last event, failures of last event, enabled?)"""
    w = PWorld(kind)
    last = ("", [])
    for i, ev in enumerate(hist):
        if not w.enabled(ev):
            return w, None, None
        last = w.step(ev)
        if last[1] and i < len(hist) - 1:
            # a prefix already violated: reported when that prefix was explored
            return w, None, None
    return w, last[0], last[1]


def run_protocol(cfg):
    kind = cfg["kind"]
    is_linop = kind.startswith("lo_")
    viol = {}
    table = {}
    n_exec = 0
    transitions = 0
    states = 0
    nseen = 0
    maxd = 0

    def record(hist, fails):
        for f in fails:
            key = (f, "%s/%s" % hist[-1])
            if key not in viol or len(hist) < len(viol[key]["detail"]["history"]):
                viol[key] = V(f, {"history": ["%s/%s" % e for e in hist]},
                              last_event="%s/%s" % hist[-1], hist_len=len(hist))

    if cfg["part"] == "seq":
        # all sequences that start with cfg["first"], up to depth, undeduplicated
        evs = _events(is_linop, bfs=False)
        first = tuple(cfg["first"].split("/"))
        first = (first[0], first[1] if len(first) > 1 else "")
        frontier = [[]]
        for d in range(cfg["depth"]):
            nxt = []
            for hist in frontier:
                for ev in (evs if d > 0 else [first]):
                    h2 = hist + [ev]
                    w, outcome, fails = _replay(kind, h2)
                    if outcome is None:
                        w.unwind()
                        continue
                    n_exec += 1
                    transitions += 1
                    fails = list(fails) + w.unwind()
                    key = "%d:%s:%s" % (d + 1, ev[0], outcome)
                    table[key] = table.get(key, 0) + 1
                    if fails:
                        record(h2, sorted(set(fails)))
                    else:
                        nxt.append(h2)
                    states += 1
            frontier = nxt
            maxd = d + 1 if nxt else maxd
    else:
        # breadth-first with deduplication on the reference state
        evs = _events(is_linop, bfs=True)
        w0 = PWorld(kind)
        seen = {w0.canon(): []}
        w0.unwind()
        queue = [[]]
        while queue:
            hist = queue.pop(0)
            if len(hist) >= cfg["bfs"]:
                continue
            for ev in evs:
                h2 = hist + [ev]
                w, outcome, fails = _replay(kind, h2)
                if outcome is None:
                    w.unwind()
                    continue
                n_exec += 1
                transitions += 1
                c = w.canon()
                fails = list(fails) + w.unwind()
                key = "bfs:%s:%s" % (ev[0], outcome)
                table[key] = table.get(key, 0) + 1
                if fails:
                    record(h2, sorted(set(fails)))
                    continue
                if c not in seen:
                    seen[c] = h2
                    queue.append(h2)
                    maxd = max(maxd, len(h2))
        nseen = len(seen)
    out = list(viol.values())
    return {"viol": out, "obs": {"kind": kind, "part": cfg["part"], "first": cfg.get("first"), "table": table,
                                 "bfs_states": nseen, "max_depth": maxd},
            "status": "violation" if out else "ok", "n": n_exec, "states": states + nseen,
            "transitions": transitions}


# =================================================================== alias partitions of the declared parameters

def _partitions(k):
    """all set partitions of k slots as restricted growth strings (slot -> class index, classes numbered by first
    occurrence)"""
    def rec(prefix, m):
        if len(prefix) == k:
            yield tuple(prefix)
            return
        for c in range(m + 1):
            yield from rec(prefix + [c], max(m, c + 1))
    return list(rec([], 0))


def run_alias(cfg):
    """every way in which the declared names of an EditableModule / LinearOperator can share tensor objects (all
    set partitions of k names): the unique-parameter list is the distinct tensors in order of first occurrence,
    substituting a list of new tensors installs new[class] under EVERY name of the class, an inner substitution and
    its unwinding restore the outer one, and at rest the object holds the caller's tensors under every name."""
    k, kindo = cfg["k"], cfg["obj"]
    viol, seen = [], set()
    nexec = states = 0

    def add(failure, detail, **at):
        if failure not in seen:
            seen.add(failure)
            viol.append(V(failure, detail, **at))

    names = ["t%d" % i for i in range(k)]

    class EM(xitorch.EditableModule):
        def __init__(self, tens):
            for nm, t in zip(names, tens):
                setattr(self, nm, t)

        def f(self, x):
            return sum((i + 1.0) * getattr(self, nm) for i, nm in enumerate(names)) * x

        def getparamnames(self, methodname, prefix=""):
            return [prefix + nm for nm in names]

    class LO(LinearOperator):
        def __init__(self, tens):
            super().__init__(shape=(2, 2), dtype=DT)
            for nm, t in zip(names, tens):
                setattr(self, nm, t)

        def _mv(self, x):
            return sum((i + 1.0) * getattr(self, nm) for i, nm in enumerate(names)) * x

        def _getparamnames(self, prefix=""):
            return [prefix + nm for nm in names]

    for part in _partitions(k):
        ncls = max(part) + 1
        orig = [torch.full((2,), 0.5 + 0.25 * c, dtype=DT) for c in range(ncls)]
        new1 = [torch.full((2,), 2.0 + 0.5 * c, dtype=DT) for c in range(ncls)]
        new2 = [torch.full((2,), -1.0 - 0.5 * c, dtype=DT) for c in range(ncls)]
        obj = (EM if kindo == "em" else LO)([orig[c] for c in part])
        at = {"partition": "".join(str(c) for c in part)}

        def held():
            return [getattr(obj, nm) for nm in names]

        def same(lst, ref):
            return len(lst) == len(ref) and all(a is b for a, b in zip(lst, ref))

        def expect(cls_tensors):
            return [cls_tensors[c] for c in part]

        def getu():
            return list(obj.getuniqueparams("f")) if kindo == "em" else list(obj.getlinopparams())
        o = call(getu)
        nexec += 1
        states += 1
        if o.exc is not None:
            add("alias:unique-params-raise:%s" % type(o.exc).__name__, {"message": str(o.exc)[:200], **at}, **at)
            continue
        if not same(o.value, orig):
            add("alias:unique-params-are-not-the-distinct-tensors-in-first-occurrence-order",
                {"n_returned": len(o.value), "n_classes": ncls, **at}, **at)
            continue
        if kindo == "em":
            o1 = call(obj.setuniqueparams, "f", *new1)
            nexec += 1
            states += 1
            if o1.exc is not None:
                add("alias:setuniqueparams-raises:%s" % type(o1.exc).__name__, {"message": str(o1.exc)[:200], **at}, **at)
                continue
            if not same(held(), expect(new1)):
                add("alias:substitution-installs-wrong-tensor", {"stage": "set", **at}, **at)
            o2 = call(obj.setuniqueparams, "f", *orig)
            nexec += 1
            states += 1
            if o2.exc is not None or not same(held(), expect(orig)):
                add("alias:restore-leaves-other-tensors", {"stage": "restore", **at}, **at)
        else:
            def nested():
                inside = []
                with obj.uselinopparams(*new1):
                    inside.append(same(held(), expect(new1)))
                    with obj.uselinopparams(*new2):
                        inside.append(same(held(), expect(new2)))
                    inside.append(same(held(), expect(new1)))
                return inside
            o1 = call(nested)
            nexec += 3
            states += 4
            if o1.exc is not None:
                add("alias:uselinopparams-raises:%s" % type(o1.exc).__name__, {"message": str(o1.exc)[:200], **at}, **at)
                continue
            if not all(o1.value):
                add("alias:substitution-installs-wrong-tensor", {"inside": o1.value, **at}, **at)
            if not same(held(), expect(orig)):
                add("alias:restore-leaves-other-tensors", {"stage": "at-rest", **at}, **at)
    return {"viol": viol, "obs": {"k": k, "obj": kindo, "partitions": len(_partitions(k)), "nviol": len(viol)},
            "status": "violation" if viol else "ok", "n": nexec, "states": states, "transitions": nexec}


def run_alias2(cfg):
    """histories of alias partitions: the object is built with partition P1 of its k declared names, used once through
    the real functional (solve + backward for a LinearOperator, getuniqueparams / setuniqueparams cycle for an
    EditableModule), then its owner binds fresh tensors to the names according to partition P2 - every ordered pair
    (P1, P2).  Afterwards everything run_alias demands must hold for P2, and for the LinearOperator the solution of
    solve and the gradient w.r.t. every distinct tensor must be those of the tensors held NOW, the object holding
    exactly the owner's tensors after the forward call and after the backward pass."""
    from xitorch.linalg import solve
    k, kindo = cfg["k"], cfg["obj"]
    viol, seen = [], set()
    nexec = states = 0
    names = ["t%d" % i for i in range(k)]

    def add(failure, detail, **at):
        if failure not in seen:
            seen.add(failure)
            viol.append(V(failure, detail, **at))

    class EM(xitorch.EditableModule):
        def __init__(self, tens):
            for nm, t in zip(names, tens):
                setattr(self, nm, t)

        def f(self, x):
            return sum((i + 1.0) * getattr(self, nm) for i, nm in enumerate(names)) * x

        def getparamnames(self, methodname, prefix=""):
            return [prefix + nm for nm in names]

    class LO(LinearOperator):
        def __init__(self, tens):
            super().__init__(shape=(2, 2), dtype=DT)
            for nm, t in zip(names, tens):
                setattr(self, nm, t)

        def _mv(self, x):
            return sum((i + 1.0) * getattr(self, nm) for i, nm in enumerate(names)) * x

        def _getparamnames(self, prefix=""):
            return [prefix + nm for nm in names]

    B = torch.tensor([[1.0], [-2.0]], dtype=DT)
    methods = cfg.get("methods", ["exactsolve", "bicgstab"])

    def same(lst, ref):
        return len(lst) == len(ref) and all(a is b for a, b in zip(lst, ref))

    parts = _partitions(k)
    for p1 in parts:
        for p2 in parts:
            for method in (methods if kindo == "lo" else [None]):
                at = {"partition1": "".join(map(str, p1)), "partition2": "".join(map(str, p2))}
                if method:
                    at["solver"] = method
                t1 = [torch.full((2,), 0.5 + 0.25 * c, dtype=DT).requires_grad_() for c in range(max(p1) + 1)]
                t2 = [torch.tensor([0.75 + 0.5 * c, 1.25 + 0.25 * c], dtype=DT).requires_grad_()
                      for c in range(max(p2) + 1)]
                obj = (EM if kindo == "em" else LO)([t1[c] for c in p1])

                def held():
                    return [getattr(obj, nm) for nm in names]

                def use(tens, part, judged):
                    nonlocal nexec, states
                    exp_held = [tens[c] for c in part]
                    if kindo == "em":
                        o = call(lambda: list(obj.getuniqueparams("f")))
                        nexec += 1
                        states += 1
                        if o.exc is not None:
                            return add("alias2:unique-params-raise:%s" % type(o.exc).__name__,
                                       {"message": str(o.exc)[:200], **at}, **at)
                        if judged and not same(o.value, tens):
                            return add("alias2:unique-params-are-not-the-distinct-tensors-held-now",
                                       {"n_returned": len(o.value), "n_classes": len(tens), **at}, **at)
                        new = [torch.full((2,), 2.0 + 0.5 * c, dtype=DT) for c in range(len(o.value))]
                        o1 = call(obj.setuniqueparams, "f", *new)
                        nexec += 1
                        states += 1
                        if o1.exc is not None:
                            return add("alias2:setuniqueparams-raises:%s" % type(o1.exc).__name__,
                                       {"message": str(o1.exc)[:200], **at}, **at)
                        if judged and not same(held(), [new[c] for c in part]):
                            add("alias2:substitution-installs-wrong-tensor", dict(at), **at)
                        o2 = call(obj.setuniqueparams, "f", *o.value)
                        nexec += 1
                        states += 1
                        if judged and (o2.exc is not None or not same(held(), exp_held)):
                            add("alias2:restore-leaves-other-tensors", dict(at), **at)
                        return None
                    opts = {} if method == "exactsolve" else {"rtol": 1e-12, "atol": 1e-14, "max_niter": 40}
                    o = call(lambda: solve(obj, B, method=method, **opts))
                    nexec += 1
                    states += 1
                    if o.exc is not None:
                        return add("alias2:solve-raises:%s" % type(o.exc).__name__,
                                   {"message": str(o.exc)[:200], **at}, **at)
                    if judged and not same(held(), exp_held):
                        add("alias2:object-holds-other-tensors-after-forward", dict(at), **at)
                    d = sum((i + 1.0) * tens[c].detach() for i, c in enumerate(part)).unsqueeze(-1)
                    xref = B / d
                    if judged and relerr(o.value.detach(), xref) > 1e-9:
                        add("alias2:solution-is-not-that-of-the-tensors-held-now",
                            {"relerr": rnd(relerr(o.value.detach(), xref)), **at}, **at)
                    g = call(lambda: torch.autograd.grad(o.value.sum(), tens, allow_unused=True))
                    nexec += 1
                    states += 1
                    if g.exc is not None:
                        return add("alias2:backward-raises:%s" % type(g.exc).__name__,
                                   {"message": str(g.exc)[:200], **at}, **at)
                    if judged and not same(held(), exp_held):
                        add("alias2:object-holds-other-tensors-after-backward", dict(at), **at)
                    if judged:
                        for c, gc in enumerate(g.value):
                            w = sum((i + 1.0) for i, cc in enumerate(part) if cc == c)
                            gref = (-w * B / d ** 2).squeeze(-1)
                            if gc is None or relerr(gc, gref) > 1e-8:
                                add("alias2:gradient-wrong-or-missing",
                                    {"class": c, "got": None if gc is None else rnd(gc.tolist()),
                                     "ref": rnd(gref.tolist()), **at}, **at)
                    return None

                use(t1, p1, judged=False)
                pending = None
                if kindo == "lo":                  # a result of the first binding whose backward pass runs later
                    opts = {} if method == "exactsolve" else {"rtol": 1e-12, "atol": 1e-14, "max_niter": 40}
                    pending = call(lambda: solve(obj, B, method=method, **opts))
                    nexec += 1
                for nm, c in zip(names, p2):       # the owner re-binds every declared name
                    setattr(obj, nm, t2[c])
                if pending is not None and pending.exc is None:
                    g = call(lambda: torch.autograd.grad(pending.value.sum(), t1, allow_unused=True))
                    nexec += 1
                    states += 1
                    if g.exc is not None:
                        add("alias2:late-backward-raises:%s" % type(g.exc).__name__,
                            {"message": str(g.exc)[:200], **at}, **at)
                    else:
                        if not same(held(), [t2[c] for c in p2]):
                            add("alias2:object-holds-other-tensors-after-late-backward", dict(at), **at)
                        d1 = sum((i + 1.0) * t1[c].detach() for i, c in enumerate(p1)).unsqueeze(-1)
                        for c, gc in enumerate(g.value):
                            w = sum((i + 1.0) for i, cc in enumerate(p1) if cc == c)
                            gref = (-w * B / d1 ** 2).squeeze(-1)
                            if gc is None or relerr(gc, gref) > 1e-8:
                                add("alias2:late-gradient-is-not-that-of-the-forward-call",
                                    {"class": c, "got": None if gc is None else rnd(gc.tolist()),
                                     "ref": rnd(gref.tolist()), **at}, **at)
                use(t2, p2, judged=True)
    return {"viol": viol[:6], "obs": {"k": k, "obj": kindo, "pairs": len(parts) ** 2, "nviol": len(viol)},
            "status": "violation" if viol else "ok", "n": nexec, "states": states, "transitions": nexec}


# =================================================================== (d) owner re-assigns between forward and backward

MUT_KINDS = ["nn_flat", "nn_nested", "nn_tied", "nn_extra", "em_leaves", "em_derived", "em_alias", "em_list",
             "em_dict", "em_nn", "em_call", "em_cplx", "sib:nn_flat", "sib:nn_nested", "sib:em_list", "sib:em_leaves",
             "multi_em_em", "multi_em_nn", "multi_nn_em", "multi_em2_em"]
MUT_PHASES = ["backward", "backward_cg", "double_backward"]


def run_mut(cfg):
    """forward call, then the OWNER of the object assigns a new tensor to one declared attribute (next
    optimisation step while the old graph is still alive), then the backward pass(es) of the first result.
    The statement: after any backward pass the object holds exactly the tensor objects it held before it -
    here the owner's new tensor, not the forward-time one.  Only the state is judged (values are C08's subject)."""
    xitorch.set_debug_mode(cfg.get("debug") == "set")
    try:
        probe = Probe()
        probe.arm = None
        world = World(cfg, probe)
        rep = world.rep
        if cfg["slot"] >= len(rep.slots):
            return {"viol": [], "obs": {"slots": len(rep.slots)}, "status": "no-such-slot", "trivial": True}
        torch.manual_seed(777)
        o = call(world.forward)
        if o.exc is not None:
            return {"viol": [V("exception:" + _sig(o.exc), {"message": str(o.exc)[:300]}, stage="forward")],
                    "obs": {"exc": _sig(o.exc)}, "status": "violation"}
        outs = o.value
        holder, name, _ = rep.slots[cfg["slot"]]
        old = get_attr(holder, name)
        with torch.no_grad():
            val = old.detach().clone() * 1.5 + 0.25
        if isinstance(old, torch.nn.Parameter):
            new = torch.nn.Parameter(val, requires_grad=old.requires_grad)
        else:
            new = val.requires_grad_(old.requires_grad)
        exec("obj.%s = val" % name, {"obj": holder, "val": new})       # what the owner writes: obj.sub.w = new
        snap = Snapshot(world.holders)
        phase = cfg["phase"]
        loss = F.loss_of(outs)
        status = "ok"
        obs = {"attr": name}
        if not loss.requires_grad:
            return {"viol": [], "obs": obs, "status": "not-differentiable", "trivial": True}

        def passes():
            torch.manual_seed(778)
            g1 = torch.autograd.grad(loss, world.leaves, create_graph=(phase != "backward"), allow_unused=True)
            if phase == "double_backward":
                l2 = F.loss2_of(g1)
                if l2 is not None:
                    torch.manual_seed(779)
                    torch.autograd.grad(l2, world.leaves, allow_unused=True)
            return g1
        if cfg.get("inside"):
            from xitorch._core.pure_function import get_pure_function

            class _Other(xitorch.EditableModule):
                def __init__(self, w):
                    self.w = w

                def f(self, x):
                    return self.w * x

                def getparamnames(self, methodname, prefix=""):
                    return [prefix + "w"]
            w_other = torch.ones(2, dtype=torch.float64)
            other = _Other(w_other)
            opf = get_pure_function(other.f)
            with opf.useobjparams([torch.full((2,), 2.0, dtype=torch.float64)]):
                ob = call(passes)
            if other.w is not w_other:
                return {"viol": [V("state-after-reassignment:unrelated-object-not-restored", {}, phase=phase)],
                        "obs": obs, "status": "violation", "n": 1}
        else:
            ob = call(passes)
        if ob.exc is not None:
            status = "backward-raises"          # not judged by this property; the state below still is
            obs["exc"] = _sig(ob.exc)
        viol = []
        for f, d in snap.diff():
            viol.append(V(f.replace("state:", "state-after-reassignment:"), {"path": str(d)[:200], "attribute": name},
                          phase=phase))
        cur = get_attr(holder, name)
        if cur is not new and not viol:
            viol.append(V("state-after-reassignment:owner's-tensor-gone", {"attribute": name}, phase=phase))
        return {"viol": viol[:4], "obs": obs, "status": "violation" if viol else status, "n": 1}
    finally:
        xitorch.set_debug_mode(False)


def run_case(cfg):
    if cfg["search"] == "mut":
        return run_mut(cfg)
    if cfg["search"] == "protocol":
        return run_protocol(cfg)
    if cfg["search"] == "alias":
        return run_alias(cfg)
    if cfg["search"] == "alias2":
        return run_alias2(cfg)
    return run_crash(cfg)


def coverage_extra(tier, seed, results):
    mut = [r for r in results if r["cfg"]["search"] == "mut"]
    results = [r for r in results if r["cfg"]["search"] not in ("alias", "alias2", "mut")] or results
    crash = [r for r in results if r["cfg"]["search"] == "crash"]
    proto = [r for r in results if r["cfg"]["search"] == "protocol"]
    dims = {}
    for r in crash:
        for k in ("functional", "kind", "debug", "phase", "rg"):
            dims.setdefault(k, set()).add(r["cfg"][k])
    return {
        "reassignment_search": {"cases": len(mut), "judged": len([r for r in mut if not r.get("trivial")]),
                                "backward_raised": len([r for r in mut if r["status"] == "backward-raises"])},
        "crash_search": {"scenarios": len(crash), "crash_points": int(sum(r.get("crash_points", 0) for r in crash)),
                         "executions": int(sum(r.get("n", 0) for r in crash)),
                         "dimensions": {k: sorted(v) for k, v in dims.items()}},
        "protocol_search": {"objects": [r["cfg"]["kind"] for r in proto],
                            "states": int(sum(r.get("states", 0) for r in proto)),
                            "transitions": int(sum(r.get("transitions", 0) for r in proto)),
                            "undeduplicated_depth": max([r["cfg"]["depth"] for r in proto] or [0]),
                            "bfs_depth": max([r["cfg"]["bfs"] for r in proto] or [0])},
    }
