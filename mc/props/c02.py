"""C02 — first and second order gradients through xitorch.linalg.solve equal the derivatives of the exact
solution map X = (A - E M)^-1 B, column by column.

Union of three complete sub-lattices:

  method     forward method x backward method x E/M x E dtype x dtype x n            (two parameter placements)
  placement  parameter placement (13) x (forward, backward) pairs x E/M x dtype x batch pattern
  subset     every non-empty subset of {A-parameters, B, E, M-parameters} requiring grad x order {1, 1 with
             create_graph, 2} x cotangent kind; for order 1 the same operator objects are then used for a second
             solve + backward (the parameter substitution of the first backward must have been undone)
"""
from __future__ import annotations
import itertools
import torch
from mc.util import V, call, rnd, gen, randn
from mc.props import _solve_common as sc
from mc.props._solve_common import DT, EPS, shp, bcast_shape
from mc.props.c01 import exc_class

ID = "C02"
LEVEL = "exploration"
DESIGN_REF = "DESIGN.md §5 C02"
RULE = ("case = one point of the union of three complete sub-lattices (method / placement / subset, see module "
        "docstring) over parameter placement (dense leaf, dense derived P P^H + I, matrix-free with/without rmv, "
        "matrix-free Hermitian derived, sum sharing one leaf, sum of two, matmul, sum / matmul with a dense-wrapped child, scaled, adjoint, operator with an "
        "unused declared parameter, Jacobian operator of an EditableModule method / of a plain function) x forward "
        "method (6) x backward method (default, exactsolve, cg, bicgstab, gmres, broyden1; explicit tight "
        "tolerances in bck_options) x {no E, E, E+M, M only} x E dtype x batch pattern x {float64, complex128} x "
        "subset of inputs requiring grad x cotangent x order; per point one solve() call, torch.autograd.grad of "
        "Re<V, X> (and of a random contraction of the first-order gradients for order 2) compared leaf by leaf "
        "with autograd through a dense column-by-column torch.linalg.solve reference built from the same leaves; "
        "exceptions are violations; points whose forward or backward solver raised a ConvergenceWarning are not "
        "judged numerically; distinct = distinct observation hashes; trivial = forward warned")
RULE_ADDED = 'Added later: placements add_dense / matmul_dense / sub_two, operator tensor reassigned between forward and backward (mut), dependent parameters, call-order plane in fresh interpreters. Round 4: placements view_two / detach_two (distinct tensors sharing storage), scale_in_sum. Rounds 5-6: placement const (operator without declared parameters); plane ezero (every shift exactly zero). Round 7: graph history prior_plain (a plain backward pass with retain_graph over the same graph before the recording pass that is judged).'
ASSUMPTIONS = [
    "A = L A0 L^H (value of the leaf), M = Pm Pm^H + I = L L^H, A0 non-normal with singular values in [0.7, 3.3]; "
    "Hermitian placements use P P^H + I; kappa of every A - e_c M is measured and enters the tolerance",
    "tolerance first order: (100 kappa^2 max(tol_fwd, tol_bck) + 1e4 eps kappa^2) x max(1, |reference gradients|); "
    "second order: 10 kappa times that; forward and backward tolerances 1e-11 (Krylov rtol) / 1e-11 (Broyden f_tol, "
    "x_tol) with max_niter = 20 n are always passed explicitly",
    "leaves are unconstrained tensors: Hermitian-flagged operators are parametrised through P P^H + I so that the "
    "gradient with respect to the leaf is unambiguous",
    "Jacobian operators: float64, unbatched operator",
    "quick tier and value plane 0 are seed independent; VERIF_SEED selects the numeric instance of the extra "
    "value planes of the thorough tier",
]
BUDGET_S = {"quick": 400, "thorough": 3000}

FWD = ["exactsolve", "custom_exactsolve", "cg", "bicgstab", "gmres", "broyden1"]
BCK = ["default", "exactsolve", "cg", "bicgstab", "gmres", "broyden1"]
PLACEMENTS = ["dense_leaf", "dense_derived", "mf_leaf", "mf_leaf_mv", "mf_derived", "add_shared", "add_two",
              "matmul", "scale", "adj", "mf_unused", "jac_mod", "jac_fn", "add_dense", "matmul_dense", "sub_two", "view_two", "detach_two",
              "scale_in_sum", "const"]
JACS = ("jac_mod", "jac_fn")
HERM_PL = ("dense_derived", "mf_derived")
LEAF_PL = ("dense_leaf", "mf_leaf", "mf_leaf_mv", "mf_unused")      # the operator holds the leaf tensor itself
TOL = 1e-11

DEFAULTS = {"plane": "method", "place": "dense_leaf", "mplace": "dense", "fwd": "custom_exactsolve", "bck": "exactsolve",
            "E": "none", "Edtype": "-", "dtype": "f64", "n": 3, "ncols": 2, "bA": "", "bB": "2", "bE": None, "bM": None,
            "req": "AB", "cot": "dense", "order": "2", "reuse": False, "vseed": 0}


def mk(**kw):
    c = dict(DEFAULTS)
    c.update(kw)
    if c["E"] in ("E", "EM"):
        if c["Edtype"] == "-":
            c["Edtype"] = "real"
        if c["bE"] is None:
            c["bE"] = ""
    else:
        c["Edtype"] = "-"
        c["bE"] = None
    if c["E"] in ("EM", "M"):
        if c["bM"] is None:
            c["bM"] = ""
    else:
        c["bM"] = None
    if c["req"] == "all":
        c["req"] = "AB" + ("E" if c["E"] in ("E", "EM") else "") + ("M" if c["E"] in ("EM", "M") else "")
    return c


def emodes_for(dtype, m_only=False):
    out = [("none", "-"), ("E", "real"), ("EM", "real")]
    if dtype == "c128":
        out += [("E", "complex"), ("EM", "complex")]
    if m_only:
        out.append(("M", "-"))
    return out


BATCH3 = [("", "2", "", ""), ("2", "", "2", "2"), ("2,1", "1,3", "3", "1")]       # (bA, bB, bE, bM)
BATCH3_JAC = [("", "2", "", ""), ("", "", "2", "2"), ("", "1,3", "3", "2,1")]
BATCH5 = BATCH3 + [("", "", "", ""), ("1", "2", "2,1", "2")]


def _pat(em, pat):
    bA, bB, bE, bM = pat
    return dict(bA=bA, bB=bB, bE=(bE if em in ("E", "EM") else None), bM=(bM if em in ("EM", "M") else None))


def _subsets(groups):
    out = []
    for k in range(1, len(groups) + 1):
        for comb in itertools.combinations(groups, k):
            out.append("".join(comb))
    return out


def cases(tier, seed):
    quick = tier == "quick"
    vseeds = [0] if quick else [0] + [int(seed) * 1000 + k for k in (1, 2)]
    out = []
    # ---- method plane
    for vs in vseeds:
        for dtype in ["f64", "c128"]:
            for place in (["dense_leaf", "mf_leaf_mv"] if quick else ["dense_leaf", "mf_leaf_mv", "mf_derived"]):
                for (em, ed) in emodes_for(dtype):
                    for n in [3, 6]:
                        for fwd in FWD:
                            for bck in (BCK if fwd != "exactsolve" else ["default"]):
                                out.append(mk(plane="method", place=place, fwd=fwd, bck=bck, E=em, Edtype=ed, dtype=dtype,
                                              n=n, req="all", vseed=vs, **_pat(em, BATCH3[0])))
    # ---- placement plane
    if quick:
        pairs = [("exactsolve", "default"), ("custom_exactsolve", "exactsolve"), ("cg", "cg"), ("bicgstab", "default"),
                 ("custom_exactsolve", "bicgstab")]
    else:
        pairs = [("exactsolve", "default")] + [(f, b) for f in ["custom_exactsolve", "cg", "bicgstab", "broyden1"]
                                                for b in ["default", "exactsolve", "cg", "bicgstab"]]
    for vs in vseeds[:2]:
        for dtype in ["f64", "c128"]:
            for place in PLACEMENTS:
                if place in JACS and dtype != "f64":
                    continue
                for mplace in (["dense"] if quick else ["dense", "mf"]):
                    for (em, ed) in emodes_for(dtype):
                        if mplace == "mf" and em != "EM":
                            continue
                        pats = (BATCH3_JAC if place in JACS else (BATCH3 if quick else BATCH5))
                        for ip, pat in enumerate(pats):
                            if vs != 0 and ip > 0:
                                continue
                            for (fwd, bck) in pairs:
                                out.append(mk(plane="placement", place=place, mplace=mplace, fwd=fwd, bck=bck, E=em, Edtype=ed,
                                              dtype=dtype, n=(6 if ip == 0 else 3), ncols=(2 if ip == 0 else 3), req="all",
                                              vseed=vs, **_pat(em, pat)))
    # ---- subset plane
    for dtype in ["f64", "c128"]:
        for place in (["dense_leaf", "mf_derived"] if quick else ["dense_leaf", "mf_derived", "mf_leaf", "jac_mod"]):
            if place in JACS and dtype != "f64":
                continue
            for (em, ed) in emodes_for(dtype, m_only=True):
                if quick and dtype == "c128" and em == "E":
                    continue
                groups = ["A", "B"] + (["E"] if em in ("E", "EM") else []) + (["M"] if em in ("EM", "M") else [])
                for req in _subsets(groups):
                    for (fwd, bck) in [("custom_exactsolve", "exactsolve"), ("bicgstab", "cg")]:
                        for order in ["1", "1cg", "2"]:
                            for cot in (["dense"] if (quick and len(req) < len(groups)) else ["dense", "unit", "zerocol"]):
                                pat = BATCH3_JAC[1] if place in JACS else BATCH3[1]
                                out.append(mk(plane="subset", place=place, fwd=fwd, bck=bck, E=em, Edtype=ed, dtype=dtype,
                                              n=3, ncols=2, req=req, order=order, cot=cot, reuse=(order != "2"),
                                              **_pat(em, pat)))
                                if order != "1" and cot == "dense" and len(req) == len(groups):
                                    # graph history: a plain backward pass (retain_graph) over the same graph first,
                                    # then the recording one that is judged
                                    out.append(mk(plane="subset", place=place, fwd=fwd, bck=bck, E=em, Edtype=ed,
                                                  dtype=dtype, n=3, ncols=2, req=req, order=order, cot=cot,
                                                  reuse=(order != "2"), prior_plain=True, **_pat(em, pat)))
    # ---- the operator object is given another tensor between forward and backward
    for dtype in ["f64", "c128"]:
        for place in ("mf_leaf", "mf_leaf_mv"):
            for (em, ed) in emodes_for(dtype):
                if ed == "real" and dtype == "c128":
                    continue
                for (fwd, bck) in [("custom_exactsolve", "exactsolve"), ("bicgstab", "cg"), ("cg", "bicgstab")]:
                    for order_ in ["1", "1cg", "2"]:
                        c = mk(plane="subset", place=place, fwd=fwd, bck=bck, E=em, Edtype=ed, dtype=dtype, n=3, ncols=2,
                               req="all", order=order_, cot="dense", reuse=False, **_pat(em, BATCH3[0]))
                        c["mut"] = 1
                        out.append(c)
    # ---- an exactly zero right-hand side that requires grad: X = 0, but dX/dB = (A - e M)^-1 is not
    for dtype in ["f64", "c128"]:
        for place in ("dense_leaf", "mf_leaf", "add_two"):
            for (em, ed) in emodes_for(dtype):
                if ed == "real" and dtype == "c128":
                    continue
                for (fwd, bck) in [("custom_exactsolve", "exactsolve"), ("bicgstab", "cg"), ("cg", "bicgstab"),
                                   ("exactsolve", "default")]:
                    for order_ in ["1", "1cg", "2"]:
                        c = mk(plane="subset", place=place, fwd=fwd, bck=bck, E=em, Edtype=ed, dtype=dtype, n=3, ncols=2,
                               req="all", order=order_, cot="dense", reuse=False, **_pat(em, BATCH3[0]))
                        c["bzero"] = 1
                        out.append(c)
    # ---- shifts that are all exactly zero: X = A^-1 B, but dX/dE = A^-1 M X diag(.) and the mixed second-order
    # blocks d/dE [dL/dM], d/dE [dL/dA] do not vanish
    for dtype in ["f64", "c128"]:
        for place in ("dense_leaf", "mf_leaf", "add_two"):
            for (em, ed) in emodes_for(dtype):
                if em == "none" or (ed == "real" and dtype == "c128"):
                    continue
                for (fwd, bck) in [("custom_exactsolve", "exactsolve"), ("bicgstab", "cg"), ("cg", "bicgstab"),
                                   ("exactsolve", "default")]:
                    for order_ in ["1", "1cg", "2"]:
                        c = mk(plane="subset", place=place, fwd=fwd, bck=bck, E=em, Edtype=ed, dtype=dtype, n=3, ncols=2,
                               req="all", order=order_, cot="dense", reuse=False, **_pat(em, BATCH3[0]))
                        c["ezero"] = 1
                        out.append(c)
    # ---- the same operator objects were used for an ordinary solve + backward before the judged call
    for dtype in ["f64", "c128"]:
        for place in ("dense_leaf", "mf_leaf", "mf_leaf_mv", "add_two", "adj", "view_two"):
            for (em, ed) in emodes_for(dtype):
                if ed == "real" and dtype == "c128":
                    continue
                for (fwd, bck) in [("custom_exactsolve", "exactsolve"), ("bicgstab", "cg"), ("cg", "bicgstab")]:
                    for order_ in ["1", "1cg", "2"]:
                        c = mk(plane="subset", place=place, fwd=fwd, bck=bck, E=em, Edtype=ed, dtype=dtype, n=3, ncols=2,
                               req="all", order=order_, cot="dense", reuse=False, **_pat(em, BATCH3[0]))
                        c["prior1"] = 1
                        out.append(c)
    order = {"method": 0, "placement": 1, "subset": 2}
    out.sort(key=lambda c: (c["vseed"] != 0, order[c["plane"]], c["n"]))
    return out


# ------------------------------------------------------------------ operators with parameters

def _lazy_classes():
    """classes that need xitorch at import; created once per process"""
    global _CLS
    try:
        return _CLS
    except NameError:
        pass
    import xitorch
    from xitorch import LinearOperator

    class OpUnused(LinearOperator):
        """_mv/_rmv from `mat`; declares a second parameter that no product depends on"""

        def __init__(self, mat, extra):
            super().__init__(shape=mat.shape, is_hermitian=False, dtype=mat.dtype, device=mat.device)
            self.mat = mat
            self.extra = extra

        def _mv(self, x):
            return torch.matmul(self.mat, x.unsqueeze(-1)).squeeze(-1)

        def _rmv(self, x):
            return torch.matmul(self.mat.transpose(-2, -1).conj(), x.unsqueeze(-1)).squeeze(-1)

        def _getparamnames(self, prefix=""):
            return [prefix + "mat", prefix + "extra"]

    class OpPair(LinearOperator):
        """A = (a + b') / 2 from TWO DISTINCT tensor objects that share their storage: b' = b^T with b = a^T (a view
        of a), or b' = b with b = a.detach() (a frozen alias).  Both are declared parameters."""

        def __init__(self, a, b, tr):
            super().__init__(shape=a.shape, is_hermitian=False, dtype=a.dtype, device=a.device)
            self.a = a
            self.b = b
            self.tr = tr

        def _full(self):
            return 0.5 * (self.a + (self.b.transpose(-2, -1) if self.tr else self.b))

        def _mv(self, x):
            return torch.matmul(self._full(), x.unsqueeze(-1)).squeeze(-1)

        def _rmv(self, x):
            return torch.matmul(self._full().transpose(-2, -1).conj(), x.unsqueeze(-1)).squeeze(-1)

        def _getparamnames(self, prefix=""):
            return [prefix + "a", prefix + "b"]

    class TanhMod(xitorch.EditableModule):
        def __init__(self, w, c):
            self.w = w
            self.c = c

        def f(self, y):
            return self.w @ y + 0.3 * torch.tanh(self.c * y)

        def getparamnames(self, methodname, prefix=""):
            if methodname == "f":
                return [prefix + "w", prefix + "c"]
            raise KeyError(methodname)

    class OpConst(LinearOperator):
        """an operator defined by constants only: it declares NO tensor parameter"""

        def __init__(self, mat):
            super().__init__(shape=mat.shape, is_hermitian=False, dtype=mat.dtype, device=mat.device)
            self.mat = mat

        def _mv(self, x):
            return torch.matmul(self.mat, x.unsqueeze(-1)).squeeze(-1)

        def _rmv(self, x):
            return torch.matmul(self.mat.transpose(-2, -1).conj(), x.unsqueeze(-1)).squeeze(-1)

        def _getparamnames(self, prefix=""):
            return []

    _CLS = {"OpConst": OpConst, "OpUnused": OpUnused, "TanhMod": TanhMod, "OpPair": OpPair}
    return _CLS


def herm(t):
    return t.transpose(-2, -1).conj()


def build(cfg):
    """leaves (dict name -> tensor, grouped), operator builders and dense functions of the leaves"""
    import xitorch
    import xitorch.grad
    from xitorch import LinearOperator
    cls = _lazy_classes()
    dt = DT[cfg["dtype"]]
    n, ncols = cfg["n"], cfg["ncols"]
    em = cfg["E"]
    place = cfg["place"]
    bA, bB = shp(cfg["bA"]), shp(cfg["bB"])
    bE = shp(cfg["bE"]) if cfg["bE"] is not None else None
    bM = shp(cfg["bM"]) if cfg["bM"] is not None else None
    g = gen(cfg["vseed"])
    eye = torch.eye(n, dtype=dt)
    groups = {"A": [], "B": [], "E": [], "M": []}
    leaves = {}

    def leaf(name, value, group, force=False):
        t = value.detach().clone().contiguous()
        if force or group in cfg["req"]:
            t.requires_grad_()
        leaves[name] = t
        groups[group].append(name)
        return t

    # ---- M
    Mop = None
    mdense = None
    lchol = None
    if bM is not None:
        pm = leaf("Pm", 0.8 * randn(tuple(bM) + (n, n), dt, g) / (n ** 0.5), "M")
        mdense = lambda: pm @ herm(pm) + eye
        mval = mdense().detach()
        lchol = torch.linalg.cholesky(mval)
        if cfg["mplace"] == "dense":
            mkM = lambda: LinearOperator.m(mdense(), is_hermitian=True)
        else:
            mkM = lambda: sc.OpMV(mdense(), True)
    # ---- A
    herm_place = place in HERM_PL
    if herm_place:
        p = leaf("P", 0.9 * randn(tuple(bA) + (n, n), dt, g) / (n ** 0.5), "A")
        adense = lambda: p @ herm(p) + eye
        if place == "dense_derived":
            mkA = lambda: LinearOperator.m(adense(), is_hermitian=True)
        else:
            mkA = lambda: sc.OpMV(adense(), True)
        espec = "neg"
    else:
        a0 = sc.make_A0("nonherm", n, dt, g, bA, 3.0)
        tied = lchol is not None and em == "EM" and bcast_shape(bM, bA) == tuple(bA)
        if tied:
            a0 = lchol @ a0 @ herm(lchol)
        espec = "nonherm" if (tied or em != "EM") else "neg"
        if place in ("dense_leaf", "mf_leaf", "mf_leaf_mv", "mf_unused"):
            p = leaf("P", a0, "A")
            adense = lambda: p
            if place == "dense_leaf":
                mkA = lambda: LinearOperator.m(p, is_hermitian=False)
            elif place == "mf_leaf":
                mkA = lambda: sc.OpMVR(p)
            elif place == "mf_leaf_mv":
                mkA = lambda: sc.OpMV(p, False)
            else:
                u = leaf("U", randn((n,), dt, g), "A")
                mkA = lambda: cls["OpUnused"](p, u)
        elif place == "const":
            # no declared parameter at all: only B (E, M) can be differentiated
            a0c = a0.detach().clone()
            adense = lambda: a0c
            mkA = lambda: cls["OpConst"](a0c)
        elif place == "add_shared":
            p = leaf("P", 0.5 * a0, "A")
            adense = lambda: 2.0 * p
            mkA = lambda: sc.OpMVR(p) + sc.OpFull(p)
        elif place == "add_two":
            s = 0.3 * sc._fixed(n, dt, 11)
            p = leaf("P", 0.5 * a0 + s, "A")
            q = leaf("Q", 0.5 * a0 - s, "A")
            adense = lambda: p + q
            mkA = lambda: sc.OpMVR(p) + sc.OpFull(q)
        elif place == "add_dense":
            # composed operator with a dense-wrapped (LinearOperator.m) child next to a matrix-free one
            s = 0.3 * sc._fixed(n, dt, 11)
            p = leaf("P", 0.5 * a0 + s, "A")
            q = leaf("Q", 0.5 * a0 - s, "A")
            adense = lambda: p + q
            mkA = lambda: sc.OpMVR(p) + LinearOperator.m(q, is_hermitian=False)
        elif place == "sub_two":
            # a difference of two operators (its adjoint is the difference of the adjoints)
            s = 0.3 * sc._fixed(n, dt, 11)
            p = leaf("P", 1.5 * a0 + s, "A")
            q = leaf("Q", 0.5 * a0 + s, "A")
            adense = lambda: p - q
            mkA = lambda: sc.OpMVR(p) - sc.OpFull(q)
        elif place in ("view_two", "detach_two"):
            # two distinct tensor objects with one storage (a transposed view / a detached alias of the leaf)
            p = leaf("P", a0, "A")
            if place == "view_two":
                adense = lambda: 0.5 * (p + p.transpose(-2, -1).transpose(-2, -1))
                mkA = lambda: cls["OpPair"](p, p.transpose(-2, -1), True)
            else:
                adense = lambda: 0.5 * (p + p.detach())
                mkA = lambda: cls["OpPair"](p, p.detach(), False)
        elif place == "scale_in_sum":
            # a scaled matrix-free operator as the SECOND operand of a sum / difference of operators of one class
            s_ = 0.3 * sc._fixed(n, dt, 11)
            p = leaf("P", 2.0 * a0 + s_, "A")
            q = leaf("Q", 0.5 * (a0 + s_), "A")
            adense = lambda: p - q * 2.0
            mkA = lambda: sc.OpMVR(p) - sc.OpMVR(q) * 2.0
        elif place == "matmul_dense":
            gm = eye + 0.4 * sc._fixed(n, dt, 12)
            p = leaf("P", gm, "A")
            q = leaf("Q", torch.linalg.solve(gm, a0), "A")
            adense = lambda: p @ q
            mkA = lambda: LinearOperator.m(p, is_hermitian=False).matmul(sc.OpMVR(q))
        elif place == "matmul":
            gm = eye + 0.4 * sc._fixed(n, dt, 12)
            p = leaf("P", gm, "A")
            q = leaf("Q", torch.linalg.solve(gm, a0), "A")
            adense = lambda: p @ q
            mkA = lambda: sc.OpMVR(p).matmul(sc.OpFull(q))
        elif place == "scale":
            p = leaf("P", 0.5 * a0, "A")
            adense = lambda: 2.0 * p
            mkA = lambda: 2.0 * sc.OpMVR(p)
        elif place == "adj":
            p = leaf("P", herm(a0), "A")
            adense = lambda: herm(p)
            mkA = lambda: sc.OpMVR(p).H
        elif place in JACS:
            assert len(bA) == 0 and not dt.is_complex
            y0v = torch.linspace(-0.5, 0.7, n, dtype=dt)
            cv = torch.linspace(0.6, 1.4, n, dtype=dt)
            wv = a0 - torch.diag(0.3 * cv / torch.cosh(cv * y0v) ** 2)
            y0 = leaf("y0", y0v, "A", force=True)       # jac() requires the point to require grad
            w = leaf("W", wv, "A")
            c = leaf("c", cv, "A")
            adense = lambda: w + torch.diag(0.3 * c / torch.cosh(c * y0) ** 2)
            if place == "jac_mod":
                def mkA():
                    mod = cls["TanhMod"](w, c)
                    return xitorch.grad.jac(mod.f, (y0,), idxs=0)
            else:
                def ffn(y, w_, c_):
                    return w_ @ y + 0.3 * torch.tanh(c_ * y)
                mkA = lambda: xitorch.grad.jac(ffn, (y0, w, c), idxs=0)
        else:
            raise KeyError(place)
    # ---- B, E
    b = leaf("B", randn(tuple(bB) + (n, ncols), dt, g) * (0.0 if cfg.get("bzero") else 1.0), "B")
    e = None
    if bE is not None:
        ev = sc.make_E(espec, ncols, bE, cfg["Edtype"] == "complex", dt, g)
        if cfg.get("ezero"):
            ev = ev * 0.0           # every shift exactly zero (the derivative with respect to E is not)
        e = leaf("E", ev, "E")
    use_m = (mdense is not None and e is not None)
    batch = bcast_shape(bA, bB, bE if e is not None else None, bM if use_m else None)

    def make_ops():
        A = mkA()
        M = mkM() if mdense is not None else None
        return A, M

    def ref_solution():
        """dense, differentiable, column by column"""
        wd = sc.wide(dt)
        ad = adense().to(wd)
        bd = b.to(wd).expand(tuple(batch) + (n, ncols))
        cols = []
        for c in range(ncols):
            s = ad
            if e is not None:
                md = mdense().to(wd) if use_m else eye.to(wd)
                s = ad - e.to(wd)[..., c].unsqueeze(-1).unsqueeze(-1) * md
            s = s.expand(tuple(batch) + (n, n))
            cols.append(torch.linalg.solve(s, bd[..., :, c]))
        return torch.stack(cols, dim=-1)

    def kappa():
        with torch.no_grad():
            S = sc.dense_systems(adense(), e, mdense() if use_m else None, ncols, batch)
            sv = torch.linalg.svdvals(S)
            return (sv[..., 0] / sv[..., -1]).max().item()

    return {"leaves": leaves, "groups": groups, "make_ops": make_ops, "ref": ref_solution, "kappa": kappa,
            "B": b, "E": e, "batch": batch}


def options(method, n, for_bck):
    o = {}
    if method != "default":
        o["method"] = method
    if method in ("cg", "bicgstab", "gmres", "default"):
        o.update({"rtol": TOL, "atol": 1e-14, "max_niter": 20 * n, "resid_calc_every": 5})
    if method == "broyden1":
        o.update({"f_tol": TOL, "x_tol": TOL, "f_rtol": float("inf"), "x_rtol": float("inf"), "maxiter": 400})
    return o


def contraction(x, v):
    return (v.conj() * x).sum().real


def cotangent(cfg, shape, dt, g):
    v = randn(shape, dt, g)
    if cfg["cot"] == "unit":
        v = torch.zeros_like(v)
        v.reshape(-1)[0] = 1.0
    elif cfg["cot"] == "zerocol":
        v[..., :, 0] = 0
    return v


def _cmp(got, ref, leaf):
    """max abs difference (None == zeros)"""
    z = torch.zeros_like(leaf.detach())
    a = z if got is None else got.detach()
    r = z if ref is None else ref.detach()
    if a.shape != r.shape:
        return float("inf"), r.abs().max().item() if r.numel() else 0.0, "shape %s vs %s" % (list(a.shape), list(r.shape))
    if a.dtype != r.dtype:
        return float("inf"), r.abs().max().item() if r.numel() else 0.0, "dtype %s vs %s" % (a.dtype, r.dtype)
    d = (a - r).abs().max().item() if r.numel() else 0.0
    if d != d:
        d = float("inf")
    return d, (r.abs().max().item() if r.numel() else 0.0), None


def run_case(cfg):
    import xitorch.linalg
    dt = DT[cfg["dtype"]]
    eps = EPS[cfg["dtype"]]
    n = cfg["n"]
    ob = call(build, cfg)
    if ob.exc is not None:
        raise ob.exc            # construction of plain tensors: a harness bug
    pb = ob.value
    oo = call(pb["make_ops"])
    if oo.exc is not None:
        return {"viol": [V("operator-construction-" + exc_class(oo.exc), {"exception": oo.exc_sig})],
                "obs": {"build": exc_class(oo.exc)}, "status": "violation"}
    A, M = oo.value
    leaves = pb["leaves"]
    groups = pb["groups"]
    req_names = [nm for gname in "ABEM" for nm in groups[gname] if gname in cfg["req"]]
    req = [leaves[nm] for nm in req_names]
    group_of = {nm: gname for gname in groups for nm in groups[gname]}
    kap = pb["kappa"]()
    if not kap < 300:
        # the value alphabet is built to keep kappa below ~100; an instance beyond that is not judged
        return {"viol": [], "obs": {"kappa": rnd(kap, 2)}, "status": "ill-conditioned-instance", "trivial": True}

    fwd_opts = options(cfg["fwd"], n, False)
    bck_opts = options(cfg["bck"], n, True)
    direct_all = cfg["fwd"] in ("exactsolve", "custom_exactsolve") and cfg["bck"] in ("exactsolve",) or cfg["fwd"] == "exactsolve"
    tol1 = (1e4 * eps * kap * kap) if direct_all else (100 * kap * kap * TOL + 1e4 * eps * kap * kap)
    tol2 = 10 * kap * tol1

    if cfg.get("prior1"):
        # object history: the SAME operator objects have already been used for a solve and an ordinary
        # (non-recording) backward pass; what the judged call and its recorded backward compute may not depend on it
        torch.manual_seed(976)
        with sc.quiet_stderr():
            op0 = call(xitorch.linalg.solve, A, pb["B"], pb["E"], M, bck_options=bck_opts, **fwd_opts)
            if op0.exc is None and op0.value.requires_grad:
                call(torch.autograd.grad, contraction(op0.value, cotangent(cfg, tuple(op0.value.shape),
                                                                            op0.value.dtype, gen(cfg["vseed"] + 554))),
                     req, allow_unused=True, retain_graph=True)    # derived tensors held by the operator are built once
        del op0
    torch.manual_seed(977)
    with sc.quiet_stderr():
        of = call(xitorch.linalg.solve, A, pb["B"], pb["E"], M, bck_options=bck_opts, **fwd_opts)
    if of.exc is not None:
        return {"viol": [V("forward-" + exc_class(of.exc), {"exception": of.exc_sig}, stage="forward")],
                "obs": {"fwd": exc_class(of.exc)}, "status": "violation"}
    x = of.value
    xref = pb["ref"]()
    if of.warned:
        return {"viol": [], "obs": {"fwd": "warned"}, "status": "fwd-warned", "trivial": True}
    if tuple(x.shape) != tuple(xref.shape):
        return {"viol": [], "obs": {"fwd": "shape"}, "status": "fwd-mismatch(C01)", "trivial": True}
    ferr = (x.detach() - xref.detach()).abs().max().item()
    if not ferr <= 1e-6 * max(1.0, xref.detach().abs().max().item()):
        return {"viol": [], "obs": {"fwd": "mismatch"}, "status": "fwd-mismatch(C01)", "trivial": True}

    if cfg.get("mut"):
        # between the forward call and the backward pass the caller re-uses the operator object with another tensor
        # (attribute assignment); the gradients still belong to the forward call
        A.mat = (leaves["P"].detach() * 1.3 + 0.1)
    g = gen(cfg["vseed"] + 555)
    v = cotangent(cfg, tuple(xref.shape), xref.dtype, g)
    loss = contraction(x, v)
    lref = contraction(xref, v)
    viol = []
    obs = {"kappa": rnd(kap, 2)}
    create = cfg["order"] != "1"

    if not x.requires_grad:
        # nothing that requires grad influences X according to the library
        gref = torch.autograd.grad(lref, req, allow_unused=True) if lref.requires_grad else [None] * len(req)
        for nm, lf, r in zip(req_names, req, gref):
            d, sc_, why = _cmp(None, r, lf)
            if d > tol1 * max(1.0, sc_):
                viol.append(V("grad-missing:" + group_of[nm], {"leaf": nm, "reference_max": sc_}, leaf=nm, stage="first"))
        return {"viol": viol, "obs": {"x_requires_grad": False}, "status": "violation" if viol else "ok"}

    if cfg.get("prior_plain"):
        torch.manual_seed(978)
        with sc.quiet_stderr():
            o0 = call(torch.autograd.grad, loss, req, retain_graph=True, allow_unused=True)
        if o0.exc is not None:
            return {"viol": [V("backward-" + exc_class(o0.exc), {"exception": o0.exc_sig}, stage="prior-plain")],
                    "obs": {"bck": exc_class(o0.exc)}, "status": "violation"}
    torch.manual_seed(978)
    with sc.quiet_stderr():
        o1 = call(torch.autograd.grad, loss, req, create_graph=create, retain_graph=(create or cfg["reuse"]),
                  allow_unused=True)
    if o1.exc is not None:
        return {"viol": [V("backward-" + exc_class(o1.exc), {"exception": o1.exc_sig}, stage="first")],
                "obs": {"bck": exc_class(o1.exc)}, "status": "violation"}
    if o1.warned:
        return {"viol": [], "obs": {"bck": "warned"}, "status": "bck-warned"}
    g1 = list(o1.value)
    # (the reference does not depend on M when E is absent: M is documented to be ignored then)
    g1ref = list(torch.autograd.grad(lref, req, create_graph=create, retain_graph=(create or cfg["reuse"]),
                                     allow_unused=True)) if lref.requires_grad else [None] * len(req)
    scale1 = max([1.0] + [r.detach().abs().max().item() for r in g1ref if r is not None and r.numel()])
    worst1 = 0.0
    for nm, lf, a, r in zip(req_names, req, g1, g1ref):
        d, _, why = _cmp(a, r, lf)
        worst1 = max(worst1, d / (tol1 * scale1))
        if not d <= tol1 * scale1:
            viol.append(V("grad-mismatch:" + group_of[nm],
                          {"leaf": nm, "max_abs_diff": d, "tolerance": tol1 * scale1, "reference_max": scale1,
                           "got_none": a is None, "why": why,
                           "got_max": (a.detach().abs().max().item() if a is not None and a.numel() else 0.0)},
                          leaf=nm, stage="first"))
    obs["r1"] = _bucket(worst1)
    # what was actually observed (keeps distinct executions distinct in the evidence count)
    obs["g1max"] = [rnd(float(a.detach().abs().max()), 4) if (a is not None and a.numel()) else None for a in g1]
    status = "ok"

    if cfg["order"] == "2" and not viol:
        ws = [randn(tuple(lf.shape), lf.dtype, g) for lf in req]
        terms = [contraction(a, w) for a, w in zip(g1, ws) if a is not None and a.requires_grad]
        terms_ref = [contraction(r, w) for r, w in zip(g1ref, ws) if r is not None and r.requires_grad]
        if terms_ref or terms:
            l2ref = sum(terms_ref) if terms_ref else None
            g2ref = list(torch.autograd.grad(l2ref, req, allow_unused=True)) if l2ref is not None else [None] * len(req)
            if terms:
                torch.manual_seed(979)
                with sc.quiet_stderr():
                    o2 = call(torch.autograd.grad, sum(terms), req, allow_unused=True)
                if o2.exc is not None:
                    viol.append(V("double-backward-" + exc_class(o2.exc), {"exception": o2.exc_sig}, stage="second"))
                    g2 = None
                elif o2.warned:
                    status = "bck2-warned"
                    g2 = None
                else:
                    g2 = list(o2.value)
            else:
                g2 = [None] * len(req)
            if g2 is not None:
                scale2 = max([1.0] + [r.detach().abs().max().item() for r in g2ref if r is not None and r.numel()])
                worst2 = 0.0
                for nm, lf, a, r in zip(req_names, req, g2, g2ref):
                    d, _, why = _cmp(a, r, lf)
                    worst2 = max(worst2, d / (tol2 * scale2))
                    if not d <= tol2 * scale2:
                        viol.append(V("grad2-mismatch:" + group_of[nm],
                                      {"leaf": nm, "max_abs_diff": d, "tolerance": tol2 * scale2, "reference_max": scale2,
                                       "got_none": a is None, "why": why}, leaf=nm, stage="second"))
                obs["r2"] = _bucket(worst2)
    if cfg["reuse"] and not viol:
        # training-loop usage: the leaf held by the operator is updated in place (as an optimizer does) and the
        # same operator objects are used for a second solve + backward.  The temporary parameter substitution of
        # the first backward must have been undone, otherwise the operator computes with a stale copy.
        if cfg["place"] in LEAF_PL:
            with torch.no_grad():
                leaves["P"].mul_(1.05)
        torch.manual_seed(980)
        with sc.quiet_stderr():
            of2 = call(xitorch.linalg.solve, A, pb["B"], pb["E"], M, bck_options=bck_opts, **fwd_opts)
        if of2.exc is not None:
            viol.append(V("reuse-forward-" + exc_class(of2.exc), {"exception": of2.exc_sig}, stage="reuse"))
        elif not of2.warned:
            v2 = cotangent(cfg, tuple(xref.shape), xref.dtype, g)
            xref2 = pb["ref"]()
            ferr2 = (of2.value.detach() - xref2.detach()).abs().max().item()
            if not ferr2 <= 1e-6 * max(1.0, xref2.detach().abs().max().item()):
                viol.append(V("reuse-forward-mismatch", {"max_abs_diff": ferr2,
                                                         "note": "second solve with the same operator after an in-place "
                                                                 "update of its leaf"}, stage="reuse"))
            lr2 = contraction(xref2, v2)
            l2 = contraction(of2.value, v2)
            if l2.requires_grad:
                with sc.quiet_stderr():
                    o3 = call(torch.autograd.grad, l2, req, allow_unused=True)
            else:
                o3 = call(lambda: [None] * len(req))
            if o3.exc is not None:
                viol.append(V("reuse-backward-" + exc_class(o3.exc), {"exception": o3.exc_sig}, stage="reuse"))
            elif not o3.warned:
                g3ref = list(torch.autograd.grad(lr2, req, allow_unused=True)) if lr2.requires_grad else [None] * len(req)
                scale3 = max([1.0] + [r.detach().abs().max().item() for r in g3ref if r is not None and r.numel()])
                for nm, lf, a, r in zip(req_names, req, list(o3.value), g3ref):
                    d, _, why = _cmp(a, r, lf)
                    if not d <= tol1 * scale3:
                        viol.append(V("reuse-grad-mismatch:" + group_of[nm],
                                      {"leaf": nm, "max_abs_diff": d, "tolerance": tol1 * scale3, "reference_max": scale3,
                                       "got_none": a is None, "why": why}, leaf=nm, stage="reuse"))
                obs["reuse"] = "checked"
    if viol:
        status = "violation"
    return {"viol": viol, "obs": obs, "status": status}


def _bucket(r):
    """coarse (hash stable) description of error / tolerance"""
    if r != r or r == float("inf"):
        return "inf"
    if r <= 1e-3:
        return "<=1e-3"
    if r <= 1e-1:
        return "<=1e-1"
    if r <= 1:
        return "<=1"
    return ">1"


def coverage_extra(tier, seed, results):
    planes = {}
    for r in results:
        pl = r["cfg"]["plane"]
        planes[pl] = planes.get(pl, 0) + 1
    return {"cases_per_plane": planes}

# ---- call-order plane (executed by mc/core.py in fresh interpreters, see mc/props/_hist_common.py): the result of
# a call must not depend on which other calls (other dtype / method / size / options) were made before it
_HIST_LABELS = [('float32', 'custom_exactsolve', 'exactsolve'), ('float64', 'custom_exactsolve', 'exactsolve'), ('float64', 'cg', 'cg'), ('complex128', 'custom_exactsolve', 'exactsolve'), ('float64', 'exactsolve', 'exactsolve')]
HISTORY = {"labels": ["/".join(str(x) for x in c) for c in _HIST_LABELS], "tol": [0.001, 1e-10, 1e-07, 1e-10, 1e-10],
           "depth": {"quick": 2, "thorough": 3},
           "prelude": r'''import torch, xitorch
from xitorch import LinearOperator
from xitorch.linalg import solve
CALLS = %r
def do(i):
    dtn, fwd, bck = CALLS[i]
    dt = getattr(torch, dtn)
    g = torch.Generator().manual_seed(11)
    n = 6
    A0 = torch.randn((n, n), generator=g, dtype=torch.float64)
    A = (A0 @ A0.T / n + torch.eye(n, dtype=torch.float64) * 2.0).to(dt).requires_grad_()
    B = torch.randn((n, 2), generator=g, dtype=torch.float64).to(dt).requires_grad_()
    o = {} if fwd in ("exactsolve", "custom_exactsolve") else {"rtol": 1e-12, "atol": 1e-14, "max_niter": 80}
    b = {"method": bck} if bck == "exactsolve" else {"method": bck, "rtol": 1e-12, "atol": 1e-14, "max_niter": 80}
    torch.manual_seed(0)
    As = (A + A.transpose(-2, -1).conj()) / 2
    x = solve(LinearOperator.m(As, is_hermitian=True), B, method=fwd, bck_options=b, **o)
    gA, gB = torch.autograd.grad((x.abs() ** 2).sum(), (A, B))
    out = torch.cat([gA.reshape(-1), gB.reshape(-1)])
    out = torch.view_as_real(out) if out.is_complex() else out
    return out.double().reshape(-1).tolist()
''' % (_HIST_LABELS,)}
