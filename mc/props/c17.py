"""C17 — jac and hess are the true Jacobian and Hessian as differentiable operators.

Exhaustive lattice over functions (argument shapes, output shape, function kind, an extra non-differentiable
argument), index selections, products, operand batch shapes, differentiation order and parameter substitution
through the operator's own uselinopparams.  Reference: torch.autograd.functional.jacobian / hessian of a pure-torch
copy of the function, and plain autograd through a dense Jacobian assembled row by row."""
from __future__ import annotations
import itertools
import math
import re
import torch

from mc.util import V, call, gen, randn, rnd

ID = "C17"
LEVEL = "exploration"
DESIGN_REF = "DESIGN.md §5 C17"
RULE = (
    "case = (operator in {jac, hess}, function kind in {pure function, nn.Module method, EditableModule method with a "
    "derived tensor, sibling of that method}, 2 or 3 tensor arguments with shapes from {(), (3,), (2,2), (1,3)} "
    "(quick: all 16 pairs + 8 triples; thorough: all 16 + 64), output shape in {(), (2,), (2,3)} (hess: ()), extra "
    "argument at position 1 in {none, tensor without requires_grad, python float} (quick: extras on 4 shape pairs)); "
    "inside a case: every index selection {None, each int, every increasing subset as list, reversed full list, tuple, "
    "each non-differentiable position as int and inside a list (must raise)} -> count/order/shape/fullmatrix/mv of "
    "every returned operator; for every int index: products {mv, rmv, mm, rmm, fullmatrix, .H.mv, .H.rmv, "
    ".H.fullmatrix} x operand batch {(), (4,), (2,1)}; first and second order gradients of mv/rmv (thorough: + mm, "
    "rmm, .H.mv) w.r.t. every differentiable argument, the module parameter and the operand; parameter change "
    "{explicit, object} through uselinopparams: products inside the block == Jacobian at the NEW parameters, "
    "gradient w.r.t. a scale of the new parameters, products after the block == Jacobian at the original ones.  "
    "distinct = distinct observation tables; a case is trivial when no operator was produced")
RULE_ADDED = 'Added later: operator constructed under torch.no_grad(), call-order plane in fresh interpreters. Round 4: kind nn_tied (one Parameter registered in two sub-modules). Round 6: expanded (zero-stride) operand batches; operators of one jac / hess call stay independent while one of them is substituted. Round 7: kind nn_hook (the torch.nn.Module object itself is the callable and a forward hook post-processes its output).'
ASSUMPTIONS = [
    "function bodies are smooth (tanh, sin, sqrt(1+|a|^2), bilinear coupling) with N(0,1)-scaled fixed weights; values "
    "from a fixed generator stream (plane 0), thorough adds one plane derived from VERIF_SEED",
    "float64 only; tolerance 1e-10 relative to max(1, |reference|) for values, 1e-9 for first/second order gradients "
    "(both sides are exact autograd; a wrong index / stale parameter produces O(0.1..1) differences)",
    "a selection index that points to a python number or to a tensor without requires_grad must be rejected with any "
    "exception",
    "new parameters handed to uselinopparams are non-leaf tensors that require grad (as in the implicit backward of "
    "rootfinder/solve)",
]
BUDGET_S = {"quick": 600, "thorough": 3000}
SELFTEST_N = 3

SHP = {"s": (), "3": (3,), "2x2": (2, 2), "1x3": (1, 3)}
SHN = ["s", "3", "2x2", "1x3"]
OUT = {"s": (), "2": (2,), "2x3": (2, 3)}
KINDS = ["pure", "nn", "em", "sib", "nn_tied", "nn_hook"]     # nn_tied: one Parameter registered in two sub-modules
XB = [(), (4,), (2, 1), ("e", 3, 2)]
DT = torch.float64


# ------------------------------------------------------------------ function family

def _body(P, extra, theta, W, c, out):
    """P: differentiable tensor arguments (2 or 3); pure torch"""
    z = [W[i] @ P[i].reshape(-1) for i in range(len(P))]
    y = torch.tanh(theta * z[0] + c) * (1.0 + 0.3 * z[1])
    if len(z) > 2:
        y = y + 0.2 * torch.sin(z[2] + 0.5 * z[0])
    y = y + 0.1 * torch.sqrt(1.0 + (P[1] * P[1]).sum()) + 0.05 * (z[0] * z[1]).sum()
    if isinstance(extra, torch.Tensor):
        y = y * (1.0 + 0.1 * extra.sum())
    elif extra is not None:
        y = y * extra
    return y.reshape(out)


class World:
    """one function of the family, its xitorch-facing callable and the pure-torch reference"""

    def __init__(self, cfg):
        import xitorch
        g = gen(cfg["vseed"] * 7919 + 17)
        shapes = [SHP[cfg[k]] for k in ("s0", "s1", "s2") if cfg[k] != "-"]
        self.out = OUT[cfg["out"]]
        self.nout = int(math.prod(self.out))
        self.kind = cfg["kind"]
        self.mode = cfg["mode"]
        self.W = [randn((self.nout, int(math.prod(s))), DT, g) * 0.5 for s in shapes]
        self.c = randn((self.nout,), DT, g) * 0.3
        tens = [(randn(s, DT, g) * 0.8).requires_grad_() for s in shapes]
        ex = cfg["extra"]
        self.params = list(tens)
        self.has_extra = ex != "none"
        if ex == "nograd":
            self.params.insert(1, randn((3,), DT, g) * 0.5)
        elif ex == "float":
            self.params.insert(1, 1.25)
        self.gradpos = [i for i, p in enumerate(self.params) if isinstance(p, torch.Tensor) and p.requires_grad]
        self.badpos = [i for i in range(len(self.params)) if i not in self.gradpos]
        theta0 = randn((self.nout,), DT, g) * 0.3 + 0.9
        W, c, out = self.W, self.c, self.out
        has_extra = self.has_extra

        def fn(params, theta):
            if has_extra:
                P = [params[0]] + list(params[2:])
                e = params[1]
            else:
                P = list(params)
                e = None
            return _body(P, e, theta, W, c, out)
        self.fn = fn
        self.post = (lambda y: y)
        self.module = None
        if self.kind == "pure":
            self.theta_const = theta0

            def f(*params):
                return fn(params, theta0)
            self.fcn = f
            self.theta_leaf = None
        elif self.kind == "nn":
            class NN(torch.nn.Module):
                def __init__(self, th):
                    super().__init__()
                    self.theta = torch.nn.Parameter(th)

                def forward(self, *params):
                    return fn(params, self.theta)
            self.module = NN(theta0)
            self.fcn = self.module.forward
            self.theta_leaf = self.module.theta
        elif self.kind == "nn_hook":
            # the torch.nn.Module OBJECT is the callable, and a forward hook post-processes its output: the function
            # that is differentiated is net(x) (hooks included), not net.forward
            class NNH(torch.nn.Module):
                def __init__(self, th):
                    super().__init__()
                    self.theta = torch.nn.Parameter(th)

                def forward(self, *params):
                    return fn(params, self.theta)
            self.module = NNH(theta0)
            self.module.register_forward_hook(lambda mod, inp, outp: 1.5 * outp - 0.2 * outp * outp)
            self.fcn = self.module
            self.theta_leaf = self.module.theta
            self.post = (lambda y: 1.5 * y - 0.2 * y * y)
        elif self.kind == "nn_tied":
            class Sub(torch.nn.Module):
                def __init__(self, th):
                    super().__init__()
                    self.theta = th

            class NNTied(torch.nn.Module):
                def __init__(self, th):
                    super().__init__()
                    par = torch.nn.Parameter(th)
                    self.enc = Sub(par)
                    self.dec = Sub(par)          # the SAME Parameter under a second name (tied weights)

                def forward(self, *params):
                    return fn(params, 0.5 * (self.enc.theta + self.dec.theta))

                @property
                def theta(self):
                    return self.enc.theta
            self.module = NNTied(theta0)
            self.fcn = self.module.forward
            self.theta_leaf = self.module.enc.theta
        else:
            class EM(xitorch.EditableModule):
                def __init__(self, a):
                    self.a = a
                    self.b = a * a

                def fwd(self, *params):
                    return fn(params, self.b)

                def getparamnames(self, methodname, prefix=""):
                    if methodname == "fwd":
                        return [prefix + "b"]
                    raise KeyError(methodname)
            a = torch.sqrt(theta0.abs() + 0.2).requires_grad_()
            self.module = EM(a)
            self.theta_leaf = a
            if self.kind == "em":
                self.fcn = self.module.fwd
            else:
                from xitorch._core.pure_function import make_sibling
                mod = self.module

                @make_sibling(mod.fwd)
                def sib(*params):
                    y = mod.fwd(*params)
                    return 1.5 * y - 0.2 * y * y
                self.fcn = sib
                self.post = (lambda y: 1.5 * y - 0.2 * y * y)

    def theta(self):
        """the tensor object currently installed as the object parameter"""
        if self.kind == "pure":
            return self.theta_const
        if self.kind in ("nn", "nn_tied", "nn_hook"):
            return self.module.theta
        return self.module.b

    def R(self, params, theta):
        return self.post(self.fn(params, theta))

    def dense(self, params, theta, i):
        """dense Jacobian (nout x nin) / Hessian (nin x nin) w.r.t. params[i], assembled row by row, differentiable"""
        p = params[i]
        with torch.enable_grad():
            y = self.R(params, theta).reshape(-1)
            if self.mode == "hess":
                y, = torch.autograd.grad(y[0], p, create_graph=True, retain_graph=True)
                y = y.reshape(-1)
            rows = []
            for k in range(y.numel()):
                r, = torch.autograd.grad(y[k], p, create_graph=True, retain_graph=True, allow_unused=True)
                rows.append((torch.zeros_like(p) if r is None else r).reshape(-1))
            return torch.stack(rows)

    def dense_functional(self, i):
        """the stated oracle: torch.autograd.functional.jacobian / hessian at the original parameters"""
        params = list(self.params)
        theta = self.theta().detach()

        def f(a):
            pl = list(params)
            pl[i] = a
            pl = [q.detach() if (isinstance(q, torch.Tensor) and j != i) else q for j, q in enumerate(pl)]
            return self.R(pl, theta)
        p = params[i].detach()
        nin = p.numel()
        if self.mode == "jac":
            return torch.autograd.functional.jacobian(f, p).reshape(self.nout, nin)
        return torch.autograd.functional.hessian(f, p).reshape(nin, nin)

    def make(self, idxs):
        from xitorch.grad import jac, hess
        return (jac if self.mode == "jac" else hess)(self.fcn, self.params, idxs=idxs)


# ------------------------------------------------------------------ helpers

def _mvref(D, x):
    return torch.matmul(D, x.unsqueeze(-1)).squeeze(-1)


def exc_fail(e):
    tb = e.__traceback__
    frames = []
    while tb is not None:
        co = tb.tb_frame.f_code
        if "/xitorch/" in co.co_filename.replace("\\", "/"):
            frames.append(getattr(co, "co_qualname", co.co_name))
        tb = tb.tb_next
    msg = re.sub(r"\d+", "N", str(e).strip().split("\n")[0][:70])
    return "exception:%s:%s:%s" % (type(e).__name__, msg, "<".join(reversed(frames[-2:])))


def _err(a, b):
    if not isinstance(a, torch.Tensor) or tuple(a.shape) != tuple(b.shape):
        return float("inf")
    if b.numel() == 0:
        return 0.0
    d = (a.detach() - b.detach()).abs().max().item()
    return float("inf") if math.isnan(d) else d


def _scale(b):
    return max(1.0, b.detach().abs().max().item()) if b.numel() else 1.0


PRODS = ["mv", "rmv", "mm", "rmm", "fullmatrix", "H.mv", "H.rmv", "H.fullmatrix"]


def product(op, D, prod, x):
    """returns (library thunk, reference thunk)"""
    Dt = D.transpose(-2, -1)
    if prod == "mv":
        return (lambda: op.mv(x)), (lambda: _mvref(D, x))
    if prod == "rmv":
        return (lambda: op.rmv(x)), (lambda: _mvref(Dt, x))
    if prod == "mm":
        return (lambda: op.mm(x)), (lambda: torch.matmul(D, x))
    if prod == "rmm":
        return (lambda: op.rmm(x)), (lambda: torch.matmul(Dt, x))
    if prod == "fullmatrix":
        return (lambda: op.fullmatrix()), (lambda: D)
    if prod == "H.mv":
        return (lambda: op.H.mv(x)), (lambda: _mvref(Dt, x))
    if prod == "H.rmv":
        return (lambda: op.H.rmv(x)), (lambda: _mvref(D, x))
    if prod == "H.fullmatrix":
        return (lambda: op.H.fullmatrix()), (lambda: Dt)
    raise AssertionError(prod)


def operand(prod, xb, nout, nin, g):
    if prod in ("fullmatrix", "H.fullmatrix"):
        return None
    n = nin if prod in ("mv", "mm", "H.rmv") else nout
    tail = (n, 2) if prod in ("mm", "rmm") else (n,)
    if xb and xb[0] == "e":
        # an EXPANDED batch: xb[2:] different operands, repeated xb[1] times along a leading axis of stride 0
        base = randn(tuple(xb[2:]) + tail, DT, g)
        return base.unsqueeze(0).expand((xb[1],) + tuple(base.shape))
    shp = tuple(xb) + tail
    return randn(shp, DT, g)


class Checker:
    def __init__(self, world, cfg):
        self.w = world
        self.cfg = cfg
        self.viol = []
        self.table = {}
        self.n = 0
        self.fp = 0.0

    def bump(self, k):
        self.table[k] = self.table.get(k, 0) + 1

    def report(self, failure, detail, **at):
        self.viol.append(V(failure, detail, **at))

    # -------------------------------------------------------------- values
    def values(self, op, D, idx, prods, xbs, g, change="none", Dold=None):
        nout_, nin_ = D.shape
        for xb in xbs:
            for prod in prods:
                if prod in ("fullmatrix", "H.fullmatrix") and xb != ():
                    continue
                x = operand(prod, xb, nout_, nin_, g)
                lib, ref = product(op, D, prod, x)
                o = call(lib)
                self.n += 1
                at = {"idx": idx, "product": prod, "xb": list(xb), "change": change}
                if o.exc is not None:
                    self.report(exc_fail(o.exc), {"product": prod}, **at)
                    self.bump("exc")
                    continue
                r = ref().detach()
                got = o.value
                if not isinstance(got, torch.Tensor) or tuple(got.shape) != tuple(r.shape):
                    self.report("shape-mismatch:%s" % prod,
                                {"got": list(got.shape) if isinstance(got, torch.Tensor) else str(type(got)),
                                 "want": list(r.shape)}, **at)
                    continue
                e = _err(got, r)
                tol = 1e-10 * _scale(r)
                if not (e <= tol):
                    stale = None
                    if Dold is not None:
                        _, refold = product(op, Dold, prod, x)
                        stale = _err(got, refold())
                    if stale is not None and stale <= tol:
                        self.report("stale-after-param-change:%s" % change,
                                    {"err_vs_new": e, "err_vs_old": stale, "tol": tol}, **at)
                    else:
                        self.report("value-mismatch:%s" % prod, {"err": e, "tol": tol, "err_vs_old": stale}, **at)
                    self.bump("bad")
                else:
                    self.bump("ok")
                    if prod == "fullmatrix":
                        self.fp += float(got.detach().abs().sum())

    # -------------------------------------------------------------- gradients
    def grads(self, libf, reff, wrt, names, order2, at):
        """first (and second) order gradients of sum(cot * product) w.r.t. `wrt`"""
        with torch.enable_grad():
            o = call(libf)
            self.n += 1
            if o.exc is not None:
                self.report(exc_fail(o.exc), {"in": "product for gradient"}, **at)
                return
            out = o.value
            ref = reff()
            if not isinstance(out, torch.Tensor) or out.shape != ref.shape:
                return      # reported by values()
            g = gen(5 + out.numel())
            cot = randn(tuple(out.shape), DT, g)
            og = call(lambda: torch.autograd.grad((out * cot).sum(), wrt, create_graph=True, retain_graph=True,
                                                  allow_unused=True))
            if og.exc is not None:
                self.report("exception-in-backward:%s:%s" % (type(og.exc).__name__, str(og.exc).split("\n")[0][:60]),
                            {"order": 1}, **at)
                return
            gl = list(og.value)
            gr = list(torch.autograd.grad((ref * cot).sum(), wrt, create_graph=True, retain_graph=True,
                                          allow_unused=True))
            self._cmp(gl, gr, wrt, names, 1, at)
            if not order2:
                return
            rs = [randn(tuple(t.shape), DT, g) for t in wrt]
            tl = sum((a * r).sum() for a, r in zip(gl, rs) if a is not None and a.requires_grad)
            tr = sum((a * r).sum() for a, r in zip(gr, rs) if a is not None and a.requires_grad)
            if isinstance(tl, torch.Tensor):
                oh = call(lambda: torch.autograd.grad(tl, wrt, allow_unused=True, retain_graph=True))
                if oh.exc is not None:
                    self.report("exception-in-backward:%s:%s" % (type(oh.exc).__name__,
                                                                  str(oh.exc).split("\n")[0][:60]),
                                {"order": 2}, **at)
                    return
                hl = list(oh.value)
            else:
                hl = [None] * len(wrt)
            hr = list(torch.autograd.grad(tr, wrt, allow_unused=True, retain_graph=True)) if isinstance(tr, torch.Tensor) \
                else [None] * len(wrt)
            self._cmp(hl, hr, wrt, names, 2, at)

    def _cmp(self, gl, gr, wrt, names, order, at):
        for a, b, t, nm in zip(gl, gr, wrt, names):
            a = torch.zeros_like(t) if a is None else a
            b = torch.zeros_like(t) if b is None else b
            e = _err(a, b)
            tol = 1e-9 * _scale(b)
            self.n += 1
            if not (e <= tol):
                self.report("grad-mismatch:order%d:%s" % (order, nm),
                            {"err": e, "tol": tol, "ref_max": b.detach().abs().max().item() if b.numel() else 0.0,
                             "got_max": a.detach().abs().max().item() if a.numel() else 0.0},
                            wrt=nm, order=order, **at)
                self.bump("gbad")
            else:
                self.bump("gok")


def _wrt(world, x=None):
    wrt = [world.params[i] for i in world.gradpos]
    names = ["arg%d" % i for i in world.gradpos]
    if world.theta_leaf is not None:
        wrt.append(world.theta_leaf)
        names.append("objparam")
    if x is not None:
        wrt.append(x)
        names.append("operand")
    return wrt, names


def full_check(ck, world, op, idx, thorough):
    """everything for one operator obtained with an int index"""
    g = gen(1000 + idx)
    D = world.dense(world.params, world.theta(), idx)
    # the hand-assembled dense reference must agree with torch.autograd.functional (harness self-check)
    Df = world.dense_functional(idx)
    if _err(D, Df) > 1e-11 * _scale(Df):
        raise AssertionError("reference models disagree: %g" % _err(D, Df))
    Dd = Df
    nin = world.params[idx].numel()
    want_shape = (world.nout, nin) if world.mode == "jac" else (nin, nin)
    if tuple(op.shape) != want_shape:
        ck.report("operator-shape-wrong", {"got": list(op.shape), "want": list(want_shape)}, idx=idx, product="shape")
        return
    if world.mode == "hess":
        if not op.is_hermitian:
            ck.report("hess-not-flagged-hermitian", {}, idx=idx, product="is_hermitian")
        o = call(op.fullmatrix)
        ck.n += 1
        if o.exc is None and isinstance(o.value, torch.Tensor) and o.value.dim() == 2:
            asym = (o.value - o.value.transpose(-2, -1)).abs().max().item()
            if not (asym <= 1e-10 * _scale(o.value)):
                ck.report("hess-not-symmetric", {"asym": asym}, idx=idx, product="fullmatrix")
    ck.values(op, Dd, idx, PRODS, XB, g)
    # gradients of the products
    gp = [("mv", ()), ("rmv", ())] + ([("mm", (2, 1)), ("rmm", ()), ("H.mv", (4,))] if thorough else [])
    for prod, xb in gp:
        x = operand(prod, xb, Dd.shape[0], Dd.shape[1], g).requires_grad_()
        wrt, names = _wrt(world, x)
        libf, _ = product(op, Dd, prod, x)

        def reff():
            Dg = world.dense(world.params, world.theta(), idx)
            return product(op, Dg, prod, x)[1]()
        ck.grads(libf, reff, wrt, names, True, {"idx": idx, "product": prod, "xb": list(xb), "change": "none"})
    # parameter change through uselinopparams
    o = call(op.getlinopparams)
    ck.n += 1
    if o.exc is not None:
        ck.report(exc_fail(o.exc), {"in": "getlinopparams"}, idx=idx, product="getlinopparams")
        return
    lp = list(o.value)
    is_exp = [any(t is world.params[j] for j in world.gradpos) for t in lp]
    cur_theta = world.theta()
    is_obj = [(t is cur_theta) and world.kind != "pure" for t in lp]
    for change in ("exp", "obj"):
        sel = is_exp if change == "exp" else is_obj
        if not any(sel):
            ck.bump("n/a:" + change)
            continue
        gd = gen(31 + idx)
        s = torch.tensor(1.1, dtype=DT, requires_grad=True)
        new = []
        for t, pick in zip(lp, sel):
            new.append((t.detach() + 0.3 * randn(tuple(t.shape), DT, gd)) * s if pick else t)
        # parameters the function sees inside the block
        newparams = list(world.params)
        newtheta = cur_theta
        for t, nt_, pick in zip(lp, new, sel):
            if not pick:
                continue
            if change == "exp":
                for j in world.gradpos:
                    if world.params[j] is t:
                        newparams[j] = nt_
            else:
                newtheta = nt_
        Dnew = world.dense(newparams, newtheta, idx)
        x = operand("mv", (), Dd.shape[0], Dd.shape[1], gd)
        y = operand("rmv", (), Dd.shape[0], Dd.shape[1], gd)
        cot = randn((Dd.shape[0],), DT, gd)

        def inside():
            with op.uselinopparams(*new):
                ck.values(op, Dnew.detach(), idx, ["mv", "rmv", "fullmatrix", "H.mv"], [(), (2, 1)], gen(77),
                          change=change, Dold=Dd)
                with torch.enable_grad():
                    val = op.mv(x)
                    if not val.requires_grad:
                        return None
                    gs, = torch.autograd.grad((val * cot).sum(), s, allow_unused=True, retain_graph=True)
                return gs
        oi = call(inside)
        ck.n += 1
        at = {"idx": idx, "product": "mv", "xb": [], "change": change}
        if oi.exc is not None:
            ck.report(exc_fail(oi.exc), {"in": "uselinopparams block"}, **at)
        else:
            gref, = torch.autograd.grad((_mvref(Dnew, x) * cot).sum(), s, allow_unused=True, retain_graph=True)
            a = torch.zeros(()) .to(DT) if oi.value is None else oi.value
            b = torch.zeros(()).to(DT) if gref is None else gref
            e = _err(a, b)
            if not (e <= 1e-9 * _scale(b)):
                ck.report("grad-mismatch-after-param-change:%s" % change,
                          {"got": float(a), "want": float(b)}, wrt="scale-of-new-params", order=1, **at)
                ck.bump("gbad")
            else:
                ck.bump("gok")
        # after the block: back at the original parameters
        ck.values(op, Dd, idx, ["mv", "rmv", "fullmatrix"], [()], gen(78), change="after-" + change)
        # and the module itself must hold its original object parameter again
        if world.kind != "pure" and world.theta() is not cur_theta:
            ck.report("object-parameter-not-restored", {"change": change}, idx=idx, product="restore", change=change)


def light_check(ck, world, op, idx, spec):
    D = world.dense_functional(idx)
    nin = world.params[idx].numel()
    want_shape = (world.nout, nin) if world.mode == "jac" else (nin, nin)
    if tuple(op.shape) != want_shape:
        ck.report("operator-shape-wrong", {"got": list(op.shape), "want": list(want_shape), "idxs": spec}, idx=idx,
                  product="shape")
        return
    ck.values(op, D, idx, ["fullmatrix", "mv", "rmv"], [()], gen(2000 + idx), change="none")


def idx_specs(world):
    gp = world.gradpos
    specs = [("None", None, list(gp))]
    for i in gp:
        specs.append(("int%d" % i, i, [i]))
    for r in range(1, len(gp) + 1):
        for sub in itertools.combinations(gp, r):
            specs.append(("list" + "".join(map(str, sub)), list(sub), list(sub)))
    rev = list(reversed(gp))
    specs.append(("list" + "".join(map(str, rev)), rev, rev))
    specs.append(("tuple" + "".join(map(str, gp[:2])), tuple(gp[:2]), list(gp[:2])))
    bad = []
    for b in world.badpos:
        bad.append(("bad-int%d" % b, b))
        bad.append(("bad-list%d%d" % (gp[0], b), [gp[0], b]))
    return specs, bad


def run_special(cfg):
    """argument values / dtypes outside the main lattice"""
    from xitorch.grad import jac, hess
    from xitorch import LinearOperator
    viol = []
    what = cfg["what"]
    n = 0
    if what == "infparam":
        # an explicit tensor argument with an infinite entry that the function does not touch (a bounds tensor
        # [0.7, inf] of which only the finite entry enters): every product is finite and equals the dense one
        x = torch.tensor([0.3, -0.8, 1.1], dtype=DT, requires_grad=True)
        p = torch.tensor([0.7, float("inf")], dtype=DT, requires_grad=True)
        W = torch.tensor([[1.0, 0.5, -0.2], [0.3, -1.0, 0.8]], dtype=DT)

        def f(x_, p_):
            return torch.tanh(W @ x_) * p_[0]
        D = torch.autograd.functional.jacobian(lambda q: f(q, p), x).detach()
        for mode in ("int", "list", "none"):
            o = call(jac, f, (x, p), idxs={"int": 0, "list": [0], "none": None}[mode])
            n += 1
            if o.exc is not None:
                viol.append(V(exc_fail(o.exc), {"idxs": mode}, idxs=mode, product="construct"))
                continue
            op = o.value if mode == "int" else o.value[0]
            v = torch.tensor([0.4, -1.3, 0.6], dtype=DT)
            u = torch.tensor([0.9, -0.4], dtype=DT)
            for prod, got, ref in (("mv", call(op.mv, v), D @ v), ("rmv", call(op.rmv, u), D.T @ u),
                                   ("fullmatrix", call(op.fullmatrix), D)):
                n += 1
                if got.exc is not None:
                    viol.append(V(exc_fail(got.exc), {"product": prod}, idxs=mode, product=prod))
                elif not bool(torch.isfinite(got.value).all()) or float((got.value.detach() - ref).abs().max()) > 1e-12:
                    viol.append(V("value-mismatch:%s" % prod, {"got": rnd(got.value.detach(), 6), "want": rnd(ref, 6),
                                                              "note": "an untouched infinite entry in another argument"},
                                  idxs=mode, product=prod))
    elif what == "cplxargs":
        # idxs=None selects EVERY tensor argument that requires grad, whatever its dtype
        x = torch.tensor([0.3, -0.8], dtype=DT, requires_grad=True)
        z = torch.tensor([0.5 + 0.2j, -0.1 + 0.7j, 0.3 - 0.4j], dtype=torch.complex128, requires_grad=True)
        c = torch.tensor([1.5, -0.5], dtype=DT)          # does not require grad

        def f(x_, c_, z_):
            return torch.cat([x_ * c_, (z_ * z_.conj()).real])
        for fn, label in ((jac, "jac"),):
            o = call(fn, f, (x, c, z), idxs=None)
            n += 1
            if o.exc is not None:
                viol.append(V(exc_fail(o.exc), {"idxs": "none"}, idxs="none", product="construct"))
                continue
            ops = o.value
            shapes = [tuple(q.shape) for q in ops] if isinstance(ops, (list, tuple)) else None
            want = [(5, 2), (5, 3)]
            if shapes != want:
                viol.append(V("operator-count-or-shape-wrong", {"got": shapes, "want": want,
                                                                "note": "a real and a complex argument require grad"},
                              idxs="none", product="construct"))
    else:
        raise KeyError(what)
    return {"viol": viol, "obs": {"what": what, "ok": not viol}, "status": "violation" if viol else "ok", "n": n}


def run_case(cfg):
    if cfg.get("mode") == "special":
        return run_special(cfg)
    thorough = bool(cfg.get("thorough"))
    world = World(cfg)
    ck = Checker(world, cfg)
    nops = 0
    specs, bad = idx_specs(world)
    from xitorch import LinearOperator
    def _make(ix):
        # "ngc": the operator is constructed while the caller has switched gradient recording off (a numerical
        # Hessian / Jacobian inside torch.no_grad(), or inside a custom backward)
        if cfg.get("ngc"):
            with torch.no_grad():
                return world.make(ix)
        return world.make(ix)
    for name, idxs, expect in specs:
        o = call(_make, idxs)
        ck.n += 1
        if o.exc is not None:
            ck.report(exc_fail(o.exc), {"idxs": name}, idxs=name, product="construct")
            continue
        res = o.value
        if isinstance(idxs, int):
            if not isinstance(res, LinearOperator):
                ck.report("int-index-does-not-return-operator", {"type": str(type(res))}, idxs=name,
                          product="construct")
                continue
            nops += 1
            full_check(ck, world, res, idxs, thorough)
            continue
        if not isinstance(res, (list, tuple)) or len(res) != len(expect) or \
                not all(isinstance(r, LinearOperator) for r in res):
            ck.report("wrong-number-of-operators", {"idxs": name, "got": len(res) if hasattr(res, "__len__") else None,
                                                    "want": len(expect)}, idxs=name, product="construct")
            continue
        for op, i in zip(res, expect):
            nops += 1
            light_check(ck, world, op, i, name)
        if len(res) >= 2 and name in ("None", "list" + "".join(map(str, reversed(world.gradpos)))):
            # operators returned by ONE call are independent objects: while the explicit parameters of one of them
            # are substituted (as the backward pass of solve does), the products of the others are still the
            # Jacobian / Hessian at the point they were built at
            for j, opj in enumerate(res):
                oj = call(opj.getlinopparams)
                ck.n += 1
                if oj.exc is not None:
                    continue
                lp = list(oj.value)
                gj = gen(900 + j)
                new = [(t.detach() + 0.3 * randn(tuple(t.shape), DT, gj).to(t.dtype))
                       if any(t is world.params[q] for q in world.gradpos) else t for t in lp]

                def others():
                    with opj.uselinopparams(*new):
                        for k, (opk, ik) in enumerate(zip(res, expect)):
                            if k != j:
                                ck.values(opk, world.dense_functional(ik), ik, ["mv", "rmv", "fullmatrix"], [()],
                                          gen(2100 + ik), change="sibling-substituted")
                oo = call(others)
                ck.n += 1
                if oo.exc is not None:
                    ck.report(exc_fail(oo.exc), {"in": "sibling substitution"}, idxs=name, product="sibling")
    for name, idxs in bad:
        o = call(world.make, idxs)
        ck.n += 1
        if o.exc is None:
            ck.report("nondifferentiable-index-accepted", {"idxs": name}, idxs=name, product="construct")
        else:
            ck.bump("rej:" + type(o.exc).__name__)
    # dedupe on failure class + idx, count occurrences
    uniq = {}
    for v in ck.viol:
        k = (v["failure"], v["at"].get("idx"), v["at"].get("change"))
        if k not in uniq:
            v = dict(v)
            v["detail"] = dict(v["detail"] or {}, occurrences=1)
            uniq[k] = v
        else:
            uniq[k]["detail"]["occurrences"] += 1
    viol = list(uniq.values())
    table = dict(sorted(ck.table.items()))
    table["fp"] = rnd(ck.fp, 8)
    table["ops"] = nops
    return {"viol": viol, "obs": {"table": table, "nviol": len(viol)}, "trivial": nops == 0, "n": ck.n,
            "status": "ok" if not viol else "violation"}


# ------------------------------------------------------------------ enumeration

def _fcfg(mode, kind, shapes, out, extra, vseed, thorough):
    s = list(shapes) + ["-"] * (3 - len(shapes))
    return {"mode": mode, "kind": kind, "nargs": len(shapes), "s0": s[0], "s1": s[1], "s2": s[2], "out": out,
            "extra": extra, "vseed": vseed, "thorough": thorough}


def cases(tier, seed):
    out = _cases(tier, seed)
    out.insert(0, {"mode": "special", "what": "cplxargs", "kind": "pure"})
    out.insert(0, {"mode": "special", "what": "infparam", "kind": "pure"})
    return out


def _cases(tier, seed):
    quick = tier == "quick"
    pairs = list(itertools.product(SHN, SHN))
    if quick:
        triples = [(SHN[i], SHN[(i + 1) % 4], SHN[(i + 2) % 4]) for i in range(4)] + \
                  [(SHN[i], SHN[(i + 3) % 4], SHN[i]) for i in range(4)]
        extra_pairs = [(SHN[i], SHN[(i + 1) % 4]) for i in range(4)]
        planes = [0]
    else:
        triples = list(itertools.product(SHN, SHN, SHN))
        extra_pairs = None
        planes = [0, 1 + int(seed) % 1000000]
    out = []
    for vs in planes:
        for shapes in pairs + triples:
            for extra in ("none", "nograd", "float"):
                if quick and extra != "none" and tuple(shapes) not in extra_pairs:
                    continue
                for kind in KINDS:
                    for o in ("s", "2", "2x3"):
                        out.append(_fcfg("jac", kind, shapes, o, extra, vs, not quick))
                    out.append(_fcfg("hess", kind, shapes, "s", extra, vs, not quick))
                    if extra == "none" and vs == 0 and (not quick or tuple(shapes) in extra_pairs):
                        for (md, oo) in (("jac", "2"), ("hess", "s")):
                            c = _fcfg(md, kind, shapes, oo, extra, vs, not quick)
                            c["ngc"] = 1
                            out.append(c)
    # simplest first
    out.sort(key=lambda c: (c["vseed"] != 0, c["nargs"], c["extra"] != "none"))
    return out


def coverage_extra(tier, seed, results):
    by = {}
    for r in results:
        k = "%s/%s" % (r["cfg"]["mode"], r["cfg"]["kind"])
        by[k] = by.get(k, 0) + 1
    return {"cases_per_mode_kind": by}

# ---- call-order plane (executed by mc/core.py in fresh interpreters, see mc/props/_hist_common.py): the result of
# a call must not depend on which other calls (other dtype / method / size / options) were made before it
_HIST_LABELS = [('float32', 'jac'), ('float64', 'jac'), ('float64', 'hess'), ('float32', 'hess')]
HISTORY = {"labels": ["/".join(str(x) for x in c) for c in _HIST_LABELS], "tol": [0.0001, 1e-12, 1e-12, 0.0001],
           "depth": {"quick": 2, "thorough": 3},
           "prelude": r'''import torch, xitorch
from xitorch.grad import jac, hess
CALLS = %r
def do(i):
    dtn, which = CALLS[i]
    dt = getattr(torch, dtn)
    W = torch.tensor([[0.3, -0.2, 0.5], [0.1, 0.4, -0.6]], dtype=dt)
    y = torch.tensor([0.2, -0.7, 0.4], dtype=dt).requires_grad_()
    p = torch.tensor([1.1, 0.6], dtype=dt).requires_grad_()
    v = torch.tensor([0.7, -1.3, 0.2], dtype=dt)
    if which == "jac":
        J = jac(lambda y, p: torch.tanh(W @ y) * p, (y, p), idxs=0)
        return torch.cat([J.mv(v).reshape(-1), J.fullmatrix().reshape(-1)]).detach().double().tolist()
    H = hess(lambda y, p: (torch.tanh(W @ y) * p).sum() + (y ** 4).sum(), (y, p), idxs=0)
    return torch.cat([H.mv(v).reshape(-1), H.fullmatrix().reshape(-1)]).detach().double().tolist()
''' % (_HIST_LABELS,)}
