"""C01 — xitorch.linalg.solve returns the solution of A X - M X E = B, or warns that it did not.

Bounded-exhaustive lattice over (operator kind, method, E/M mode, E dtype, spectrum class, size, batch-shape
pattern, dtype, solver options, right-hand-side kind).  The lattice is the union of complete sub-lattices
("planes"), each a full cartesian product of the dimensions that interact:

  op      operator kind x method x E/M x dtype x spectrum x n          (capabilities x solver path)
  batch   every mutually broadcastable assignment of batch shapes to (A, B, E, M) x method x kind
  opt     Krylov / Broyden option deviations (posdef, max_niter in {1, 2, default, 10n}, resid_calc_every, tol)
  rhs     zero / zero-column / unit right-hand sides x method x batch pattern
  slice   batched result vs. solving every batch element and column separately
  reject  documented rejections (non-square, mismatching, non-Hermitian M, non-broadcastable batches)
  f32     float32 forward values
  scale   the system scaled by 1e-4 / 1e4 (stopping tests relative to the iterated right-hand side)
"""
from __future__ import annotations
import re
import itertools
import torch
from mc.util import V, call, rnd, randn, gen
from mc.props import _solve_common as sc
from mc.props._solve_common import DT, EPS, shp, bcast_shape

ID = "C01"
LEVEL = "exploration"
DESIGN_REF = "DESIGN.md §5 C01"
RULE = ("case = one point of the union of thirteen complete sub-lattices (op / batch / opt / rhs / slice / reject / scale / mix / colscale / inplace / budget / sing / "
        "f32, see module docstring) over operator kind (17) x method (7) x {no E, E, E+M, M only} x E dtype x "
        "spectrum class (SPD, indefinite Hermitian, non-normal non-Hermitian) x n x ncols x batch shapes of "
        "(A, B, E, M) x dtype x (tolerance, posdef, max_niter, resid_calc_every | Broyden maxiter, line_search, "
        "alpha) x right-hand-side kind; one real solve() call per point (plus one per slice in the slice plane), "
        "judged against the dense per-column systems A - e_c M: exception => violation unless the point is a "
        "documented rejection; shape/dtype; silence => per-(batch, column) residual within the bound implied by "
        "the stopping test that was requested; silence required on well-conditioned points for every method "
        "except gmres; zero right-hand side => exact zeros; slices agree with the batched result.  Agreement "
        "with torch.linalg.solve and between methods is implied by the residual bound (error <= bound / "
        "sigma_min) and is evaluated as such.  distinct = distinct observation hashes; trivial = rejected points")
RULE_ADDED = 'Planes added later: mix (two systems of very different conditioning and right-hand-side norm in one call, as batch elements or as shifted columns); rhs plane with E / M batch dimensions that A and B do not have; call-order plane in fresh interpreters. Round 4: budget (cg with default / exact iteration budgets on tiny HPD systems), sing (exactly singular large batch element next to a well-conditioned small one), right-hand side of norm 1e-9 in the scale plane. Rounds 5-6: batch plane with n = ncols coinciding with batch lengths (2, 3); clustered (nearly coinciding, different) shifts. Round 7: colscale (columns / batch elements of the right-hand side differing in norm by 1e2 / 1e3 in one call, standard tolerances, 6 / 24 numeric instances per point incl. matrices with eigenvalues spread over a disk; the harness counts the adjoint products, so the stopping test of the system that was iterated on is the one demanded); inplace (one operator object, its tensors scaled in place by the caller between two solves, second solve also under no_grad).'
ASSUMPTIONS = [
    "numeric content: A = L A0 L^H, M = L L^H with A0 = Q (diag(lam) [+ 0.3 T]) Q^H, lam = +-linspace(1, kappa), "
    "L Hermitian with spectrum in [1, 2]; shifts e_c from a fixed per-spectrum alphabet away from the spectrum; "
    "sigma_min / sigma_max of every A - e_c M are measured per instance and enter the tolerance",
    "B and A share the dtype; E is either of that dtype or real (float64) for a complex A",
    "Jacobian operators are exercised in float64 and unbatched only (jac() returns an unbatched operator)",
    "tolerances and iteration caps are always passed explicitly; silence is demanded only for max_niter = 10 n "
    "(Broyden: default maxiter), measured kappa <= 200 and posdef=True only where every A - e_c M is Hermitian "
    "positive definite",
    "quick tier and value plane 0 are seed independent; VERIF_SEED selects the numeric instance of the extra "
    "value planes of the thorough tier",
]
BUDGET_S = {"quick": 400, "thorough": 3000}

METHODS = [None, "exactsolve", "custom_exactsolve", "cg", "bicgstab", "gmres", "broyden1"]
KRYLOV = ("cg", "bicgstab", "gmres")
DIRECT = ("exactsolve", "custom_exactsolve")
SPECS = ["spd", "indef", "nonherm"]

TOLS = {   # name -> dtype class -> (rtol, atol, f_tol, x_tol)
    "std": {"f64": (1e-6, 1e-8, 1e-7, 1e-7), "f32": (3e-4, 1e-5, 1e-3, 1e-3)},
    "tight": {"f64": (1e-9, 1e-11, 1e-10, 1e-10), "f32": (3e-4, 1e-5, 1e-3, 1e-3)},
    "loosex": {"f64": (1e-6, 1e-8, 1e-9, 1e-2), "f32": (3e-4, 1e-5, 1e-3, 1e-1)},
    # purely relative stopping test (the absolute floor never decides): used by the scale plane
    "rel": {"f64": (1e-7, 1e-30, 1e-8, 1e-8), "f32": (3e-4, 1e-30, 1e-3, 1e-3)},
}

DEFAULTS = {"plane": "op", "method": "exactsolve", "opkind": "dense", "mkind": "dense", "E": "none",
            "Edtype": "-", "dtype": "f64", "spec": "spd", "n": 3, "ncols": 3, "bA": "", "bB": "2", "bE": None,
            "bM": None, "kappa": 3.0, "tol": "std", "posdef": None, "max_niter": "10n", "rce": 10,
            "bro_maxiter": "default", "line_search": True, "alpha": None, "B": "dense", "vseed": 0,
            "reject": None}


def mk(**kw):
    c = dict(DEFAULTS)
    c.update(kw)
    if c["E"] in ("E", "EM"):
        if c["Edtype"] == "-":
            c["Edtype"] = "real"
        if c["bE"] is None:
            c["bE"] = ""
    else:
        c["Edtype"] = "-"
        c["bE"] = None
    if c["E"] in ("EM", "M"):
        if c["bM"] is None:
            c["bM"] = ""
    else:
        c["bM"] = None
    return c


def emodes_for(dtype, with_m_only=False):
    """(E mode, E dtype) alphabet for an operand dtype"""
    out = [("none", "-"), ("E", "real"), ("EM", "real")]
    if dtype == "c128":
        out += [("E", "complex"), ("EM", "complex")]
    if with_m_only:
        out.append(("M", "-"))
    return out


def kind_ok(kind, spec, dtype, bA=""):
    if kind in sc.HERM_ONLY_KINDS and spec == "nonherm":
        return False
    if kind in sc.JAC_KINDS and (dtype != "f64" or bA != ""):
        return False
    return True


# ------------------------------------------------------------------ enumeration

def _plane_op(tier, vseeds):
    out = []
    if tier == "quick":
        sizes = [(3, 3), (6, 3)]
        kappas = [3.0]
    else:
        sizes = [(1, 1), (1, 3), (2, 3), (3, 1), (3, 3), (5, 3), (6, 1), (6, 3), (8, 3)]
        kappas = [3.0, 30.0]
    for vs in vseeds:
        for dtype in ["f64", "c128"]:
            for kappa in kappas:
                for spec in SPECS:
                    for kind in sc.OPKINDS:
                        if not kind_ok(kind, spec, dtype):
                            continue
                        for (em, ed) in emodes_for(dtype, with_m_only=(kind == "dense")):
                            if kappa > 3.0 and em in ("EM", "M"):
                                continue       # kappa(M) multiplies: keep the kappa=30 plane M-free
                            for (n, ncols) in sizes:
                                if vs != 0 and (n, ncols) not in ((3, 3), (6, 3)):
                                    continue
                                for method in METHODS:
                                    out.append(mk(plane="op", method=method, opkind=kind, E=em, Edtype=ed,
                                                  dtype=dtype, spec=spec, n=n, ncols=ncols, kappa=kappa, vseed=vs))
    # M given as a matrix-free Hermitian-flagged operator
    for vs in vseeds[:1]:
        for dtype in ["f64", "c128"]:
            for spec in SPECS:
                for kind in ["dense", "mv", "mv_h"]:
                    if not kind_ok(kind, spec, dtype):
                        continue
                    for ed in (["real", "complex"] if dtype == "c128" else ["real"]):
                        for n in ([6] if tier == "quick" else [3, 6]):
                            for method in METHODS:
                                out.append(mk(plane="op", method=method, opkind=kind, mkind="mv_h", E="EM", Edtype=ed,
                                              dtype=dtype, spec=spec, n=n, ncols=3, vseed=vs))
    return out


def _plane_batch(tier):
    out = []
    if tier == "quick":
        alph = {"none": sc.SHAPES6, "E": sc.SHAPES6, "EM": ["", "2", "2,1", "1,3"]}
        kinds = ["dense", "mv"]
        methods = ["custom_exactsolve", "cg", "bicgstab", "gmres", "broyden1"]
        dtypes = ["f64"]
    else:
        alph = {"none": sc.SHAPES6, "E": sc.SHAPES6, "EM": sc.SHAPES6}
        kinds = ["dense", "mv", "mv_h", "add"]
        methods = ["exactsolve", "custom_exactsolve", "cg", "bicgstab", "gmres", "broyden1"]
        dtypes = ["f64", "c128"]
    for dtype in dtypes:
        for em in ["none", "E", "EM"]:
            for (bA, bB, bE, bM) in sc.batch_patterns(alph[em], em):
                for kind in kinds:
                    if dtype == "c128" and kind not in ("dense", "mv"):
                        continue
                    for method in methods:
                        if method == "broyden1" and (kind != "dense" if (tier == "quick" or dtype == "c128")
                                                     else kind not in ("dense", "mv")):
                            continue        # broyden1 costs 10x a Krylov solve; its layout code is kind independent
                        out.append(mk(plane="batch", method=method, opkind=kind, E=em,
                                      Edtype=("complex" if dtype == "c128" and em != "none" else "-"),
                                      dtype=dtype, spec="spd", n=3, ncols=2, bA=bA, bB=bB, bE=bE, bM=bM))
                        # sizes that coincide with batch lengths (n = ncols = 2 or 3 next to batch axes of length
                        # 2 / 3): a right-hand side of shape (n, ncols) must not be read as a batch of vectors
                        if kind == "dense" and dtype == "f64" and method in ("exactsolve", "custom_exactsolve",
                                                                              "bicgstab"):
                            for nn in (2, 3):
                                out.append(mk(plane="batch", method=method, opkind=kind, E=em, Edtype="-",
                                              dtype=dtype, spec="spd", n=nn, ncols=nn, bA=bA, bB=bB, bE=bE, bM=bM))
    # clustered shifts (all within 1e-5 relative of the first one, none equal)
    for dtype in ["f64", "c128"]:
        for em in ["E", "EM"]:
            for pat in BATCH3:
                for kind in ["dense", "mv"]:
                    for method in ["exactsolve", "custom_exactsolve", "bicgstab"]:
                        for ncols in (2, 3):
                            c = mk(plane="batch", method=method, opkind=kind, E=em,
                                   Edtype=("complex" if dtype == "c128" else "-"), dtype=dtype, spec="spd", n=3,
                                   ncols=ncols, **_pat(em, pat))
                            c["ecluster"] = 1
                            out.append(c)
    if tier == "quick":
        # exactsolve proper (not through the autograd Function) on the same lattice, dense only
        for em in ["none", "E", "EM"]:
            for (bA, bB, bE, bM) in sc.batch_patterns(alph[em], em):
                out.append(mk(plane="batch", method="exactsolve", opkind="dense", E=em, spec="nonherm", n=3, ncols=2,
                              bA=bA, bB=bB, bE=bE, bM=bM))
                for nn in (2, 3):
                    out.append(mk(plane="batch", method="exactsolve", opkind="dense", E=em, spec="nonherm", n=nn,
                                  ncols=nn, bA=bA, bB=bB, bE=bE, bM=bM))
    return out


BATCH3 = [("", "", "", ""), ("2", "", "2", "2"), ("2,1", "1,3", "3", "1")]       # (bA, bB, bE, bM)
BATCH5 = BATCH3 + [("", "2,3", "", ""), ("1", "2", "2,1", "2")]


def _pat(em, pat):
    bA, bB, bE, bM = pat
    return dict(bA=bA, bB=bB, bE=(bE if em in ("E", "EM") else None), bM=(bM if em in ("EM", "M") else None))


def _plane_opt(tier):
    out = []
    if tier == "quick":
        ns = [6]
        kinds = ["dense_auto"]
        ems = {"f64": [("none", "-"), ("EM", "real")], "c128": [("none", "-"), ("EM", "complex")]}
        tols = ["std"]
    else:
        ns = [3, 6]
        kinds = ["dense_auto", "mvrmv", "mv"]
        ems = {"f64": [("none", "-"), ("E", "real"), ("EM", "real")],
               "c128": [("none", "-"), ("E", "complex"), ("EM", "real"), ("EM", "complex")]}
        tols = ["std", "tight"]
    for dtype in ["f64", "c128"]:
        for spec in SPECS:
            for kind in kinds:
                for (em, ed) in ems[dtype]:
                    for n in ns:
                        for tol in tols:
                            for method in KRYLOV:
                                for posdef in [None, True, False]:
                                    for mx in [1, 2, "default", "10n"]:
                                        for rce in ([0, 1, 10] if method != "gmres" else [10]):
                                            out.append(mk(plane="opt", method=method, opkind=kind, E=em, Edtype=ed,
                                                          dtype=dtype, spec=spec, n=n, ncols=3, tol=tol, posdef=posdef,
                                                          max_niter=mx, rce=rce, **_pat(em, BATCH3[1])))
                        for tol in ["std", "tight", "loosex"]:
                            if kind == "mv":
                                continue
                            for bmx in [1, 2, "default"]:
                                for ls in [True, False]:
                                    for alpha in [None, -0.2]:
                                        out.append(mk(plane="opt", method="broyden1", opkind=kind, E=em, Edtype=ed,
                                                      dtype=dtype, spec=spec, n=n, ncols=3, tol=tol, bro_maxiter=bmx,
                                                      line_search=ls, alpha=alpha, **_pat(em, BATCH3[1])))
    return out


def _plane_rhs(tier):
    out = []
    # E / M carrying a batch dimension that neither A nor B has: the shape of the result of the B == 0 shortcut
    extra = [("", "", "2", ""), ("", "", "", "2"), ("2", "", "3,1", "3,1")]
    pats = (BATCH3 if tier == "quick" else BATCH5) + extra
    kinds = ["dense", "mv"] if tier == "quick" else ["dense", "mv", "mv_h", "add", "jac_lin"]
    for dtype in ["f64", "c128"]:
        for bk in ["zero", "zerocol", "unit"]:
            for kind in kinds:
                for (em, ed) in emodes_for(dtype, with_m_only=True):
                    if ed == "real" and dtype == "c128":
                        continue
                    for pat in pats:
                        if not kind_ok(kind, "spd", dtype, pat[0]):
                            continue
                        if em == "M" and pat not in extra:
                            continue
                        for method in METHODS:
                            out.append(mk(plane="rhs", method=method, opkind=kind, E=em, Edtype=ed, dtype=dtype,
                                          spec="spd", n=(6 if kind == "mv" else 3), ncols=3, B=bk, **_pat(em, pat)))
    return out


def _plane_slice(tier):
    out = []
    kinds = ["dense", "mv"] if tier == "quick" else ["dense", "mv", "mv_h", "mvrmv", "add"]
    specs = ["spd", "nonherm"] if tier == "quick" else SPECS
    for dtype in ["f64", "c128"]:
        for spec in specs:
            for kind in kinds:
                if not kind_ok(kind, spec, dtype):
                    continue
                for (em, ed) in emodes_for(dtype):
                    if ed == "real" and dtype == "c128":
                        continue
                    for pat in BATCH3[1:]:
                        for method in ["exactsolve", "cg", "bicgstab"]:
                            out.append(mk(plane="slice", method=method, opkind=kind, E=em, Edtype=ed, dtype=dtype,
                                          spec=spec, n=(6 if kind == "mv" else 3), ncols=2, **_pat(em, pat)))
    return out


REJECTS = ["A-nonsquare", "AB-mismatch", "M-nonsquare", "AM-mismatch", "M-nonhermitian", "EB-mismatch",
           "batch-AB", "batch-AE", "batch-AM", "batch-BE", "batch-BM", "batch-EM"]


def _plane_reject(tier):
    out = []
    for rj in REJECTS:
        for method in METHODS:
            for dtype in (["f64"] if tier == "quick" else ["f64", "c128"]):
                em = "EM" if ("M" in rj.split("-")[0] or rj.endswith("M")) else ("E" if "E" in rj else "none")
                out.append(mk(plane="reject", method=method, opkind="dense", E=em, dtype=dtype, spec="spd", n=3, ncols=2,
                              bA="", bB="", bE="", bM="", reject=rj))
    return out


def _plane_f32(tier):
    out = []
    kinds = ["dense", "mv", "mv_h"] if tier == "quick" else ["dense", "dense_h", "mv", "mvrmv", "full", "mv_h", "add", "matmul"]
    for spec in SPECS:
        for kind in kinds:
            if not kind_ok(kind, spec, "f32"):
                continue
            for (em, ed) in emodes_for("f32"):
                for n in ([6] if tier == "quick" else [3, 6]):
                    for method in METHODS:
                        out.append(mk(plane="f32", method=method, opkind=kind, E=em, Edtype=ed, dtype="f32", spec=spec,
                                      n=n, ncols=3, **_pat(em, BATCH3[1])))
    return out


def _plane_scale(tier):
    """the whole system A - e M scaled by 1e-4 / 1e4 (A and E scaled, M and B unchanged): the stopping tests are
    relative to the right-hand side of the system actually iterated on, whatever the norm of the operator.
    n = 24, kappa = 30: large enough that the Krylov iterations do not terminate by exhausting the space, so the
    iterate at which the stopping test fires is visible in the residual"""
    out = []
    kinds = ["dense_auto", "mv"] if tier == "quick" else ["dense_auto", "mv", "mvrmv", "add"]
    for dtype in ["f64", "c128"]:
        for spec in SPECS:
            for kind in kinds:
                if not kind_ok(kind, spec, dtype):
                    continue
                for (em, ed) in emodes_for(dtype):
                    if ed == "real" and dtype == "c128":
                        continue
                    for scale in (1e-4, 1e4):
                        for tol in (["rel"] if tier == "quick" else ["rel", "std"]):
                            for method in ("exactsolve", "cg", "bicgstab", "gmres"):
                                for posdef in ([None] if tier == "quick" else [None, False]):
                                    c = mk(plane="scale", method=method, opkind=kind, E=em, Edtype=ed, dtype=dtype,
                                           spec=spec, n=24, ncols=2, kappa=30.0, tol=tol, posdef=posdef,
                                           **_pat(em, BATCH3[1]))
                                    c["scale"] = scale
                                    out.append(c)
                                    if tol == "rel" and posdef is None:
                                        # and a right-hand side of norm ~1e-9 (purely relative request): tiny is
                                        # not zero
                                        c2 = dict(c)
                                        c2["bscale"] = 1e-9
                                        out.append(c2)
    return out


def _plane_mix(tier):
    """two systems of very different conditioning and right-hand-side norm in ONE call (two batch elements, or two
    columns with different shifts): every column / batch element has to meet ITS OWN stopping test.
    batch: A[k] + 100 I (kappa ~ 1.3) with B[k] * 1e4, the other element kappa = 30 with |b| ~ 1;
    col:   E[k] = -100 (system A + 100 M) with column k of B * 1e4, the other column unshifted"""
    out = []
    kinds = ["dense_auto", "mv"] if tier == "quick" else ["dense_auto", "mv", "mvrmv", "add"]
    for dtype in ["f64", "c128"]:
        for spec in SPECS:
            for kind in kinds:
                if not kind_ok(kind, spec, dtype, "2"):
                    continue
                for mix in ("batch", "batchrev", "col", "colrev"):
                    ems = [("none", "-"), ("E", "real"), ("EM", "real")] if mix.startswith("batch") else \
                          [("E", "real"), ("EM", "real")]
                    for (em, ed) in ems:
                        if dtype == "c128":
                            ed = "complex" if em != "none" else "-"
                        for tol in (["rel"] if tier == "quick" else ["rel", "std"]):
                            for method in ("exactsolve", "cg", "bicgstab", "gmres"):
                                pat = ("2", "2", "", "") if mix.startswith("batch") else ("", "", "", "")
                                c = mk(plane="mix", method=method, opkind=kind, E=em, Edtype=ed, dtype=dtype,
                                       spec=spec, n=24, ncols=2, kappa=30.0, tol=tol, **_pat(em, pat))
                                c["mix"] = mix
                                out.append(c)
    return out


def _plane_colscale(tier):
    """right-hand sides whose columns (or batch elements) differ in norm by a factor 1e2 / 1e3 in ONE call, standard
    tolerances (rtol 1e-6, atol 1e-8), several numeric instances: every column has to meet its own stopping test in
    the returned tensor - the iterate that is returned must be the one that passed the test for every column"""
    out = []
    vseeds = range(6) if tier == "quick" else range(24)
    for dtype in (["f64"] if tier == "quick" else ["f64", "c128"]):
        for spec in SPECS:
            for n in (24, 40):
                for kappa in (10.0, 30.0):
                    for ratio in (1e-3, 1e-2):
                        for pos in ("col0", "col1", "batch0", "batch1"):
                            for vs in vseeds:
                                for method in ("cg", "bicgstab", "gmres"):
                                    pat = ("2", "2", "", "") if pos.startswith("batch") else ("", "", "", "")
                                    c = mk(plane="colscale", method=method, opkind="mvrmv", dtype=dtype,
                                           spec=spec, n=n, ncols=2, kappa=kappa, tol="std", vseed=vs,
                                           **_pat("none", pat))
                                    c["colscale"] = ratio
                                    c["pos"] = pos
                                    out.append(c)
                                    if spec == "nonherm" and kappa == 10.0 and method != "cg":
                                        # eigenvalues spread over a disk around 1 (A = I + 0.75 G / sqrt(n), G a
                                        # fixed Gaussian matrix): the residual norms of bicgstab are erratic
                                        d = dict(c, amat="disk")
                                        out.append(d)
    return out


def _plane_inplace(tier):
    """one operator object used for two solves, the caller scales every tensor of the operator IN PLACE (times 1.25)
    between them (tensors do not require grad; second call also under torch.no_grad()): the second result is the
    solution of the operator as it is then"""
    out = []
    kinds = ["dense", "mv", "mvrmv", "full", "add", "sub", "scale2", "adj"] if tier == "quick" else \
        ["dense", "dense_h", "mv", "mvrmv", "full", "mv_h", "add", "add_h", "sub", "scale2", "scale2_mv", "scaleneg",
         "adj", "adj_mv"]
    for dtype in ["f64", "c128"]:
        for spec in SPECS:
            for kind in kinds:
                if not kind_ok(kind, spec, dtype, ""):
                    continue
                for (em, ed) in [("none", "-"), ("EM", "real")]:
                    for method in ("exactsolve", "custom_exactsolve", "cg", "bicgstab"):
                        for nograd in (False, True):
                            c = mk(plane="inplace", method=method, opkind=kind, E=em, Edtype=ed, dtype=dtype,
                                   spec=spec, n=4, ncols=2, kappa=3.0, tol="tight", **_pat(em, ("", "", "", "")))
                            c["nograd"] = nograd
                            out.append(c)
    return out


def _plane_precond(tier):
    """documented preconditioner options of the Krylov methods (Jacobi preconditioner diag(A)^-1 as a
    LinearOperator): cg(precond), bicgstab(precond_l / precond_r / both).  The solution does not depend on the
    preconditioner; n = 24, kappa = 30 so that the iteration does not end by exhausting the space"""
    out = []
    for dtype in ["f64", "c128"]:
        for kind in ["dense_auto", "mv"]:
            for (em, ed) in [("none", "-"), ("E", "real")]:
                if dtype == "c128" and em == "E":
                    ed = "complex"
                for n in (6, 24):
                    for (method, pcs, specs) in (("cg", ["p"], ["spd"]), ("bicgstab", ["l", "r", "lr"], SPECS)):
                        for spec in specs:
                            if not kind_ok(kind, spec, dtype):
                                continue
                            for pc in pcs:
                                c = mk(plane="precond", method=method, opkind=kind, E=em, Edtype=ed, dtype=dtype,
                                       spec=spec, n=n, ncols=2, kappa=(30.0 if n == 24 else 3.0), tol="std",
                                       **_pat(em, BATCH3[0]))
                                c["precond"] = pc
                                out.append(c)
    return out


def _plane_sing(tier):
    """one batch element of magnitude 1e8 whose first shifted system is EXACTLY singular (upper triangular A, shift
    equal to a diagonal entry: the direct solve takes its retry branch) next to a well-conditioned element of
    magnitude 1: every regular (batch, column) system has to be solved to ITS OWN accuracy"""
    out = []
    for dtype in ["f64", "c128"]:
        for kind in ["dense", "mv"]:
            for method in [None, "exactsolve", "custom_exactsolve"]:
                for which in (0, 1):
                    for em in ("E", "EM"):
                        c = mk(plane="sing", method=method, opkind=kind, E=em,
                               Edtype=("complex" if dtype == "c128" else "real"), dtype=dtype, spec="nonherm", n=4,
                               ncols=2, **_pat(em, ("2", "2", "2", "")))
                        c["sing"] = which
                        out.append(c)
    return out


def _plane_budget(tier):
    """finite termination: on a Hermitian positive definite system of size n <= 3 (kappa = 3) conjugate gradients
    needs at most n iterations; with max_niter = n, and with the default budget, it must converge silently.
    (A budget that is silently one iteration short shows at n = 1 with the default, and at max_niter = n.)"""
    out = []
    for dtype in ["f64", "c128"]:
        for kind in ["dense_auto", "mv_h"]:
            for (em, ed) in [("none", "-"), ("E", "real")]:
                for (n, ncols) in [(1, 1), (1, 2), (2, 1), (2, 2), (3, 2)]:
                    for posdef in [None, True]:
                        for mx in ["default", "n"]:
                            for pat in BATCH3[:2]:
                                c = mk(plane="budget", method="cg", opkind=kind, E=em, Edtype=ed, dtype=dtype,
                                       spec="spd", n=n, ncols=ncols, posdef=posdef, max_niter=mx, **_pat(em, pat))
                                out.append(c)
    return out


def cases(tier, seed):
    vseeds = [0] if tier == "quick" else [0] + [int(seed) * 1000 + k for k in (1, 2, 3)]
    out = []
    out += _plane_scale(tier)
    out += _plane_mix(tier)
    out += _plane_colscale(tier)
    out += _plane_inplace(tier)
    out += _plane_budget(tier)
    out += _plane_sing(tier)
    out += _plane_precond(tier)
    out += _plane_reject(tier)
    out += _plane_op(tier, vseeds)
    out += _plane_batch(tier)
    out += _plane_opt(tier)
    out += _plane_rhs(tier)
    out += _plane_slice(tier)
    out += _plane_f32(tier)
    # canonical order: simplest first (stable sort on a few size keys)
    order = {"reject": 0, "op": 1, "batch": 2, "rhs": 3, "slice": 4, "f32": 5, "opt": 6, "scale": 7, "mix": 8, "colscale": 8.5, "inplace": 8.7, "budget": 9, "sing": 10, "precond": 11}
    out.sort(key=lambda c: (order[c["plane"]], c["vseed"] != 0, c["n"] * c["ncols"]))
    return out


# ------------------------------------------------------------------ execution

def exc_class(e):
    name = type(e).__name__
    msg = str(e).strip().split("\n")[0]
    m = re.match(r"\s*([A-Za-z_]+)\(", msg)
    if "INTERNAL ASSERT" in msg:
        t = re.search(r"torch\.[A-Za-z_.]+", str(e))
        stem = "INTERNAL_ASSERT:" + (t.group(0) if t else "")
    else:
        stem = m.group(1) if m else "_".join(re.findall(r"[A-Za-z_]+", msg)[:6])
    return "exception:%s:%s" % (name, stem)


def solver_options(cfg):
    n = cfg["n"]
    method = cfg["method"]
    rtol, atol, f_tol, x_tol = TOLS[cfg["tol"]]["f32" if cfg["dtype"] == "f32" else "f64"]
    if method in KRYLOV or method is None:
        o = {"rtol": rtol, "atol": atol, "posdef": cfg["posdef"]}
        mx = cfg["max_niter"]
        if mx == "10n":
            o["max_niter"] = 10 * n
        elif mx == "n":
            o["max_niter"] = n
        elif mx != "default":
            o["max_niter"] = int(mx)
        if method != "gmres":
            o["resid_calc_every"] = cfg["rce"]
        return o
    if method == "broyden1":
        o = {"f_tol": f_tol, "x_tol": x_tol, "f_rtol": float("inf"), "x_rtol": float("inf"),
             "line_search": cfg["line_search"]}
        if cfg["alpha"] is not None:
            o["alpha"] = cfg["alpha"]
        if cfg["bro_maxiter"] != "default":
            o["maxiter"] = int(cfg["bro_maxiter"])
        return o
    return {}


def build_case(cfg):
    """dense tensors + operators of a (valid) configuration"""
    dt = DT[cfg["dtype"]]
    em = cfg["E"]
    p = sc.make_problem(cfg["spec"], cfg["n"], cfg["ncols"], dt, ("EM" if em in ("EM", "M") else em),
                        cfg["Edtype"] == "complex", shp(cfg["bA"]), shp(cfg["bB"]),
                        shp(cfg["bE"]) if cfg["bE"] is not None else (), shp(cfg["bM"]) if cfg["bM"] is not None else (),
                        cfg["kappa"], cfg["vseed"], cfg["B"])
    if em == "M":
        p["E"] = None
    if cfg.get("ecluster") and p["E"] is not None:
        # nearly coinciding, but DIFFERENT shifts: column c has the shift of column 0 times (1 + 3e-6 c) + 4e-9 c;
        # every column is its own system (relative change of the solution ~ 1e-6 >> the tolerance of a direct solve)
        e0 = p["E"][..., :1]
        cidx = torch.arange(p["E"].shape[-1], dtype=e0.real.dtype)
        p["E"] = e0 * (1.0 + 3e-6 * cidx) + 4e-9 * cidx
    mix = cfg.get("mix")
    if mix:
        k = 1 if mix.endswith("rev") else 0
        eye = torch.eye(cfg["n"], dtype=dt)
        Bm = p["B"].clone()
        if mix.startswith("batch"):
            Am = p["A"].clone()
            Am[k] = Am[k] + 100.0 * eye
            p["A"] = Am
            Bm[k] = Bm[k] * 1e4
        else:
            Em = torch.zeros_like(p["E"])
            Em[..., k] = -100.0
            p["E"] = Em
            Bm[..., :, k] = Bm[..., :, k] * 1e4
        p["B"] = Bm
    if cfg.get("amat") == "disk":
        n = cfg["n"]
        G = randn(tuple(p["A"].shape), dt, gen(7000 + cfg["vseed"]))
        p["A"] = torch.eye(n, dtype=dt) + 0.75 * G / n ** 0.5
    if cfg.get("colscale"):
        Bm = p["B"].clone()
        k = int(cfg["pos"][-1])
        if cfg["pos"].startswith("batch"):
            Bm[k] = Bm[k] * cfg["colscale"]
        else:
            Bm[..., :, k] = Bm[..., :, k] * cfg["colscale"]
        p["B"] = Bm
    if cfg.get("sing") is not None:
        k = int(cfg["sing"])
        n = cfg["n"]
        big = torch.triu(randn((n, n), dt, gen(4242)))
        diag = torch.arange(1, n + 1, dtype=torch.float64).to(dt)
        big = big - torch.diag(torch.diagonal(big)) + torch.diag(diag)
        Am, Em = p["A"].clone(), p["E"].clone()
        # without M: A - e I has an exact zero pivot for e = 1e8 * (first diagonal entry).  With M the pencil
        # A = 1e8 M big gives A - e M = M (1e8 big - e I): singular up to the rounding of the product (a merely
        # ill-conditioned column is not judged either)
        Am[k] = (big if p["M"] is None else (p["M"] if p["M"].dim() == 2 else p["M"][k]) @ big) * 1e8
        Em[k, 0] = diag[0] * 1e8
        Em[k, 1] = 2.5e8
        p["A"], p["E"] = Am, Em
    s = cfg.get("scale")
    if s is not None:
        p["A"] = p["A"] * s
        if p["E"] is not None:
            p["E"] = p["E"] * s
    if cfg.get("bscale") is not None:
        p["B"] = p["B"] * cfg["bscale"]
    return p


def mk_ops(cfg, p):
    A = sc.build_op(cfg["opkind"], p["A"])
    M = None
    if p["M"] is not None:
        M = sc.build_op("dense_auto" if cfg["mkind"] == "dense" else cfg["mkind"], p["M"])
    return A, M


def run_solve(cfg, A, B, E, M):
    import xitorch.linalg
    opts = solver_options(cfg)
    pc = cfg.get("precond")
    if pc:
        from xitorch import LinearOperator
        Ad = A.fullmatrix().detach()
        P = LinearOperator.m(torch.diag_embed(1.0 / torch.diagonal(Ad, dim1=-2, dim2=-1)))
        if pc == "p":
            opts["precond"] = P
        if "l" in pc:
            opts["precond_l"] = P
        if "r" in pc:
            opts["precond_r"] = P
    torch.manual_seed(20240)        # the posdef probe draws torch.randn
    with sc.quiet_stderr():         # LAPACK prints parameter complaints for gmres' empty least-squares problem
        return call(xitorch.linalg.solve, A, B, E, M, method=cfg["method"], **opts)


def judge(cfg, p, A, M, o, batch, tag=""):
    """oracle items 1-4 for one solve outcome; returns (violations, obs dict, sigma_min tensor, bound tensor)"""
    viol = []
    method = cfg["method"]
    n, ncols = cfg["n"], cfg["ncols"]
    dt = DT[cfg["dtype"]]
    eps = EPS[cfg["dtype"]]
    obs = {}
    if o.exc is not None:
        viol.append(V(tag + exc_class(o.exc), {"exception": o.exc_sig}))
        return viol, {"exc": exc_class(o.exc)}, None, None
    x = o.value
    if not isinstance(x, torch.Tensor):
        viol.append(V(tag + "result-not-a-tensor", {"type": str(type(x))}))
        return viol, {"type": str(type(x))}, None, None
    x = x.detach()
    want = tuple(batch) + (n, ncols)
    if tuple(x.shape) != want:
        viol.append(V(tag + "wrong-shape", {"got": list(x.shape), "want": list(want)}))
        return viol, {"shape": list(x.shape)}, None, None
    if x.dtype != dt:
        viol.append(V(tag + "wrong-dtype", {"got": str(x.dtype), "want": str(dt)}))
    B, E = p["B"], p["E"]
    S = sc.dense_systems(p["A"], E, p["M"] if E is not None else None, ncols, batch)     # (*b, ncols, n, n)
    sv = torch.linalg.svdvals(S)
    smax, smin = sv[..., 0], sv[..., -1]
    kap = smax / smin
    kmax = kap.max().item()
    Bw = B.to(S.dtype).expand(tuple(batch) + (n, ncols))
    bn = Bw.norm(dim=-2)                                                                  # (*b, ncols)
    res = sc.residual(S, x, B, batch)
    obs.update({"warned": bool(o.warned), "kappa": rnd(kmax, 3)})

    herm_flag = bool(A.is_hermitian and (M is None or E is None or M.is_hermitian))
    Sh = S.transpose(-2, -1).conj()
    s_is_herm = bool(((S - Sh).abs().amax() <= 1e-9 * smax.max()).item())
    s_is_hpd = s_is_herm and bool((torch.linalg.eigvalsh(0.5 * (S + Sh))[..., 0] > 0).all().item())

    # ---- the bound implied by the requested stopping test
    rtol, atol, f_tol, x_tol = TOLS[cfg["tol"]]["f32" if cfg["dtype"] == "f32" else "f64"]
    kM = 1.0
    if p["M"] is not None and E is not None:
        svm = torch.linalg.svdvals(p["M"].to(S.dtype))
        kM = (svm[..., 0] / svm[..., -1]).max().item()
    if method in DIRECT:
        bound = 200 * eps * n * kap * kM * bn + 1e-300
    elif method == "broyden1":
        bound = torch.full_like(bn, f_tol) + 100 * eps * n * kap * bn
    else:
        direct = torch.clamp(rtol * bn, min=atol)
        shb = torch.einsum("...cij,...ic->...jc", S.conj(), Bw).norm(dim=-2)            # |S_c^H b_c|
        normal = torch.clamp(rtol * shb, min=atol) / smin
        # cg works on the normal equations whenever the system is not (flagged) Hermitian; complex shifts make
        # A - e M non-Hermitian whatever the flags say
        eff_herm = herm_flag and not (E is not None and E.is_complex())
        normal_possible = (cfg["posdef"] is not True) or (method in ("cg", None) and not eff_herm)
        if cfg.get("_direct_observed"):
            normal_possible = False
        if normal_possible:
            bound = torch.maximum(direct, normal) + 100 * eps * n * kap * kap * bn
        else:
            bound = direct + 100 * eps * n * kap * bn
    finite = bool(torch.isfinite(x.to(S.dtype).abs()).all().item())
    ratio = (res / bound).max().item() if finite else float("inf")
    obs["ratio"] = rnd(float(ratio), 2)

    if cfg["B"] == "zero":
        if x.abs().max().item() != 0.0:
            viol.append(V(tag + "zero-rhs-nonzero-result", {"max_abs": x.abs().max().item()}))
        if o.warned:
            viol.append(V(tag + "unexpected-convergence-warning", {"warnings": o.warnings[:2], "B": "zero"}))
        return viol, obs, smin, bound

    if not o.warned:
        if not (ratio <= 1.0):
            worst = (res / bound).reshape(-1).argmax().item() if finite else -1
            viol.append(V(tag + "residual-above-tolerance",
                          {"max_residual_over_bound": ratio, "max_residual": res.max().item() if finite else "nan",
                           "bound_there": bound.reshape(-1)[worst].item() if finite else None,
                           "kappa": kmax, "flat_index_batch_col": worst}, herm_flagged=herm_flag))
    # ---- silence on well-conditioned points
    must = method != "gmres" and kmax <= 200
    if method in KRYLOV or method is None:
        must = must and (cfg["max_niter"] == "10n" or cfg["plane"] == "budget")
        if cfg["posdef"] is True and method in ("cg", None) and herm_flag and not s_is_hpd:
            must = False          # caller's contract: posdef=True promises Hermitian positive definiteness
    if method == "broyden1":
        must = must and cfg["bro_maxiter"] == "default"
    if must and o.warned:
        viol.append(V(tag + "unexpected-convergence-warning",
                      {"warnings": o.warnings[:2], "kappa": kmax, "max_residual": res.max().item() if finite else "nan",
                       "systems_hermitian": s_is_herm, "systems_hpd": s_is_hpd}, herm_flagged=herm_flag))
    return viol, obs, smin, bound


def make_reject(cfg):
    """operands of a documented-rejection point"""
    dt = DT[cfg["dtype"]]
    n, ncols = cfg["n"], cfg["ncols"]
    rj = cfg["reject"]
    bA = bB = bE = bM = ()
    if rj.startswith("batch-"):
        a, b = rj[6], rj[7]
        sh = {"A": (), "B": (), "E": (), "M": ()}
        sh[a], sh[b] = (2,), (3,)
        bA, bB, bE, bM = sh["A"], sh["B"], sh["E"], sh["M"]
    em = cfg["E"]
    p = sc.make_problem("spd", n, ncols, dt, em, False, bA, bB, bE, bM, 3.0, 0)
    Am, Bm, Em, Mm = p["A"], p["B"], p["E"], p["M"]
    herm = None
    if rj == "A-nonsquare":
        Am = Am[..., :, : n - 1]
    elif rj == "AB-mismatch":
        Bm = Bm[..., : n - 1, :]
    elif rj == "M-nonsquare":
        Mm = Mm[..., :, : n - 1]
    elif rj == "AM-mismatch":
        Mm = Mm[..., : n - 1, : n - 1]
    elif rj == "M-nonhermitian":
        Mm = Mm + torch.triu(torch.ones_like(Mm), diagonal=1) * 0.1
        herm = False
    elif rj == "EB-mismatch":
        Em = Em[..., : ncols - 1]
    from xitorch import LinearOperator
    A = LinearOperator.m(Am.contiguous(), is_hermitian=False)
    M = None
    if Mm is not None:
        M = LinearOperator.m(Mm.contiguous(), is_hermitian=herm) if herm is not None else LinearOperator.m(Mm.contiguous())
    return A, Bm.contiguous(), (Em.contiguous() if Em is not None else None), M


def run_case(cfg):
    if cfg["plane"] == "reject":
        o = call(lambda: run_solve(cfg, *_reject_ops(cfg)))
        inner = o.value if o.exc is None else None
        exc = o.exc if o.exc is not None else inner.exc
        if exc is not None:
            return {"viol": [], "obs": {"rejected": exc_class(exc)}, "trivial": True, "status": "rejected"}
        return {"viol": [V("accepted-invalid-input", {"reject": cfg["reject"],
                                                       "returned_shape": list(getattr(inner.value, "shape", []))})],
                "obs": {"accepted": True}, "status": "violation"}

    p = build_case(cfg)
    batch = bcast_shape(shp(cfg["bA"]), shp(cfg["bB"]), shp(cfg["bE"]) if p["E"] is not None else None,
                        shp(cfg["bM"]) if (p["M"] is not None and p["E"] is not None) else None)
    ob = call(mk_ops, cfg, p)
    if ob.exc is not None:
        return {"viol": [V("operator-construction-" + exc_class(ob.exc), {"exception": ob.exc_sig})],
                "obs": {"build": exc_class(ob.exc)}, "status": "violation"}
    A, M = ob.value
    if cfg["plane"] == "colscale":
        # the harness watches which system was iterated on: if the adjoint product was never asked for, the
        # Krylov method worked on A X = B itself and ITS stopping test (not that of the normal equations) applies
        nrmv = [0]
        inner_rmv = A._rmv

        def counted_rmv(x):
            nrmv[0] += 1
            return inner_rmv(x)
        A._rmv = counted_rmv
        o = run_solve(cfg, A, p["B"], p["E"], M)
        cfg = dict(cfg, _direct_observed=(nrmv[0] == 0))
    else:
        o = run_solve(cfg, A, p["B"], p["E"], M)
    viol, obs, smin, bound = judge(cfg, p, A, M, o, batch)
    if cfg["plane"] == "colscale":
        obs["direct_system"] = cfg["_direct_observed"]
        cfg = {k: v for k, v in cfg.items() if k != "_direct_observed"}
    nexec = 1
    status = "ok"
    if o.exc is None and o.warned:
        status = "warned"

    if cfg["plane"] == "inplace" and o.exc is None and not viol:
        A_old = p["A"].clone()
        seen_ids = set()
        with torch.no_grad():
            for t in A.getlinopparams():
                if id(t) not in seen_ids:
                    seen_ids.add(id(t))
                    t.mul_(1.25)
        p = dict(p, A=A_old * 1.25)
        if cfg.get("nograd"):
            with torch.no_grad():
                o2 = run_solve(cfg, A, p["B"], p["E"], M)
        else:
            o2 = run_solve(cfg, A, p["B"], p["E"], M)
        nexec += 1
        v2, obs2, _, _ = judge(cfg, p, A, M, o2, batch, tag="after-inplace-update:")
        viol.extend(v2)
        obs["second"] = obs2.get("ratio")

    if cfg["plane"] == "slice" and o.exc is None and not viol and not o.warned:
        x = o.value.detach()
        full = lambda t, tail: t.expand(tuple(batch) + tuple(t.shape[-tail:]))
        Af, Bf = full(p["A"], 2), full(p["B"], 2)
        Ef = full(p["E"], 1) if p["E"] is not None else None
        Mf = full(p["M"], 2) if p["M"] is not None else None
        worst = 0.0
        for bidx in itertools.product(*[range(s) for s in batch]):
            for c in range(cfg["ncols"]):
                ps = {"A": Af[bidx].contiguous(), "B": Bf[bidx][:, c:c + 1].contiguous(),
                      "E": Ef[bidx][c:c + 1].contiguous() if Ef is not None else None,
                      "M": Mf[bidx].contiguous() if Mf is not None else None}
                cs = dict(cfg, ncols=1)
                obs_ = call(mk_ops, cs, ps)
                if obs_.exc is not None:
                    viol.append(V("slice:operator-construction-" + exc_class(obs_.exc), {"exception": obs_.exc_sig}))
                    continue
                As, Ms = obs_.value
                os_ = run_solve(cs, As, ps["B"], ps["E"], Ms)
                nexec += 1
                v2, _, smin2, bound2 = judge(cs, ps, As, Ms, os_, ())
                viol.extend(v2)
                for v in v2:
                    v["failure"] = "slice:" + v["failure"]
                if os_.exc is None and not v2 and not os_.warned:
                    xs = os_.value.detach().to(x.dtype)
                    d = (xs[:, 0] - x[bidx][:, c]).norm().item()
                    lim = (bound[bidx][c] / smin[bidx][c] + bound2[0] / smin2[0]).item()
                    worst = max(worst, d / lim)
                    if not d <= lim:
                        viol.append(V("slice-mismatch", {"batch_index": list(bidx), "column": c, "diff": d, "limit": lim}))
        obs["slice_ratio"] = rnd(worst, 2)
    if viol:
        status = "violation"
    return {"viol": viol, "obs": obs, "status": status, "n": nexec}


def _reject_ops(cfg):
    return make_reject(cfg)


def coverage_extra(tier, seed, results):
    planes = {}
    for r in results:
        pl = r["cfg"]["plane"]
        planes[pl] = planes.get(pl, 0) + 1
    return {"cases_per_plane": planes}

# ---- call-order plane (executed by mc/core.py in fresh interpreters, see mc/props/_hist_common.py): the result of
# a call must not depend on which other calls (other dtype / method / size / options) were made before it
_HIST_LABELS = [('float32', 'exactsolve', 0), ('float64', 'exactsolve', 0), ('float64', 'exactsolve', 1), ('complex128', 'exactsolve', 1), ('float64', 'cg', 1), ('float32', 'cg', 0)]
HISTORY = {"labels": ["/".join(str(x) for x in c) for c in _HIST_LABELS], "tol": [0.0001, 1e-11, 1e-11, 1e-11, 1e-08, 0.001],
           "depth": {"quick": 2, "thorough": 3},
           "prelude": r'''import torch, xitorch
from xitorch import LinearOperator
from xitorch.linalg import solve
CALLS = %r
def do(i):
    dtn, method, withE = CALLS[i]
    dt = getattr(torch, dtn)
    g = torch.Generator().manual_seed(5)
    n = 6
    A0 = torch.randn((n, n), generator=g, dtype=torch.float64)
    A = (A0 @ A0.T / n + torch.eye(n, dtype=torch.float64) * 2.0).to(dt)
    B = torch.randn((n, 2), generator=g, dtype=torch.float64).to(dt)
    E = torch.tensor([0.3, -0.4], dtype=torch.float64).to(dt) if withE else None
    opts = {} if method == "exactsolve" else {"rtol": 1e-12, "atol": 1e-14, "max_niter": 60}
    torch.manual_seed(0)
    x = solve(LinearOperator.m(A, is_hermitian=True), B, E, method=method, **opts)
    x = torch.view_as_real(x) if x.is_complex() else x
    return x.double().reshape(-1).tolist()
''' % (_HIST_LABELS,)}
