"""C04 -- implicit gradients of rootfinder / equilibrium / minimize equal the implicit-function-theorem gradients.

Bounded-exhaustive exploration over (functional x forward method x problem family x size/layout x backward solver
x parameter placement x initial guess x cotangent); every case runs the real forward call, differentiates the result
to first and second order with torch.autograd and compares with an implicit-function-theorem reference built in plain
torch at the *returned* point (two unrolled Newton steps with the dense Jacobian, differentiated by autograd).
"""
from __future__ import annotations
import math
import torch

from mc.util import V, call, rnd
from mc.props._root_common import Problem, flat_norm

ID = "C04"
LEVEL = "exploration"
DESIGN_REF = "DESIGN.md §5 C04"
RULE = ("case = one point of the lattice functional{rootfinder,equilibrium,minimize} x forward method {newton, "
        "broyden1, broyden2, linearmixing; +anderson_acc; +gd, adam} x generic (non-centred) contractive family "
        "{real affine, tanh 0.6, complex affine; quadratic, log-cosh} x (n, layout) with 4..16 unknowns (both sides of "
        "the n<=5 direct/Krylov dispatch of the backward solve) x backward solver {default, exactsolve, cg on the "
        "normal equations, bicgstab, gmres, broyden1; explicit tolerances} x parameter placement {explicit tensors, "
        "nn.Module parameters, EditableModule leaf tensors, EditableModule derived tensors, explicit tensors "
        "interleaved with float/int/None/str/non-differentiable tensor/unused tensor, the same tensor object at two "
        "explicit positions, a tensor held by the EditableModule and also passed explicitly} x initial guess {zero, near, "
        "zero with requires_grad} x cotangent {dense, unit, zero}; inside a case: first-order gradients of <cot, y> "
        "and second-order gradients (gradient of a fixed contraction of the first-order gradients) w.r.t. every "
        "differentiable tensor, compared with the reference; distinct = distinct rounded observation")
RULE_ADDED = 'Added later: objects listing a NON-differentiable tensor before / after the differentiable ones (EditableModule and nn.Module with a frozen parameter), forward-mode product at an exactly zero differentiable cotangent, 24-unknown systems for the iterative backward solvers. Round 4: placement explicit_view (matrix leaf and its transposed view as two explicit parameters). Rounds 5-6: preconditioner options of the backward solver (bicgstab precond_l / precond_r / both, cg precond); the object is given other tensors between the forward call and the backward pass; only the initial guess requires grad.'
ASSUMPTIONS = [
    "reference = two Newton steps unrolled in plain torch from the detached returned point on the shifted residual "
    "f(y, theta) - f(y_ret, theta0) (so that the returned point is an exact root and the reference is the IFT formula "
    "evaluated at the returned point, to third order), dense Jacobian from torch.autograd.functional.jacobian("
    "create_graph=True), differentiated with torch.autograd.grad; complex unknowns are handled in real-packed form",
    "independence of method / initial guess: a second reference without the shift (IFT at the exact root) must agree "
    "within 1e-8 + 1e3 * ||y_ret - y_exact|| (relative to the gradient scale)",
    "forward tolerances are explicit and tight (f_tol = 1e-11; gd/adam: x_tol = 1e-9); backward solvers get explicit "
    "rtol = atol = 1e-11 and a generous iteration limit; kappa(J) <= 4 by construction",
    "bounds: 1e-9 (first order) / 1e-8 (second order) relative to max(1, largest reference gradient entry); 1e-4 for "
    "the default Krylov tolerance (documented rtol 1e-6) when the system has more than 5 unknowns",
    "a backward solve that emits a convergence warning is not judged numerically (only required not to raise); a "
    "forward call that warns is not judged",
    "y0 and unused tensors must receive None or an all-zero gradient; non-tensor parameters cannot receive one",
]
BUDGET_S = {"quick": 900, "thorough": 3000}
INF = float("inf")

RF = ("newton", "broyden1", "broyden2", "linearmixing")
BCKS = ("default", "exactsolve", "cg", "bicgstab", "gmres", "broyden1")
PLACEMENTS = ("explicit", "nnmodule", "editable", "editable_derived", "mixed", "twice", "held_twice")
# + editable_ndfirst / editable_ndlast / nnmodule_ndfirst / nnmodule_ndlast / explicit_view (separate block)


def _methods(functional):
    if functional == "rootfinder":
        return list(RF)
    if functional == "equilibrium":
        return list(RF) + ["anderson_acc"]
    return list(RF) + ["gd", "adam"]


def cases(tier, seed):
    quick = tier == "quick"
    out = []
    if quick:
        nks = [(2, "2n"), (5, "n"), (8, "n")]
        planes = [0]
    else:
        nks = [(2, "n"), (2, "2n"), (5, "n"), (3, "2n"), (8, "n"), (8, "2n")]
        planes = [0, 1]
    for functional in ("rootfinder", "equilibrium", "minimize"):
        if functional == "minimize":
            fams = ["lcosh"] if quick else ["lcosh", "quad"]
        else:
            fams = ["tanh06", "caffine"] if quick else ["tanh06", "affine", "caffine"]
        for method in _methods(functional):
            for family in fams:
                dtype = "complex128" if family == "caffine" else "float64"
                for (n, kind) in nks:
                    for bck in BCKS:
                        for placement in PLACEMENTS:
                            for guess in ("zero", "near", "zero_rg"):
                                for cot in ("dense", "unit", "zero"):
                                    for plane in planes:
                                        # ---- lattice restrictions (documented in RULE): secondary values of a
                                        # dimension are combined with the primary values of the others
                                        if family == "caffine" and (placement not in ("explicit", "editable")
                                                                    or (n, kind) == (8, "2n")):
                                            continue
                                        if cot != "dense" and (placement != "explicit" or guess != "zero"):
                                            continue
                                        if guess == "near" and placement not in ("explicit", "nnmodule"):
                                            continue
                                        if quick:
                                            if family == "caffine" and (bck not in ("exactsolve", "bicgstab", "default")
                                                                        or guess != "zero" or cot != "dense"
                                                                        or method in ("broyden2", "linearmixing")):
                                                continue
                                            if guess == "near" and placement != "explicit":
                                                continue
                                            if cot == "unit":
                                                continue
                                            if placement in ("editable_derived", "nnmodule") and (n, kind) == (5, "n"):
                                                continue
                                            if placement in ("twice", "held_twice") and \
                                                    (bck not in ("exactsolve", "bicgstab") or (n, kind) == (5, "n")):
                                                continue
                                            if method in ("gd", "adam", "linearmixing", "broyden2") and \
                                                    placement not in ("explicit", "mixed"):
                                                continue
                                        if plane > 0 and (placement != "explicit" or guess != "zero" or cot != "dense"):
                                            continue
                                        out.append({"functional": functional, "method": method, "family": family,
                                                    "dtype": dtype, "n": n, "shape": kind, "bck_method": bck,
                                                    "placement": placement, "guess": guess, "cot": cot,
                                                    "plane": plane, "seed": int(seed) if plane > 0 else 0})
    # larger systems for the iterative backward solvers: with 24 unknowns a Krylov iteration does not terminate by
    # exhausting the space, so the tolerance actually used by the (first- and second-order) backward solves is
    # visible in the gradients
    for functional in ("rootfinder", "equilibrium", "minimize"):
        fam = "lcosh" if functional == "minimize" else "tanh06"
        for method in (("newton", "broyden1") if quick else RF):
            for bck in ("bicgstab", "cg", "gmres"):
                for placement in (("explicit", "editable") if quick else PLACEMENTS[:5]):
                    out.append({"functional": functional, "method": method, "family": fam, "dtype": "float64", "n": 24,
                                "shape": "n", "bck_method": bck, "placement": placement, "guess": "zero",
                                "cot": "dense", "plane": 0, "seed": 0})
    # option combinations of the backward solver whose convergence is certain (silence required)
    for functional in ("rootfinder", "equilibrium", "minimize"):
        fam = "lcosh" if functional == "minimize" else "tanh06"
        for method in ("newton", "broyden1"):
            for bck in ("cg_posdef", "bicgstab_dflt"):
                for (n, kind) in ((1, "n"), (1, "n1"), (2, "2n"), (8, "n")):
                    if bck == "bicgstab_dflt" and n != 1:
                        continue
                    for placement in ("explicit", "editable"):
                        out.append({"functional": functional, "method": method, "family": fam, "dtype": "float64",
                                    "n": n, "shape": kind, "bck_method": bck, "placement": placement,
                                    "guess": "zero", "cot": "dense", "plane": 0, "seed": 0})
    # objects holding a non-differentiable tensor before / after the differentiable ones
    for functional in ("rootfinder", "equilibrium", "minimize"):
        fam = "lcosh" if functional == "minimize" else "tanh06"
        for method in (("newton", "broyden1") if quick else _methods(functional)):
            for bck in (("exactsolve", "bicgstab") if quick else BCKS):
                for (n, kind) in ((2, "2n"), (8, "n")):
                    for placement in ("editable_ndfirst", "editable_ndlast", "nnmodule_ndfirst", "nnmodule_ndlast",
                                      "explicit_view"):
                        out.append({"functional": functional, "method": method, "family": fam, "dtype": "float64",
                                    "n": n, "shape": kind, "bck_method": bck, "placement": placement,
                                    "guess": "zero", "cot": "dense", "plane": 0, "seed": 0})
    # only the initial guess requires grad
    for functional in ("rootfinder", "equilibrium", "minimize"):
        fam = "lcosh" if functional == "minimize" else "tanh06"
        for method in ("newton", "broyden1"):
            for bck in ("exactsolve", "bicgstab", "default"):
                for (n, kind) in ((2, "2n"), (8, "n")):
                    for placement in ("explicit", "editable"):
                        out.append({"functional": functional, "method": method, "family": fam, "dtype": "float64",
                                    "n": n, "shape": kind, "bck_method": bck, "placement": placement,
                                    "guess": "zero_rg", "cot": "dense", "plane": 0, "seed": 0, "only_y0": 1})
    # preconditioners in the backward options
    for functional in ("rootfinder", "equilibrium", "minimize"):
        fam = "lcosh" if functional == "minimize" else "tanh06"
        for method in ("newton", "broyden1"):
            for bck in ("bicgstab_pr", "bicgstab_pl", "bicgstab_plr", "cg_pc"):
                for (n, kind) in ((2, "2n"), (8, "n"), (24, "n")):
                    for placement in ("explicit", "editable"):
                        out.append({"functional": functional, "method": method, "family": fam, "dtype": "float64",
                                    "n": n, "shape": kind, "bck_method": bck, "placement": placement,
                                    "guess": "zero", "cot": "dense", "plane": 0, "seed": 0})
    # the object is given other tensors between the forward call and the backward pass
    for functional in ("rootfinder", "equilibrium", "minimize"):
        fam = "lcosh" if functional == "minimize" else "tanh06"
        for method in ("newton", "broyden1"):
            for bck in ("exactsolve", "bicgstab", "default"):
                for (n, kind) in ((2, "2n"), (8, "n")):
                    for placement in ("editable", "nnmodule"):
                        out.append({"functional": functional, "method": method, "family": fam, "dtype": "float64",
                                    "n": n, "shape": kind, "bck_method": bck, "placement": placement,
                                    "guess": "zero", "cot": "dense", "plane": 0, "seed": 0, "mut": 1})
    out.sort(key=lambda c: (c["plane"], c["placement"] != "explicit", c["n"] * (2 if c["shape"] == "2n" else 1)))
    return out


# ------------------------------------------------------------------------------------------------ options

def _fwd_options(cfg):
    m = cfg["method"]
    if m in RF:
        o = dict(f_tol=1e-11, x_tol=INF, f_rtol=INF, x_rtol=INF, maxiter=300, line_search=True)
        if m == "newton":
            o["solver_method"] = "exactsolve"
        else:
            o["alpha"] = -1.0
        return o
    if m == "anderson_acc":
        return dict(f_tol=1e-11, x_tol=INF, f_rtol=INF, x_rtol=INF, maxiter=300, feat_ndims=1, msize=5, beta=1.0,
                    lmbda=1e-4)
    if m == "gd":
        return dict(step=0.5, gamma=0.0, f_tol=0.0, x_tol=1e-10, f_rtol=0.0, x_rtol=0.0, maxiter=4000)
    if m == "adam":
        return dict(step=0.05, beta1=0.9, beta2=0.999, eps=1e-8, f_tol=0.0, x_tol=1e-9, f_rtol=0.0, x_rtol=0.0,
                    maxiter=20000)
    raise KeyError(m)


def _bck_options(cfg, N):
    b = cfg["bck_method"]
    if b == "default":
        return {}
    if b == "exactsolve":
        return {"method": "exactsolve"}
    if b == "cg":
        return {"method": "cg", "posdef": False, "rtol": 1e-11, "atol": 1e-11, "max_niter": 20 * N + 40}
    if b == "cg_posdef":
        # the caller states posdef=True (true for these Jacobians' symmetric part); the Jacobian operator is not
        # flagged Hermitian, so cg still has to work on the normal equations
        return {"method": "cg", "posdef": True, "rtol": 1e-11, "atol": 1e-11, "max_niter": 20 * N + 40}
    if b == "bicgstab_dflt":
        return {"method": "bicgstab"}          # every option at its default, in particular max_niter = int(1.5 N)
    if b == "bicgstab":
        return {"method": "bicgstab", "posdef": True, "rtol": 1e-11, "atol": 1e-11, "max_niter": 20 * N + 40}
    if b in ("bicgstab_pr", "bicgstab_pl", "bicgstab_plr", "cg_pc"):
        # documented preconditioner options of the backward solver (any non-singular operator is admissible; a
        # fixed diagonal scaling): the gradients do not depend on it
        import xitorch as xt
        dt = torch.complex128 if cfg["dtype"] == "complex128" else torch.float64
        P = xt.LinearOperator.m(torch.diag(torch.linspace(0.5, 2.0, N, dtype=torch.float64)).to(dt), is_hermitian=True)
        if b == "cg_pc":
            return {"method": "cg", "posdef": False, "rtol": 1e-11, "atol": 1e-11, "max_niter": 20 * N + 40, "precond": P}
        d = {"method": "bicgstab", "posdef": True, "rtol": 1e-11, "atol": 1e-11, "max_niter": 20 * N + 40}
        if b in ("bicgstab_pr", "bicgstab_plr"):
            d["precond_r"] = P
        if b in ("bicgstab_pl", "bicgstab_plr"):
            d["precond_l"] = P
        return d
    if b == "gmres":
        return {"method": "gmres", "posdef": True, "rtol": 1e-11, "atol": 1e-11, "max_niter": 2 * N + 4}
    if b == "broyden1":
        return {"method": "broyden1", "alpha": -1.0, "f_tol": 1e-11, "x_tol": INF, "f_rtol": INF, "x_rtol": INF,
                "maxiter": 300, "line_search": True}
    raise KeyError(b)


# ------------------------------------------------------------------------------------------------ placements

def _scenario(cfg, prob, leaves):
    """build the callable handed to xitorch and the explicit params tuple.
    returns (fcn, params, diff, pure) where
      diff: list of (name, leaf) to differentiate with respect to (includes an 'unused' leaf for `mixed`)
      pure(y, *leaf_values) -> family map value (g for root/equilibrium families, F for minimize), in plain torch,
            taking the values of the *named differentiable leaves* in `diff` order (unused ones ignored)"""
    import xitorch as xt
    functional, placement = cfg["functional"], cfg["placement"]
    names = prob.names
    base = {"rootfinder": prob.f, "equilibrium": prob.g, "minimize": prob.F}[functional]
    extra = {}

    if placement == "explicit":
        def fcn(y, *p):
            return base(y, *p)
        params = tuple(leaves)
        diff = list(zip(names, leaves))

        def pure(y, *lv):
            return base(y, *lv)
        return fcn, params, diff, pure

    if placement == "twice":
        # the same tensor object at two positions of the explicit parameters (c enters as (c + c') / 2)
        cidx = names.index("c")

        def fcn(y, *p):
            q = list(p[:-1])
            q[cidx] = 0.5 * (q[cidx] + p[-1])
            return base(y, *q)
        params = tuple(leaves) + (leaves[cidx],)
        diff = list(zip(names, leaves))

        def pure(y, *lv):
            return base(y, *lv)
        return fcn, params, diff, pure

    if placement == "explicit_view":
        # two DISTINCT tensor objects sharing one storage among the explicit parameters: the square matrix leaf and
        # its transposed view (the matrix enters as (L + V^T) / 2 with V = L^T)
        midx = [i for i, t in enumerate(leaves) if t.dim() == 2 and t.shape[0] == t.shape[1]][0]

        def fcn(y, *p):
            q = list(p[:-1])
            q[midx] = 0.5 * (q[midx] + p[-1].transpose(0, 1))
            return base(y, *q)
        params = tuple(leaves) + (leaves[midx].transpose(0, 1),)
        diff = list(zip(names, leaves))

        def pure(y, *lv):
            return base(y, *lv)
        return fcn, params, diff, pure

    if placement == "held_twice":
        # a tensor held by the EditableModule is also passed explicitly
        cidx = names.index("c")

        class EModT(xt.EditableModule):
            def __init__(self):
                for nm, t in zip(names, leaves):
                    setattr(self, nm, t)

            def forward(self, y, c2):
                q = [getattr(self, nm) for nm in names]
                q[cidx] = 0.5 * (q[cidx] + c2)
                return base(y, *q)

            def getparamnames(self, methodname, prefix=""):
                if methodname == "forward":
                    return [prefix + nm for nm in names]
                raise KeyError(methodname)
        mod = EModT()
        diff = list(zip(names, leaves))

        def pure(y, *lv):
            return base(y, *lv)
        return mod.forward, (leaves[cidx],), diff, pure

    if placement == "nnmodule":
        class Mod(torch.nn.Module):
            def __init__(self):
                super().__init__()
                for nm, t in zip(names, leaves):
                    setattr(self, nm, torch.nn.Parameter(t.detach().clone()))

            def forward(self, y):
                return base(y, *[getattr(self, nm) for nm in names])
        mod = Mod()
        plist = [getattr(mod, nm) for nm in names]
        diff = list(zip(names, plist))

        def pure(y, *lv):
            return base(y, *lv)
        extra["module"] = mod
        return mod.forward, (), diff, pure

    if placement in ("editable", "editable_derived"):
        derived = placement == "editable_derived"

        class EMod(xt.EditableModule):
            def __init__(self):
                for nm, t in zip(names, leaves):
                    setattr(self, nm, (t * 2.0 - t.detach()) if derived else t)

            def forward(self, y):
                return base(y, *[getattr(self, nm) for nm in names])

            def getparamnames(self, methodname, prefix=""):
                if methodname == "forward":
                    return [prefix + nm for nm in names]
                raise KeyError(methodname)
        mod = EMod()
        diff = list(zip(names, leaves))
        if derived:
            # value unchanged (2t - t), derivative w.r.t. the leaf is 2
            def pure(y, *lv):
                return base(y, *[(t * 2.0 - t.detach()) for t in lv])
        else:
            def pure(y, *lv):
                return base(y, *lv)
        return mod.forward, (), diff, pure

    if placement in ("editable_ndfirst", "editable_ndlast", "nnmodule_ndfirst", "nnmodule_ndlast"):
        # the object holds a NON-differentiable tensor next to the differentiable ones, listed first / last
        # (frozen parameter of a torch.nn.Module): c is effectively c + nd0
        cidx = names.index("c")
        nd0 = (0.05 * torch.cos(torch.arange(prob.tensors[cidx].numel(), dtype=torch.float64) * 1.3 + 0.2)
               ).reshape(prob.shape).to(prob.dtype)
        first = placement.endswith("first")
        order = (["nd0"] + list(names)) if first else (list(names) + ["nd0"])

        def withnd(get):
            q = [get(nm) for nm in names]
            q[cidx] = q[cidx] + get("nd0")
            return q
        if placement.startswith("editable"):
            class EModF(xt.EditableModule):
                def __init__(self):
                    self.nd0 = nd0
                    for nm, t in zip(names, leaves):
                        setattr(self, nm, t)

                def forward(self, y):
                    return base(y, *withnd(lambda nm: getattr(self, nm)))

                def getparamnames(self, methodname, prefix=""):
                    if methodname == "forward":
                        return [prefix + nm for nm in order]
                    raise KeyError(methodname)
            mod = EModF()
            diff = list(zip(names, leaves))
        else:
            class ModF(torch.nn.Module):
                def __init__(self):
                    super().__init__()
                    for nm in order:
                        if nm == "nd0":
                            self.nd0 = torch.nn.Parameter(nd0.clone(), requires_grad=False)
                        else:
                            setattr(self, nm, torch.nn.Parameter(leaves[names.index(nm)].detach().clone()))

                def forward(self, y):
                    return base(y, *withnd(lambda nm: getattr(self, nm)))
            mod = ModF()
            diff = [(nm, getattr(mod, nm)) for nm in names]
            extra["module"] = mod

        def pure(y, *lv):
            ts = list(lv[:len(names)])
            ts[cidx] = ts[cidx] + nd0
            return base(y, *ts)
        return mod.forward, (), diff, pure

    if placement == "mixed":
        # explicit tensors interleaved with non-tensors, a non-differentiable tensor and an unused tensor.
        # the additive parameter c is effectively  c + (fl * it) * nd
        cidx = names.index("c")
        nd = (0.05 * torch.cos(torch.arange(prob.tensors[cidx].numel(), dtype=torch.float64) * 1.7 + 0.3)
              ).reshape(prob.shape).to(prob.dtype)
        unused = torch.full((3,), 0.5, dtype=prob.dtype).requires_grad_()
        fl, it, st = 0.5, 2, "tag"
        k = len(names)

        def assemble(tensors_in_order):
            # order: fl, T0, None, nd, T1, st, T2.., it, unused, Tlast
            seq = [fl, tensors_in_order[0], None, nd, tensors_in_order[1], st]
            seq += list(tensors_in_order[2:k - 1])
            seq += [it, unused, tensors_in_order[k - 1]]
            return seq

        def split(args):
            a = list(args)
            f_, t0, none_, nd_, t1, st_ = a[:6]
            mids = a[6:6 + (k - 3)]
            it_, un_, tl = a[6 + (k - 3):]
            if not (isinstance(f_, float) and none_ is None and isinstance(st_, str) and isinstance(it_, int)
                    and isinstance(nd_, torch.Tensor) and isinstance(un_, torch.Tensor)):
                raise TypeError("parameters arrived in the wrong positions: %s" % [type(x).__name__ for x in a])
            ts = [t0, t1] + mids + [tl]
            ts[cidx] = ts[cidx] + (f_ * it_) * nd_
            return ts

        def fcn(y, *args):
            return base(y, *split(args))
        params = tuple(assemble(leaves))
        diff = list(zip(names, leaves)) + [("unused", unused)]

        def pure(y, *lv):
            ts = list(lv[:k])
            ts[cidx] = ts[cidx] + (fl * it) * nd
            return base(y, *ts)
        return fcn, params, diff, pure
    raise KeyError(placement)


# ------------------------------------------------------------------------------------------------ reference

def _residual_fn(functional, pure, lv):
    """root-form residual r(y) in plain torch whose zero is the returned solution (sign is irrelevant for the IFT)"""
    if functional == "rootfinder":
        return lambda y: pure(y, *lv)
    if functional == "equilibrium":
        return lambda y: y - pure(y, *lv)

    def gradres(y):
        with torch.enable_grad():
            if not y.requires_grad:
                y = y.detach().requires_grad_()
            z = pure(y, *lv)
            return torch.autograd.grad(z, y, create_graph=True)[0]
    return gradres


def _newton_reference(res, yret, shift, nsteps=2):
    """nsteps Newton steps from the detached returned point on res(y) - shift, everything differentiable"""
    from torch.autograd.functional import jacobian
    cplx = yret.is_complex()
    y = yret.detach().clone()
    shape = y.shape
    if not cplx:
        N = y.numel()
        for _ in range(nsteps):
            fr = lambda v: res(v) - shift
            J = jacobian(fr, y, create_graph=True).reshape(N, N)
            r = fr(y).reshape(N)
            y = y - torch.linalg.solve(J, r).reshape(shape)
        return y
    yv = torch.view_as_real(y).contiguous()
    N2 = yv.numel()
    sh = torch.view_as_real(shift) if isinstance(shift, torch.Tensor) else shift
    for _ in range(nsteps):
        fr = lambda v: torch.view_as_real(res(torch.view_as_complex(v.contiguous()))) - sh
        J = jacobian(fr, yv, create_graph=True).reshape(N2, N2)
        r = fr(yv).reshape(N2)
        yv = (yv - torch.linalg.solve(J, r).reshape(yv.shape)).contiguous()
    return torch.view_as_complex(yv)


def _contract(a, b):
    """real number <a, b>"""
    if b.is_complex() or a.is_complex():
        return (a.conj() * b).real.sum()
    return (a * b).sum()


def _fixed(shape, dtype, k):
    N = int(math.prod(shape)) if len(shape) else 1
    v = torch.tensor([math.cos(0.7 + 1.9 * i + 0.37 * k) for i in range(N)], dtype=torch.float64).reshape(shape)
    if dtype.is_complex:
        w = torch.tensor([math.sin(0.2 + 1.3 * i + 0.11 * k) for i in range(N)], dtype=torch.float64).reshape(shape)
        return torch.complex(v, w)
    return v.to(dtype)


def _two_orders(y, wrt, cot, weights):
    """first-order grads of <cot,y> (with graph) and grads of sum_k <weights_k, g1_k>; None for missing"""
    L = _contract(cot, y)
    g1 = torch.autograd.grad(L, wrt, create_graph=True, allow_unused=True)
    terms = [_contract(w, g) for w, g in zip(weights, g1) if g is not None and g.requires_grad]
    if terms:
        L2 = sum(terms)
        g2 = torch.autograd.grad(L2, wrt, allow_unused=True)
    else:
        g2 = tuple(None for _ in wrt)
    return g1, g2


def _jvp_at_zero_cotangent(y, wrt, weights):
    """forward-mode product by double backward: the cotangent w of y is itself a differentiable tensor whose value
    is exactly zero; d/dw sum_k <weights_k, d<w, y>/d theta_k> = (dy/dtheta) . weights.  (A backward pass that takes a
    shortcut for an all-zero incoming gradient must still record how its result depends on that gradient.)"""
    w0 = torch.zeros_like(y.detach()).requires_grad_()
    L = _contract(w0, y)
    g1 = torch.autograd.grad(L, wrt, create_graph=True, allow_unused=True)
    terms = [_contract(w, g) for w, g in zip(weights, g1) if g is not None and g.requires_grad]
    if not terms:
        return None
    h, = torch.autograd.grad(sum(terms), [w0], allow_unused=True, retain_graph=True)
    return h


def _cmp(tag, names, got, ref, tol, viol, obs, order, zero_names):
    scale = max([1.0] + [float(r.detach().abs().max()) for r in ref if r is not None and r.numel()])
    worst = 0.0
    for nm, g, r in zip(names, got, ref):
        gz = torch.zeros(1) if g is None else g.detach()
        if nm in zero_names:
            if g is not None and float(gz.abs().max()) != 0.0:
                viol.append(V("gradient-leaks-to:%s" % ("y0" if nm == "y0" else "unused"),
                              {"max_abs": float(gz.abs().max()), "order": order}, order=order, wrt=nm))
            continue
        rz = None if r is None else r.detach()
        if rz is None:
            rz = torch.zeros_like(gz) if g is not None else None
        if g is None:
            if rz is not None and float(rz.abs().max()) > tol * scale:
                viol.append(V("%s:%s" % (tag, nm), {"got": None, "reference_max_abs": float(rz.abs().max()),
                                                    "order": order}, order=order, wrt=nm))
            continue
        if tuple(gz.shape) != tuple(rz.shape):
            viol.append(V("grad-shape:%s" % nm, {"got": list(gz.shape), "reference": list(rz.shape)},
                          order=order, wrt=nm))
            continue
        d = float((gz - rz).abs().max()) if gz.numel() else 0.0
        if math.isnan(d):
            d = INF
        worst = max(worst, d / scale)
        if not (d <= tol * scale):
            viol.append(V("%s:%s" % (tag, nm), {"max_abs_diff": d, "reference_scale": scale, "bound": tol * scale,
                                                "order": order}, order=order, wrt=nm))
    obs["%s%d" % ("e" if tag == "grad-mismatch" else "i", order)] = rnd(worst, 2)


def _exc_class(o, where):
    import re
    msg = str(o.exc).strip().split("\n")[0]
    stem = re.sub(r"\[[^\]]*\]", "[..]", msg)
    stem = re.sub(r"[0-9]+", "#", stem)[:60]
    return "exception:%s:%s:%s" % (where, type(o.exc).__name__, stem.strip())


def run_case(cfg):
    from xitorch.optimize import rootfinder, equilibrium, minimize
    functional = cfg["functional"]
    prob = Problem(cfg["family"], cfg["n"], cfg["shape"], cfg["dtype"], centred=False, plane=cfg["plane"],
                   seed=cfg["seed"])
    N = int(math.prod(prob.shape))
    leaves = [t.detach().clone().requires_grad_() for t in prob.tensors]
    if cfg.get("only_y0"):
        # nothing but the initial guess requires grad (its gradient is zero / absent; the call must not fail)
        leaves = [t.detach().clone() for t in prob.tensors]
    fcn, params, diff, pure = _scenario(cfg, prob, leaves)
    if cfg.get("only_y0"):
        diff = []
    names = [nm for nm, _ in diff]
    wrt = [t for _, t in diff]
    zero_names = {"unused"}

    # initial guess
    yc = prob.tensors[prob.names.index("yc")]
    if cfg["guess"] == "near":
        y0 = (yc + 0.05 * _fixed(prob.shape, prob.dtype, 5)).contiguous()
    else:
        y0 = torch.zeros_like(yc)
    if cfg["guess"] == "zero_rg":
        y0 = y0.requires_grad_()
        names = names + ["y0"]
        wrt = wrt + [y0]
        zero_names.add("y0")

    fun = {"rootfinder": rootfinder, "equilibrium": equilibrium, "minimize": minimize}[functional]
    fwd = _fwd_options(cfg)
    bck = _bck_options(cfg, N)
    viol, obs = [], {}

    torch.manual_seed(0)
    o = call(fun, fcn, y0, params=params, bck_options=bck, method=cfg["method"], **fwd)
    if o.exc is not None:
        viol.append(V(_exc_class(o, "forward"), {"message": str(o.exc)[:300]}))
        return {"viol": viol, "obs": {"status": "fwd-exception"}, "status": "exception"}
    y = o.value
    if o.warned:
        return {"viol": [], "obs": {"status": "fwd-warned", "w": o.warnings[:1]}, "status": "fwd-warned",
                "trivial": True}
    if tuple(y.shape) != tuple(y0.shape) or y.dtype != y0.dtype:
        return {"viol": [V("forward-shape-or-dtype", {"shape": list(y.shape), "dtype": str(y.dtype)})],
                "obs": {"status": "fwd-misshaped"}, "status": "violation"}

    if cfg.get("mut"):
        # object history: after the forward call the owner gives the object OTHER tensors (the next problem of a loop
        # that re-uses one module); the gradients of the first solution are those of the first problem
        owner = getattr(fcn, "__self__", None)
        for nm in prob.names:
            old = getattr(owner, nm)
            with torch.no_grad():
                val = old.detach() * 1.3 + 0.2
            setattr(owner, nm, torch.nn.Parameter(val) if isinstance(old, torch.nn.Parameter)
                    else val.requires_grad_(old.requires_grad))

    # cotangent and second-order weights
    if cfg["cot"] == "dense":
        cot = _fixed(prob.shape, prob.dtype, 1)
    elif cfg["cot"] == "unit":
        cot = torch.zeros(prob.shape, dtype=prob.dtype)
        cot.reshape(-1)[N // 2] = 1.0
    else:
        cot = torch.zeros(prob.shape, dtype=prob.dtype)
    weights = [_fixed(t.shape, t.dtype, 10 + k) for k, t in enumerate(wrt)]

    # ---- the implementation's gradients
    oj = None
    if cfg["cot"] == "zero":
        torch.manual_seed(0)
        oj = call(_jvp_at_zero_cotangent, y, wrt, weights)      # before the graph of y is consumed below
    torch.manual_seed(0)
    og = call(_two_orders, y, wrt, cot, weights)
    if og.exc is not None:
        viol.append(V(_exc_class(og, "backward"), {"message": str(og.exc)[:300]}))
        return {"viol": viol, "obs": {"status": "bck-exception"}, "status": "exception"}
    g1, g2 = og.value
    bck_warned = og.warned
    if cfg.get("only_y0"):
        # nothing to compare: the solution does not depend on the initial guess; its gradient is zero or absent
        bad = [k for k, g in enumerate(list(g1) + list(g2 or [])) if g is not None and float(g.abs().max()) != 0.0]
        if bad:
            viol.append(V("unused-grad-nonzero:y0", {"entries": bad}))
        return {"viol": viol, "obs": {"status": "only-y0", "none": [g is None for g in g1]},
                "status": "violation" if viol else "ok"}

    # ---- references (plain torch; independent leaves)
    rl = [t.detach().clone().requires_grad_() for t in prob.tensors]
    nref = len(rl)
    res = _residual_fn(functional, pure, rl)
    with torch.no_grad():
        pass
    r0 = res(y.detach()).detach()
    ref_wrt = list(rl)
    ref_names = list(prob.names)
    y_at = _newton_reference(res, y, r0, nsteps=2)                 # IFT at the returned point
    y_ex = _newton_reference(res, y, torch.zeros_like(r0), nsteps=3)  # IFT at the exact root
    wmap = dict(zip(names, weights))
    rweights = [wmap[nm] for nm in ref_names]
    hr_ref = _jvp_at_zero_cotangent(y_at, ref_wrt, rweights) if oj is not None else None
    a1, a2 = _two_orders(y_at, ref_wrt, cot, rweights)
    e1, e2 = _two_orders(y_ex, ref_wrt, cot, rweights)
    fwd_err = flat_norm(y.detach() - y_ex.detach())
    obs["fwd_err"] = rnd(fwd_err, 2)
    obs["r0"] = rnd(flat_norm(r0), 2)

    def expand(ref):
        m = dict(zip(ref_names, ref))
        return [m.get(nm) for nm in names]

    # ---- bounds
    if cfg["bck_method"] == "default" and N > 5:
        t1, t2 = 1e-4, 1e-3
    else:
        # explicit backward tolerance 1e-11, kappa(J) <= 4: kappa * rtol per solve, two nested solves and a factor 10
        # for the second order  =>  4e-11 / 1.6e-9; bounds one decade above (observed on a conforming tree <= 2e-11)
        t1, t2 = 1e-9, 1e-8
    if bck_warned:
        # silence is required where convergence is certain: cg on the normal equations of a system with
        # kappa <= 4 within 20 N + 40 iterations; bicgstab with its default budget on ONE unknown (a 1 x 1 system
        # is solved by the first iteration)
        if cfg["bck_method"] == "cg_posdef" or (cfg["bck_method"] == "bicgstab_dflt" and N == 1):
            viol.append(V("backward-solver-warned-on-a-well-conditioned-system",
                          {"bck_options": {k: (v if isinstance(v, (int, float, str, bool)) else str(v))
                                           for k, v in _bck_options(cfg, N).items()}, "unknowns": N}))
            return {"viol": viol, "obs": obs, "status": "violation"}
        obs["status"] = "bck-warned"
        return {"viol": viol, "obs": obs, "status": "bck-warned"}
    _cmp("grad-mismatch", names, g1, expand(a1), t1, viol, obs, 1, zero_names)
    _cmp("grad-mismatch", names, g2, expand(a2), t2, viol, obs, 2, zero_names)
    if oj is not None:
        if oj.exc is not None:
            viol.append(V(_exc_class(oj, "jvp-at-zero-cotangent"), {"message": str(oj.exc)[:300]}))
        elif not oj.warned:
            hr = hr_ref
            hl = oj.value
            hz = torch.zeros_like(y.detach())
            hl = hz if hl is None else hl.detach()
            hr = hz if hr is None else hr.detach()
            sc = max(1.0, float(hr.abs().max()))
            ej = float((hl - hr).abs().max())
            obs["jvp0"] = rnd(ej / sc, 2)
            if not ej <= t2 * sc:
                viol.append(V("jvp-at-zero-cotangent-mismatch", {"max_abs_err": ej, "tol": t2 * sc,
                                                                 "got_max": float(hl.abs().max()),
                                                                 "reference_max": float(hr.abs().max())}, order=2))
    ti = 1e3 * fwd_err
    _cmp("grad-depends-on-forward-path", names, g1, expand(e1), t1 + ti, viol, obs, 1, set(zero_names))
    _cmp("grad-depends-on-forward-path", names, g2, expand(e2), t2 + 10 * ti, viol, obs, 2, set(zero_names))
    # dedupe leak reports (they are emitted by both comparisons)
    seen, uniq = set(), []
    for v in viol:
        k = (v["failure"], v["at"].get("order"), v["at"].get("wrt"))
        if k not in seen:
            seen.add(k)
            uniq.append(v)
    obs["status"] = "ok" if not uniq else "violation"
    return {"viol": uniq, "obs": obs, "status": obs["status"], "n": 1}


def coverage_extra(tier, seed, results):
    by = {}
    worst = {"e1": 0.0, "e2": 0.0, "i1": 0.0, "i2": 0.0}
    for r in results:
        c = r["cfg"]
        o = r.get("obs") or {}
        k = "%s/%s/%s:%s" % (c["functional"], c["method"], c["bck_method"], o.get("status", r["status"]))
        by[k] = by.get(k, 0) + 1
        for kk in worst:
            if isinstance(o.get(kk), (int, float)) and o.get(kk) == o.get(kk):
                worst[kk] = max(worst[kk], o[kk])
    st = {}
    for k, v in by.items():
        s = k.split(":")[-1]
        st[s] = st.get(s, 0) + v
    return {"status_totals": st,
            "largest_relative_deviation_from_reference(e=at returned point, i=at exact root; order)": worst,
            "non_ok_by_functional_method_bck": {k: v for k, v in by.items() if not k.endswith(":ok")}}
