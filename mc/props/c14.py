"""C14 -- Interp1D evaluates the declared interpolant of the samples.

Every point of a finite lattice (method x boundary condition x extrapolation mode x grid x number of knots x
ordering of the samples x where y is supplied x batch shape of y x x.requires_grad x dtype) is executed on the real
`xitorch.interpolate.Interp1D`; inside a case every query set of a fixed list is evaluated for the zero vector,
every unit vector and one dense vector, so that the interpolation matrix itself is observed (engine E4).
Oracles: (1) scipy.interpolate.CubicSpline / numpy.interp on the same data, (2) scipy-free identities computed
from the implementation's own values (knot reproduction, C2, end conditions, linearity, agreement of the two
internal formulas), (3) numpy models of the documented extrapolation modes, (4) autograd derivatives in y, in the
queries and in x against the reference."""
from __future__ import annotations
import math
import numpy as np
import torch

from mc.util import V, call, rnd
from mc.props import _interp_common as ic

ID = "C14"
LEVEL = "exploration"
DESIGN_REF = "DESIGN.md §5 C14"
RULE = ("case = (method/bc in {linear, cspline x (None, not-a-knot, natural, clamped, periodic)}, extrap in "
        "{None, nan, float, 0-d tensor, callable, bound, mirror, periodic}, grid in {uniform, cheb, geom[, jitter "
        "planes]}, nknots, order in {sorted+assume_sorted, sorted, reversed, shuffled}, yat in {init, call, both}, "
        "ybatch in {(), (2,), (2,3)}, xgrad, dtype); quick = product A (all method/bc x extrap x grid x "
        "nknots{3,4,5,8} x order x yat at ybatch=(), no xgrad, float64) + product B (all method/bc x "
        "extrap{None,callable,mirror,periodic} x grid{cheb} x nknots{4,5} x order{sorted,shuffled} x yat x ybatch "
        "x xgrad x dtype) + product C (method/bc x grid x nknots{3,4,5,8,24} x xgrad at extrap=None); thorough = "
        "the full product with nknots{3,4,5,8,24} + seed-dependent jitter-grid planes; inside a case 14 query sets "
        "(knots, ends, midpoints, 1 point, all third-points at once (> n queries, formula A) and in chunks of n "
        "(formula B), n+1 points, outside only, mixed small/large shuffled, empty) x (zero, every unit vector, one "
        "dense vector) are evaluated, then 3 gradient query sets; distinct = distinct rounded error/observation "
        "records; a case is trivial when construction raised")
RULE_ADDED = 'Added later: falsy extrapolation constants, one object called with differently batched y in a row, call-order plane in fresh interpreters. Round 4: batch shape (3, 1), query set inOutIn (first and last query inside, the others outside). Round 6: one sample buffer refilled in place between two calls on one object. Round 7: cspline gradient query sets gK / gKs (queries bitwise equal to interior sample positions, more and fewer queries than samples).'
ASSUMPTIONS = [
    "x and xq are 1-D (batched x/xq with extrapolation is documented as unimplemented); y carries the batch",
    "sample vectors respect the documented precondition y[0] == y[-1] whenever extrap or bc_type is periodic",
    "assume_sorted=True is only combined with sorted x (caller's contract)",
    "for bc_type='periodic' with extrap=None both the documented default ('nan') and the implemented periodic "
    "continuation are accepted",
    "for 3 knots with not-a-knot the cubic is not unique: any single cubic through the samples is accepted",
    "a missing warning when y is given twice is recorded, not judged (only 'ignored' is documented)",
    "derivative-based identities (C2, end conditions) are evaluated in float64 only",
]
BUDGET_S = {"quick": 400, "thorough": 2400}
SELFTEST_N = 3

MB = [("linear", "None"), ("cspline", "None"), ("cspline", "not-a-knot"), ("cspline", "natural"),
      ("cspline", "clamped"), ("cspline", "periodic")]
# zero_int / zero_float / zero_tensor: the constants 0, 0.0 and tensor(0.) (falsy values are legal constants)
EXTRAPS = ["None", "nan", "const", "tensor0d", "callable", "bound", "mirror", "periodic", "zero_int", "zero_float",
           "zero_tensor"]
ORDERS = ["sorted_assume", "sorted", "reversed", "shuffled"]
YATS = ["init", "call", "both"]
YBATCH = {"0d": (), "2": (2,), "2x3": (2, 3), "3x1": (3, 1)}     # 3x1: a non-leading batch axis of length 1
CONST_VAL = 1.5
TENSOR_VAL = -0.75


def _extrap_fn(t):
    return 2.0 * t + 0.5


# tolerances: absolute error of a matrix entry relative to max(1, largest reference entry).
# float64: the statement's "equals the reference" is taken as 1e-10; on the grids used here (spacing ratio <= 20,
# <= 24 knots) a correct implementation reproduces the matrix to ~3e-14 (measured), a wrong coefficient or interval
# index gives >= 1e-3.  float32: rounding of the slope system grows like eps * n * (max spacing / min spacing);
# measured errors are ~0.3 of that product, the bound below is 64 times it (<= 3e-3 for 24 clustered knots).
EPS = {"float64": 2.220446049250313e-16, "float32": 1.1920928955078125e-07}


def tolerances(dtn, xs):
    n = len(xs)
    dx = np.diff(xs)
    kappa = n * float(dx.max() / dx.min())
    if dtn == "float64":
        return {"val": 1e-10, "form": 1e-11, "grad": 1e-8, "gx": 1e-5}
    t = 64 * EPS[dtn] * kappa
    return {"val": t, "form": t, "grad": 8 * t, "gx": max(1e-5, 8 * t)}


TOL_C2 = 1e-8                                            # float64 only, relative to local derivative scale


# ------------------------------------------------------------------ lattice

def _cfg(method, bc, extrap, grid, n, order, yat, ybatch, xgrad, dtype, plane=0, seed=0):
    return {"method": method, "bc": bc, "extrap": extrap, "grid": grid, "nknots": n, "order": order, "yat": yat,
            "ybatch": ybatch, "xgrad": xgrad, "dtype": dtype, "plane": plane, "seed": seed if plane else 0}


def cases(tier, seed):
    out = []
    seen = set()

    def add(c):
        k = tuple(sorted(c.items()))
        if k not in seen:
            seen.add(k)
            out.append(c)
    if tier == "quick":
        for n in (3, 4, 5, 8):
            for (m, bc) in MB:
                for ex in EXTRAPS:
                    for g in ("uniform", "cheb", "geom"):
                        for od in ORDERS:
                            for yat in YATS:
                                add(_cfg(m, bc, ex, g, n, od, yat, "0d", 0, "float64"))
        for n in (4, 5):
            for (m, bc) in MB:
                for ex in ("None", "callable", "mirror", "periodic"):
                    for od in ("sorted", "shuffled"):
                        for yat in YATS:
                            for yb in YBATCH:
                                for xg in (0, 1):
                                    for dt in ("float64", "float32"):
                                        add(_cfg(m, bc, ex, "cheb", n, od, yat, yb, xg, dt))
        for n in (3, 4, 5, 8, 24):
            for (m, bc) in MB:
                for g in ("uniform", "cheb", "geom"):
                    for xg in (0, 1):
                        add(_cfg(m, bc, "None", g, n, "sorted", "init", "0d", xg, "float64"))
        # one object called with differently batched y in a row (y given at call time)
        for n in (4, 5):
            for (m, bc) in MB:
                for od in ("sorted", "shuffled"):
                    for yb in YBATCH:
                        c = _cfg(m, bc, "mirror", "cheb", n, od, "call", yb, 0, "float64")
                        c["mixbatch"] = 1
                        add(c)
        # one object called twice with ONE sample buffer that is refilled in place between the calls
        for n in (4, 5):
            for (m, bc) in MB:
                for od in ("sorted", "sorted_assume", "shuffled"):
                    for yb in YBATCH:
                        c = _cfg(m, bc, "mirror", "cheb", n, od, "call", yb, 0, "float64")
                        c["inplace"] = 1
                        add(c)
    else:
        for n in (3, 4, 5, 8, 24):
            for (m, bc) in MB:
                for ex in EXTRAPS:
                    for g in ("uniform", "cheb", "geom"):
                        for od in ORDERS:
                            for yat in YATS:
                                for yb in YBATCH:
                                    for xg in (0, 1):
                                        for dt in ("float64", "float32"):
                                            if n == 24 and yb == "2" :
                                                continue        # keep () and (2,3) for the largest grid
                                            add(_cfg(m, bc, ex, g, n, od, yat, yb, xg, dt))
        # seed-dependent value planes: jittered grids and other dense vectors
        for plane in (1, 2, 3):
            for n in (3, 4, 5, 8, 24):
                for (m, bc) in MB:
                    for ex in EXTRAPS:
                        for od in ("sorted", "shuffled"):
                            for yat in ("init", "call"):
                                add(_cfg(m, bc, ex, "jitter", n, od, yat, "0d", 0, "float64", plane, seed))
    return out


# ------------------------------------------------------------------ reference (cached per worker process)

_CACHE = {}


def _ref_matrix(xs, method, bc, basis, xq, nu=0, free=None):
    key = (xs.tobytes(), method, bc, basis.shape[1], np.asarray(xq, dtype=np.float64).tobytes(), nu,
           None if free is None else (free[0], np.asarray(free[1]).tobytes()))
    r = _CACHE.get(key)
    if r is None:
        if len(_CACHE) > 4000:
            _CACHE.clear()
        r = ic.interp_matrix(xs, method, bc, basis, xq, nu=nu, free=free)
        _CACHE[key] = r
    return r


def eff_extrap(method, bc, extrap):
    """documented resolution of extrap=None"""
    if extrap != "None":
        return extrap
    if method == "cspline" and bc == "clamped":
        return "mirror"
    if method == "cspline" and bc == "periodic":
        return "nan|periodic"       # documented: nan; implemented: periodic -> either accepted
    return "nan"


def reference(xs, method, bc, basis, mode, xq, nu=0, free=None):
    """returns (M (nq, nb), off (nq,), nanrow (nq,) bool): value for sample vector y = basis @ c is M @ c + off.
    nu = 1: derivative with respect to the query position (off = derivative of the y-independent part)"""
    a, b = xs[0], xs[-1]
    xq = np.asarray(xq, dtype=np.float64)
    nq = xq.size
    nb = basis.shape[1]
    M = np.zeros((nq, nb))
    off = np.zeros(nq)
    nanrow = np.zeros(nq, dtype=bool)
    inside = (xq >= a) & (xq <= b)
    outside = ~inside
    if inside.any():
        M[inside] = _ref_matrix(xs, method, bc, basis, xq[inside], nu, free)
    if outside.any():
        if mode == "nan":
            nanrow[outside] = True
        elif mode == "const":
            off[outside] = CONST_VAL if nu == 0 else 0.0
        elif mode == "tensor0d":
            off[outside] = TENSOR_VAL if nu == 0 else 0.0
        elif mode in ("zero_int", "zero_float", "zero_tensor"):
            off[outside] = 0.0
        elif mode == "callable":
            off[outside] = _extrap_fn(xq[outside]) if nu == 0 else 2.0
        else:
            xm, s = ic.extrap_map(xq[outside], a, b, mode)
            R = _ref_matrix(xs, method, bc, basis, xm, nu, free)
            M[outside] = R if nu == 0 else R * s[:, None]
    return M, off, nanrow


# ------------------------------------------------------------------ query sets

def query_sets(xs, dtype):
    """ordered list of (name, float64 numpy array whose entries are exactly representable in dtype)"""
    n = len(xs)
    a, b = xs[0], xs[-1]
    L = b - a
    dx = np.diff(xs)
    thirds = np.concatenate([np.stack([xs[:-1], xs[:-1] + dx / 3.0, xs[:-1] + 2.0 * dx / 3.0], axis=1).reshape(-1),
                             [b]])
    thirds = _round(thirds, dtype)
    outside = np.array([a - 0.3 * L, a - 0.9 * L, a - L, a - 2.3 * L, b + 0.4 * L, b + 0.8 * L, b + 2.0 * L,
                        b + 2.6 * L])
    big = np.concatenate([thirds, outside])
    big = big[ic.fixed_perm(len(big))]
    sets = [("thirdsA", thirds)]
    for k in range(0, len(thirds), n):
        sets.append(("thirdsB%d" % (k // n), thirds[k:k + n]))
    sets += [
        ("knots", xs.copy()),
        ("ends", np.array([a, b])),
        ("mid", (xs[:-1] + xs[1:]) / 2.0),
        ("one", thirds[1:2]),
        ("cross", thirds[:n + 1]),
        ("shufB", thirds[:n][ic.fixed_perm(n)]),
        ("outside", outside),
        ("mixS", np.array([b + 0.4 * L, thirds[1], a - 0.3 * L])),
        # unsorted, FIRST and LAST query inside the sample range, the others outside on both sides
        ("inOutIn", np.array([thirds[1], a - 0.3 * L, b + 0.4 * L, a - 0.9 * L, thirds[2]])),
        ("mixL", big),
        ("empty", np.zeros(0)),
    ]
    return [(nm, _round(q, dtype)) for nm, q in sets], thirds


def grad_query_sets(xs, dtype, method=None):
    n = len(xs)
    a, b = xs[0], xs[-1]
    L = b - a
    dx = np.diff(xs)
    inner = np.stack([xs[:-1] + dx / 3.0, xs[:-1] + 2.0 * dx / 3.0], axis=1).reshape(-1)     # no knots
    outside = np.array([a - 0.3 * L, a - 0.9 * L, a - 2.3 * L, b + 0.4 * L, b + 0.8 * L, b + 2.6 * L])
    big = np.concatenate([inner, outside])
    big = big[ic.fixed_perm(len(big))]
    gsets = [("gL", _round(big, dtype)), ("gS", _round(np.array([inner[1], a - 0.3 * L, b + 0.4 * L]), dtype))]
    if method == "cspline" and n >= 3:
        # the cubic spline is C^2: its derivative at an interior sample position is defined, whichever piece is used
        # (more queries than samples, and fewer)
        knots = np.asarray(xs[1:-1], dtype=np.float64)
        gsets.append(("gK", np.concatenate([_round(inner, dtype), knots])))
        gsets.append(("gKs", knots[: max(1, n - 2)].copy()))
    return gsets, [("gxA", _round(inner, dtype)), ("gxB", _round(inner[:n], dtype))]


def _round(q, dtype):
    return torch.tensor(np.asarray(q, dtype=np.float64), dtype=torch.float64).to(dtype).to(torch.float64).numpy().copy()


# ------------------------------------------------------------------ one case

class _Abort(Exception):
    pass


def run_case(cfg):
    from xitorch.interpolate import Interp1D
    method, bc, extrap = cfg["method"], cfg["bc"], cfg["extrap"]
    n, order, yat = cfg["nknots"], cfg["order"], cfg["yat"]
    dtn = cfg["dtype"]
    dtype = ic.DTYPES[dtn]
    ybatch = YBATCH[cfg["ybatch"]]
    xgrad = bool(cfg["xgrad"])
    plane = cfg.get("plane", 0)
    seed = cfg.get("seed", 0)
    viol = []
    seen_v = set()
    obs = {}
    nexec = [0]

    def add(failure, detail=None, **at):
        k = (failure, at.get("qset"), at.get("stage"))
        if k in seen_v:
            return
        seen_v.add(k)
        viol.append(V(failure, detail, **at))

    x_t, xs = ic.grid(cfg["grid"], n, dtype, seed, plane)
    a, b = xs[0], xs[-1]
    if order in ("sorted_assume", "sorted"):
        perm = list(range(n))
    elif order == "reversed":
        perm = list(range(n - 1, -1, -1))
    else:
        perm = ic.fixed_perm(n)
    perm_t = torch.tensor(perm, dtype=torch.long)
    periodic_y = (extrap == "periodic") or (method == "cspline" and bc == "periodic")
    basis = ic.basis_np(n, periodic_y)                    # (n, nb), sorted order
    nb = basis.shape[1]
    coef = ic.dense_coeffs(nb, seed, plane)
    vec_sorted = np.concatenate([np.zeros((n, 1)), basis, (basis @ coef)[:, None]], axis=1)   # (n, nb + 2)
    nvec = nb + 2
    vec_t = torch.tensor(vec_sorted.T.copy(), dtype=torch.float64).to(dtype)                 # (nvec, n) sorted
    vec_exact = vec_t.to(torch.float64).numpy()                                              # rounded to dtype
    coefs_all = np.concatenate([np.zeros((1, nb)), np.eye(nb), coef[None, :]], axis=0)       # (nvec, nb)
    vec_given = vec_t[:, perm_t]                                                             # given order

    # pack the vectors into batches of the requested shape
    B = int(np.prod(ybatch)) if ybatch else 1
    groups = []
    for k in range(0, nvec, B):
        idx = list(range(k, min(k + B, nvec)))
        while len(idx) < B:
            idx.append(nvec - 1)
        groups.append(idx)

    def pack(idx):
        return vec_given[torch.tensor(idx)].reshape(tuple(ybatch) + (n,)).clone()

    # the constructor arguments
    if extrap == "None":
        ex_arg = None
    elif extrap == "const":
        ex_arg = CONST_VAL
    elif extrap == "tensor0d":
        ex_arg = torch.tensor(TENSOR_VAL, dtype=dtype)
    elif extrap == "zero_int":
        ex_arg = 0
    elif extrap == "zero_float":
        ex_arg = 0.0
    elif extrap == "zero_tensor":
        ex_arg = torch.tensor(0.0, dtype=dtype)
    elif extrap == "callable":
        ex_arg = _extrap_fn
    else:
        ex_arg = extrap
    kwargs = {"method": method, "assume_sorted": order == "sorted_assume", "extrap": ex_arg}
    if method == "cspline":
        kwargs["bc_type"] = None if bc == "None" else bc
    xg = x_t[perm_t].clone()
    if xgrad:
        xg.requires_grad_()

    def construct(Y):
        o = call(Interp1D, xg, Y, **kwargs) if Y is not None else call(Interp1D, xg, **kwargs)
        nexec[0] += 1
        if o.exc is not None:
            add("exception:%s" % o.exc_sig, {"stage": "init"}, stage="init")
            raise _Abort()
        return o.value

    warned_both = []
    inplace_buf = {}

    def evaluate(obj, Y, xq_t, qname):
        if yat == "init":
            o = call(obj, xq_t)
        elif yat == "call":
            if cfg.get("mixbatch"):
                # call history on ONE object: first a call with a differently batched y (result discarded)
                pb = (3,) if tuple(Y.shape[:-1]) != (3,) else (2, 2)
                call(obj, xq_t, torch.linspace(0.0, 1.0, int(np.prod(pb)) * Y.shape[-1], dtype=Y.dtype).reshape(pb + (Y.shape[-1],)))
                nexec[0] += 1
            if cfg.get("inplace"):
                # call history on ONE object and ONE sample buffer: the buffer holds other samples at the first
                # call (result discarded) and is refilled in place before the judged call
                buf = inplace_buf.setdefault(id(obj), torch.empty_like(Y))
                with torch.no_grad():
                    buf.copy_(torch.cos(3.0 * Y) - 0.5 * Y)
                call(obj, xq_t, buf)
                nexec[0] += 1
                with torch.no_grad():
                    buf.copy_(Y)
                o = call(obj, xq_t, buf)
            else:
                o = call(obj, xq_t, Y)
        else:
            o = call(obj, xq_t, Y.flip(-1) * 0.5 + 3.0)
            warned_both.append(len(o.warnings) > 0)
        nexec[0] += 1
        if o.exc is not None:
            add("exception:%s" % o.exc_sig, {"stage": "call", "qset": qname}, stage="call", qset=qname)
            return None
        return o.value

    qsets, thirds = query_sets(xs, dtype)
    tols = tolerances(dtn, xs)
    tol = tols["val"]
    errs = {}
    try:
        # ---- build the objects
        if yat == "call":
            shared = construct(None)
            objs = [shared for _ in groups]
        else:
            objs = [construct(pack(idx)) for idx in groups]
        Ys = [pack(idx) for idx in groups]

        # ---- evaluate every query set for every vector
        results = {}
        for qname, q in qsets:
            xq_t = torch.tensor(q, dtype=torch.float64).to(dtype)
            res = np.full((nvec, q.size), np.nan)
            got = np.zeros(nvec, dtype=bool)
            ok = True
            for gi, idx in enumerate(groups):
                val = evaluate(objs[gi], Ys[gi], xq_t, qname)
                if val is None:
                    ok = False
                    break
                if not isinstance(val, torch.Tensor) or tuple(val.shape) != tuple(ybatch) + (q.size,):
                    add("shape-mismatch", {"got": list(getattr(val, "shape", [])),
                                           "want": list(ybatch) + [q.size]}, qset=qname)
                    ok = False
                    break
                if val.dtype != dtype:
                    add("dtype-mismatch", {"got": str(val.dtype), "want": str(dtype)}, qset=qname)
                flat = val.detach().to(torch.float64).reshape(B, q.size).numpy()
                for s, vi in enumerate(idx):
                    if not got[vi]:
                        res[vi] = flat[s]
                        got[vi] = True
                    elif not np.array_equal(res[vi], flat[s], equal_nan=True) and \
                            not np.allclose(res[vi], flat[s], rtol=0, atol=tol, equal_nan=True):
                        add("batch-slot-dependence", {"vector": int(vi)}, qset=qname)
            if ok:
                results[qname] = res

        # ---- resolve the two accepted readings
        mode = eff_extrap(method, bc, extrap)
        if mode == "nan|periodic":
            r = results.get("outside")
            mode = "nan" if (r is not None and np.isnan(r).all()) else "periodic"
            obs["default_extrap_for_periodic_bc"] = mode
        free = None
        if method == "cspline" and n == 3 and bc in ("None", "not-a-knot") and "thirdsA" in results:
            rA = results["thirdsA"]
            fv = rA[1:1 + nb, 1] - rA[0, 1]
            if np.all(np.isfinite(fv)):
                free = (float(thirds[1]), fv)

        # ---- oracle 1: against the reference, per query set
        for qname, q in qsets:
            if qname not in results:
                continue
            res = results[qname]
            M, off, nanrow = reference(xs, method, bc, basis, mode, q, 0, free)
            exp = coefs_all @ M.T + off[None, :]                   # (nvec, nq)
            # the reference uses the vectors exactly as rounded to dtype: dense vector rounding is below tol
            exp[:, nanrow] = np.nan
            if q.size == 0:
                errs[qname] = 0.0
                continue
            if not np.array_equal(np.isnan(res), np.isnan(exp)):
                add("nan-pattern-mismatch", {"mode": mode, "xq": rnd(torch.tensor(q)),
                                             "got_nan": np.isnan(res).any(axis=0).tolist()[:32],
                                             "want_nan": nanrow.tolist()[:32]}, qset=qname)
                continue
            fin = ~np.isnan(exp)
            scale = max(1.0, float(np.abs(exp[fin]).max()) if fin.any() else 1.0)
            d = np.abs(np.where(fin, res - exp, 0.0))
            e = float(d.max()) / scale
            errs[qname] = e
            if not e <= tol:
                vi, qi = np.unravel_index(int(np.argmax(d)), d.shape)
                inside_q = bool(a <= q[qi] <= b)
                kind = "interp-mismatch" if inside_q else "extrap-mismatch:%s" % mode
                add(kind, {"err": e, "tol": tol, "xq": float(q[qi]), "vector": int(vi), "got": float(res[vi, qi]),
                           "ref": float(exp[vi, qi])}, qset=qname, where="inside" if inside_q else "outside")
            # linearity in y, from the implementation's values alone
            z = res[0]
            Mi = res[1:1 + nb] - z[None, :]
            lin = coef @ Mi + z
            dl = np.abs(np.where(np.isnan(lin), 0.0, lin - res[nvec - 1]))
            el = float(dl.max()) / scale
            if not el <= tol:
                add("nonlinear-in-y", {"err": el, "tol": tol}, qset=qname)
            # samples reproduced at the knots
            if qname == "knots":
                dk = float(np.abs(Mi - basis.T).max())
                errs["knots_id"] = dk
                if not dk <= tol:
                    add("knot-values-not-reproduced", {"err": dk, "tol": tol}, qset=qname)

        # ---- oracle 2: the two internal formulas agree
        chunks = [results.get("thirdsB%d" % k) for k in range(len(range(0, len(thirds), n)))]
        if "thirdsA" in results and all(c is not None for c in chunks):
            rA = results["thirdsA"]
            rB = np.concatenate(chunks, axis=1)
            scale = max(1.0, float(np.nanmax(np.abs(rA))))
            e = float(np.nanmax(np.abs(rA - rB))) / scale
            errs["formAB"] = e
            if not e <= tols["form"]:
                add("formulas-disagree", {"err": e, "tol": tols["form"]}, qset="thirdsA/thirdsB")
            if dtn == "float64":
                for nm, r in (("thirdsA", rA), ("thirdsB", rB)):
                    _smoothness(r, xs, thirds, method, bc, nb, add, errs, nm)
        if "cross" in results and "thirdsB0" in results:
            rc = results["cross"][:, :n]
            r0 = results["thirdsB0"]
            scale = max(1.0, float(np.nanmax(np.abs(r0))))
            e = float(np.nanmax(np.abs(rc - r0))) / scale
            errs["formCross"] = e
            if not e <= tols["form"]:
                add("formulas-disagree", {"err": e, "tol": tols["form"]}, qset="cross/thirdsB0")

        # ---- oracle 3: derivatives
        _gradients(Interp1D, cfg, xs, x_t, perm, perm_t, basis, coef, mode, free, kwargs, yat, ybatch, dtype, tols,
                   xgrad, add, errs, nexec)
    except _Abort:
        pass

    if yat == "both" and warned_both:
        obs["warned_when_y_given_twice"] = bool(all(warned_both))
    obs["err"] = {k: float("%.1e" % v) if v == v and v != 0 else (0.0 if v == 0 else "nan") for k, v in errs.items()}
    obs["viol"] = sorted(v["failure"][:60] for v in viol)
    aborted = any(v["at"].get("stage") == "init" for v in viol)
    return {"viol": viol, "obs": obs, "n": nexec[0], "trivial": aborted,
            "status": "ok" if not viol else ("raised" if aborted else "violation")}


# ------------------------------------------------------------------ scipy-free smoothness / end conditions

def _smoothness(r, xs, thirds, method, bc, nb, add, errs, nm):
    """r: (nvec, 3n-2) values of the implementation at knots and third-points.  Exact finite-difference formulas
    for cubics give S', S'', S''' at both ends of every interval from the four values of that interval."""
    n = len(xs)
    Mi = (r[1:1 + nb] - r[0][None, :])                       # (nb, 3n-2)
    if not np.all(np.isfinite(Mi)):
        return
    F = np.stack([Mi[:, 3 * i:3 * i + 4] for i in range(n - 1)], axis=0)       # (n-1, nb, 4)
    h = (np.diff(xs) / 3.0)[:, None]
    f0, f1, f2, f3 = F[..., 0], F[..., 1], F[..., 2], F[..., 3]
    amp = np.abs(F).max(axis=2)                                               # (n-1, nb)
    amp = np.maximum(amp, 1.0)
    if method == "linear":
        e = float(max(np.abs(f0 - 2 * f1 + f2).max(), np.abs(f1 - 2 * f2 + f3).max()))
        errs["piecewise_linear_" + nm] = e
        if not e <= 1e-11:
            add("not-piecewise-linear", {"err": e}, qset=nm)
        return
    d1l = (-11 * f0 + 18 * f1 - 9 * f2 + 2 * f3) / (6 * h)
    d1r = (11 * f3 - 18 * f2 + 9 * f1 - 2 * f0) / (6 * h)
    d2l = (2 * f0 - 5 * f1 + 4 * f2 - f3) / h ** 2
    d2r = (2 * f3 - 5 * f2 + 4 * f1 - f0) / h ** 2
    d3 = (f3 - 3 * f2 + 3 * f1 - f0) / h ** 3
    s1 = 20 * amp / h
    s2 = 20 * amp / h ** 2
    s3 = 10 * amp / h ** 3

    def rel(x, y, sx, sy):
        return float((np.abs(x - y) / np.maximum(sx, sy)).max()) if x.size else 0.0
    if n >= 3:
        e1 = rel(d1r[:-1], d1l[1:], s1[:-1], s1[1:])
        e2 = rel(d2r[:-1], d2l[1:], s2[:-1], s2[1:])
        errs["C1_" + nm], errs["C2_" + nm] = e1, e2
        if not e1 <= TOL_C2:
            add("not-C1-at-interior-knot", {"err": e1, "tol": TOL_C2}, qset=nm)
        if not e2 <= TOL_C2:
            add("not-C2-at-interior-knot", {"err": e2, "tol": TOL_C2}, qset=nm)
    if bc == "natural":
        e = max(float((np.abs(d2l[0]) / s2[0]).max()), float((np.abs(d2r[-1]) / s2[-1]).max()))
    elif bc == "clamped":
        e = max(float((np.abs(d1l[0]) / s1[0]).max()), float((np.abs(d1r[-1]) / s1[-1]).max()))
    elif bc == "periodic":
        e = max(rel(d1l[0], d1r[-1], s1[0], s1[-1]), rel(d2l[0], d2r[-1], s2[0], s2[-1]))
    else:   # not-a-knot: third derivative continuous across the 2nd and the (n-1)th knot
        e = max(rel(d3[0], d3[1], s3[0], s3[1]), rel(d3[-1], d3[-2], s3[-1], s3[-2]))
    errs["bc_" + nm] = e
    if not e <= TOL_C2:
        add("end-condition-violated:%s" % ("not-a-knot" if bc == "None" else bc), {"err": e, "tol": TOL_C2}, qset=nm)


# ------------------------------------------------------------------ derivatives

def _gradients(Interp1D, cfg, xs, x_t, perm, perm_t, basis, coef, mode, free, kwargs, yat, ybatch, dtype, tols,
               xgrad, add, errs, nexec):
    method, bc = cfg["method"], cfg["bc"]
    n = len(xs)
    nb = basis.shape[1]
    B = int(np.prod(ybatch)) if ybatch else 1
    # one dense vector per batch slot
    cslots = np.stack([np.roll(coef, k) * (1.0 + 0.25 * k) for k in range(B)], axis=0)       # (B, nb)
    Ysorted = torch.tensor(cslots @ basis.T, dtype=torch.float64).to(dtype)                  # (B, n)
    cs_exact = cslots
    gsets, gxsets = grad_query_sets(xs, dtype, method)
    # 3 knots + not-a-knot: which member of the family is selected as the knots move is the implementation's choice,
    # so the derivative with respect to x has no reference there
    todo = [(nm, q, "yq") for nm, q in gsets] + ([(nm, q, "x") for nm, q in gxsets] if xgrad and free is None else [])
    for qname, q, what in todo:
        xg = x_t[perm_t].clone()
        if xgrad:
            xg.requires_grad_()
        Y = Ysorted[:, perm_t].reshape(tuple(ybatch) + (n,)).clone().requires_grad_()
        xq_t = torch.tensor(q, dtype=torch.float64).to(dtype).requires_grad_()

        def fwd():
            if yat == "call":
                return Interp1D(xg, **kwargs)(xq_t, Y)
            obj = Interp1D(xg, Y, **kwargs)
            if yat == "init":
                return obj(xq_t)
            return obj(xq_t, Y.detach().flip(-1) * 0.5 + 3.0)
        o = call(fwd)
        nexec[0] += 1
        if o.exc is not None:
            add("exception:%s" % o.exc_sig, {"stage": "grad-forward", "qset": qname}, stage="grad-forward", qset=qname)
            continue
        out = o.value
        if tuple(out.shape) != tuple(ybatch) + (q.size,):
            continue        # already reported by the value pass
        M, off, nanrow = reference(xs, method, bc, basis, mode, q, 0, free)
        D, doff, _ = reference(xs, method, bc, basis, mode, q, 1, free)
        keep = ~nanrow
        if not out.requires_grad:
            add("result-not-differentiable", {}, qset=qname)
            continue
        if what == "yq":
            # d/dxq of the sum over all batch slots
            o2 = call(torch.autograd.grad, out[..., torch.tensor(keep)].sum(), xq_t, retain_graph=True,
                      allow_unused=True)
            if o2.exc is not None:
                add("exception:%s" % o2.exc_sig, {"stage": "grad-xq"}, stage="grad-xq", qset=qname)
            else:
                g = o2.value[0]
                g = np.zeros(q.size) if g is None else g.detach().to(torch.float64).numpy()
                ref = (D @ cs_exact.T).sum(axis=1) + doff * B
                scale = max(1.0, float(np.abs(ref[keep]).max()))
                e = float(np.abs((g - ref)[keep]).max()) / scale
                if e != e:
                    e = float("inf")
                errs["dxq_" + qname] = e
                if not e <= tols["grad"]:
                    qi = int(np.argmax(np.abs(np.where(keep, np.nan_to_num(g - ref, nan=np.inf), 0.0))))
                    add("grad-mismatch:xq", {"err": e, "tol": tols["grad"], "xq": float(q[qi]), "got": float(g[qi]),
                                             "ref": float(ref[qi]), "inside": bool(xs[0] <= q[qi] <= xs[-1])},
                        qset=qname)
            # d/dy, one query at a time
            emax = 0.0
            worst = None
            for qi in range(q.size):
                if not keep[qi]:
                    continue
                o3 = call(torch.autograd.grad, out[..., qi].sum(), Y, retain_graph=True, allow_unused=True)
                if o3.exc is not None:
                    add("exception:%s" % o3.exc_sig, {"stage": "grad-y"}, stage="grad-y", qset=qname)
                    break
                gy = o3.value[0]
                gy = torch.zeros_like(Y) if gy is None else gy
                gy = gy.detach().to(torch.float64).reshape(B, n).numpy()
                gs = np.zeros_like(gy)
                gs[:, perm] = gy                               # back to sorted order
                proj = gs @ basis                              # (B, nb) directional derivatives
                d = np.abs(proj - M[qi][None, :])
                e = float(np.nan_to_num(d, nan=np.inf).max()) / max(1.0, float(np.abs(M[qi]).max()))
                if e > emax:
                    emax, worst = e, qi
            errs["dy_" + qname] = emax
            if not emax <= tols["grad"]:
                add("grad-mismatch:y", {"err": emax, "tol": tols["grad"], "xq": float(q[worst])}, qset=qname)
        else:
            o2 = call(torch.autograd.grad, out.sum(), xg, retain_graph=False, allow_unused=True)
            if o2.exc is not None:
                add("exception:%s" % o2.exc_sig, {"stage": "grad-x"}, stage="grad-x", qset=qname)
                continue
            g = o2.value[0]
            g = np.zeros(n) if g is None else g.detach().to(torch.float64).numpy()
            gs = np.zeros(n)
            gs[np.asarray(perm)] = g
            ref = _fd_x(xs, method, bc, basis, cs_exact, q, free)
            scale = max(1.0, float(np.abs(ref).max()))
            e = float(np.nan_to_num(np.abs(gs - ref), nan=np.inf).max()) / scale
            errs["dx_" + qname] = e
            if not e <= tols["gx"]:
                add("grad-mismatch:x", {"err": e, "tol": tols["gx"], "got": gs.tolist()[:8], "ref": ref.tolist()[:8]},
                    qset=qname)


_FD_CACHE = {}


def _fd_x(xs, method, bc, basis, cslots, q, free):
    """central differences of sum_q sum_slots interpolant(xq) with respect to every knot position"""
    key = (xs.tobytes(), method, bc, cslots.tobytes(), q.tobytes(), free is not None)
    if key in _FD_CACHE:
        return _FD_CACHE[key]
    n = len(xs)
    ycols = basis @ cslots.T                                  # (n, B)
    dxmin = float(np.diff(xs).min())
    h = 1e-4 * dxmin

    def total(xx):
        return float(ic.interp_matrix(xx, method, bc, ycols, q, 0, None).sum())
    ref = np.zeros(n)
    for k in range(n):
        xp = xs.copy()
        xm = xs.copy()
        xp[k] += h
        xm[k] -= h
        ref[k] = (total(xp) - total(xm)) / (2 * h)
    if len(_FD_CACHE) > 500:
        _FD_CACHE.clear()
    _FD_CACHE[key] = ref
    return ref

# ---- call-order plane (executed by mc/core.py in fresh interpreters, see mc/props/_hist_common.py): the result of
# a call must not depend on which other calls (other dtype / method / size / options) were made before it
_HIST_LABELS = [('float32', 'cspline', 0), ('float64', 'cspline', 0), ('float64', 'cspline', 1), ('float64', 'linear', 0), ('float32', 'linear', 1)]
HISTORY = {"labels": ["/".join(str(x) for x in c) for c in _HIST_LABELS], "tol": [0.0001, 1e-12, 1e-12, 1e-12, 0.0001],
           "depth": {"quick": 2, "thorough": 3},
           "prelude": r'''import torch, xitorch
from xitorch.interpolate import Interp1D
CALLS = %r
def do(i):
    dtn, method, grid = CALLS[i]
    dt = getattr(torch, dtn)
    x = torch.linspace(0.0, 2.0, 7, dtype=dt) if grid == 0 else torch.tensor([0.0, 0.2, 0.5, 1.1, 1.3, 1.8, 2.0], dtype=dt)
    y = torch.sin(2.0 * x) + 0.3 * x
    xq = torch.linspace(0.05, 1.95, 9, dtype=dt)
    kw = {"bc_type": "natural"} if method == "cspline" else {}
    return Interp1D(x, y, method=method, **kw)(xq).double().reshape(-1).tolist()
''' % (_HIST_LABELS,)}
