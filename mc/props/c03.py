"""C03 -- rootfinder / equilibrium / minimize: a silent return is a point that passes the caller's stopping test.

Bounded-exhaustive exploration of the real solvers over a finite lattice of
(functional x method variant x contractive problem family x dimension x layout of the unknown x dtype x initial guess
 x tolerance pair x maxiter x line search), with a spy function logging every evaluation point, and an oracle evaluated
on the tensor that was actually returned.
"""
from __future__ import annotations
import math
import torch

from mc.util import V, call, rnd
from mc.props._root_common import Problem, ROOT_FAMILIES, MIN_FAMILIES, DT, flat_norm, shape_of

ID = "C03"
LEVEL = "exploration"
DESIGN_REF = "DESIGN.md §5 C03"
RULE = ("case = one point of the complete lattice functional{rootfinder,equilibrium,minimize} x method variant "
        "{newton, broyden1/2 with alpha in {-1, auto}, linearmixing; +anderson_acc (feat_ndims 1/all) for equilibrium; "
        "+gd (plain, momentum), adam for minimize} x line search {on, off} x contractive family (real affine, exactly "
        "representable 'dyadic' affine, tanh with contraction 0.2 / 0.6, complex affine; quadratic, dyadic quadratic, "
        "log-cosh objective) x n x layout of the unknown {(n,), (n,1), (2,n)} x dtype {float64, complex128, float32} x "
        "initial guess {zero, far, near, exact root, edge = residual 1.5 f_tol} x (f_tol, x_tol) pair x maxiter {generous, 1, 2, 3} x value plane; "
        "each case = one real solver call with a logging spy as the function; distinct = distinct observation "
        "(status, evaluation count, rounded residual, position of the returned tensor in the evaluation log)")
RULE_ADDED = ("Added later: guess 'edge' / x_tol 'xfirst' boundary values, family 'const', method names in another "
              'letter case, gd/adam transition-conformance oracle, overshooting gd / adam steps (step 3/mu, adam st'
              'ep 5) on runs of 1-3 iterations, call-order plane in fresh interpreters. Round 4: families atan (uni'
              'form far offsets 4/10/15: line search through its cubic stage) and expand (non-contractive map; Ande'
              'rson / root finders). Round 7: units (the unknown in units of 2^-14 in single precision: requested '
              'absolute tolerances below the machine epsilon of the dtype, attainable all the same).')
ASSUMPTIONS = [
    "all tolerances and iteration limits are passed explicitly (f_tol, x_tol, f_rtol=x_rtol=inf resp. 0 for gd/adam, "
    "maxiter, alpha, step, momentum); nothing depends on a library default",
    "families are contractions by construction (Lipschitz constant of y - f(y) is s in {0.2, 0.5, 0.6}); the exact "
    "solution is a parameter of the family and f(solution) == 0 bit-exactly (except log-cosh: 1 ulp)",
    "the residual is recomputed on the returned tensor with the same function, dtype and flattened 2-norm as the "
    "solver; margin (1 + max(1e-9, 4 eps))",
    "x_tol is judged through the evaluation log: after a silent return some other logged evaluation point lies "
    "within x_tol of the returned tensor (the accepted step is s*dx with s <= 1)",
    "silence is demanded only with the generous iteration limit, tolerances >= 1e3 * eps * scale and an initial "
    "Jacobian model consistent with the family (alpha = -1, i.e. J0 = I); with Broyden's default alpha (scipy "
    "convention J0 = -1/alpha, alpha ~ 1/|f(y0)|) a warning is recorded, not judged",
    "gd/adam use OR-type criteria which do not bound the distance to the minimiser: agreement with the known "
    "minimiser is derived rigorously for plain gd (x_tol/(step*mu) resp. sqrt(f_tol/(step(1-L step/2)))/mu) and is a "
    "loose 1e-3 for momentum gd and adam (five decades above the requested x_tol, observed <= 6e-6)",
    "a warned result is not judged; an exception other than a documented rejection is a violation",
]
BUDGET_S = {"quick": 900, "thorough": 3000}

RF_METHODS = ("newton", "broyden1", "broyden2", "linearmixing")
GEN_MAXITER = {"rf": 200, "anderson_acc": 200, "gd": 4000, "adam": 20000}
INF = float("inf")

# gdms: small step, strong momentum - the step length GROWS during the first iterations (used with x_tol "xfirst")
GD_VARIANTS = {"gd": {"step": 0.5, "gamma": 0.0}, "gdm": {"step": 0.3, "gamma": 0.5},
               "gdms": {"step": 1e-3, "gamma": 0.9}, "gdbig": {"step": None, "gamma": 0.0}}
ADAM_OPTS = {"step": 0.05, "beta1": 0.9, "beta2": 0.999, "eps": 1e-8}


def _tols(dtype, kind):
    """(f_tol, x_tol) pairs; 'inf' is spelled as a string to keep cfg JSON-clean"""
    if kind == "opt":      # gd / adam: OR criteria on |df| and |dx|; relative ones are switched off (0)
        if dtype == "float32":
            return [(0.0, 1e-4)]     # |df| tests are not resolvable in float32 (eps * |F| ~ 1e-6)
        # "xfirst": x_tol = 1.5 x the length of the very first step, so that the |dx| test holds at iteration 0
        # (where the documented rule ignores it) and, with momentum, at no later iteration of a short run
        return [(0.0, 1e-8), (1e-14, 0.0), (1e-14, 1e-8), (0.0, "xfirst")]
    if dtype == "float32":
        return [(1e-3, 1e-3), (1e-4, 1e-1), (1e-4, "inf"), (1e-1, 1e-4)]
    return [(1e-6, 1e-6), (1e-9, 1e-2), (1e-10, "inf"), (1e-2, 1e-9)]


def _method_variants(functional, tier):
    """(method, alpha, line_search, feat_ndims_mode, variant)"""
    out = []
    for ls in (True, False):
        out.append(("newton", None, ls, None, None))
        for m in ("broyden1", "broyden2"):
            out.append((m, -1.0, ls, None, None))
            if ls or tier != "quick":
                out.append((m, "auto", ls, None, None))
        out.append(("linearmixing", -1.0, ls, None, None))
    if functional == "equilibrium":
        out.append(("anderson_acc", None, None, "last", None))
        out.append(("anderson_acc", None, None, "all", None))
    if functional == "minimize":
        out.append(("gd", None, None, None, "gd"))
        out.append(("gd", None, None, None, "gdm"))
        out.append(("gd", None, None, None, "gdms"))
        out.append(("adam", None, None, None, "adam"))
    return out


def cases(tier, seed):
    quick = tier == "quick"
    if quick:
        nk = [(1, "n"), (2, "n1"), (2, "2n"), (5, "n"), (5, "2n"), (8, "n")]
        maxiters = ["gen", 2]
        planes = [0]
    else:
        nk = [(n, k) for n in (1, 2, 5, 8) for k in ("n", "n1", "2n")]
        maxiters = ["gen", 1, 2, 3]
        planes = [0, 1, 2]
    out = []
    for functional in ("rootfinder", "equilibrium", "minimize"):
        fams = MIN_FAMILIES if functional == "minimize" else ROOT_FAMILIES
        for (method, alpha, ls, fnd, variant) in _method_variants(functional, tier):
            for family in fams:
                dts = ["complex128"] if family == "caffine" else ["float64"]
                if family in ("affine", "tanh06", "quad", "lcosh"):
                    dts.append("float32")
                for dtype in dts:
                    for (n, kind) in nk:
                        if dtype == "float32" and quick and (n, kind) not in ((2, "2n"), (5, "n")):
                            continue
                        if dtype == "float32" and not quick and kind == "n1":
                            continue
                        if fnd == "all" and kind == "n":
                            continue     # identical to "last"
                        if fnd == "last" and kind == "n1":
                            continue     # feature size 1 with a coupled batch axis is not a fixed-point problem per row
                        for plane in planes:
                            if plane > 0 and (family in ("dyadic", "dquad") or dtype == "float32" or n == 1):
                                continue  # no numeric content to vary / covered by plane 0
                            for guess in ("zero", "far", "near", "exact", "edge"):
                                if guess == "edge" and method in ("gd", "adam"):
                                    continue      # their tolerances are on |df| / |dx|, not on a residual
                                for (ft, xt) in _tols(dtype, "opt" if method in ("gd", "adam") else "rf"):
                                    if xt == "xfirst" and guess not in ("zero", "far"):
                                        continue        # the first step vanishes at (or next to) the minimiser
                                    if (variant == "gdms") != (xt == "xfirst" and method == "gd"):
                                        if variant == "gdms" or (xt == "xfirst" and method == "gd"):
                                            continue    # gdms is enumerated with "xfirst" only, and vice versa
                                    for mi in maxiters:
                                        if plane > 0 and mi in (1, 3):
                                            continue
                                        if method == "adam" and mi == "gen" and quick and kind == "2n" and n == 5:
                                            continue
                                        out.append({
                                            "functional": functional, "method": method, "variant": variant,
                                            "alpha": alpha, "line_search": ls, "feat_ndims": fnd,
                                            "family": family, "dtype": dtype, "n": n, "shape": kind,
                                            "guess": guess, "f_tol": ft, "x_tol": xt, "maxiter": mi,
                                            "plane": plane, "seed": int(seed) if plane > 0 else 0})
    # the unknown in other units (y' = 2^-14 y) in single precision: the requested absolute tolerances (scaled with the
    # unit) lie below the machine epsilon of the dtype and are attainable all the same
    sg = 2.0 ** -14
    for functional in ("rootfinder", "equilibrium"):
        for (method, alpha, ls, fnd, variant) in _method_variants(functional, tier):
            if alpha == "auto":
                continue
            for family in ("affine", "tanh02"):
                for (n, kind) in ((2, "2n"), (5, "n")):
                    for guess in ("zero", "far"):
                        for (ft, xt) in ((1e-4 * sg, "inf"), (1e-3 * sg, 1e-3 * sg)):
                            out.append({"functional": functional, "method": method, "variant": variant,
                                        "alpha": alpha, "line_search": ls, "feat_ndims": fnd, "family": family,
                                        "dtype": "float32", "n": n, "shape": kind, "guess": guess, "f_tol": ft,
                                        "x_tol": xt, "maxiter": "gen", "plane": 0, "seed": 0, "units": -14})
    # method names in another letter case select the same algorithm AND the same reduction of the problem
    for (functional, method, variant, fnd, fam, spell) in (
            ("equilibrium", "anderson_acc", None, "last", "tanh06", "Anderson_Acc"),
            ("equilibrium", "anderson_acc", None, "all", "affine", "ANDERSON_ACC"),
            ("equilibrium", "broyden1", None, None, "tanh06", "Broyden1"),
            ("rootfinder", "linearmixing", None, None, "affine", "LinearMixing"),
            ("minimize", "gd", "gd", None, "quad", "GD"),
            ("minimize", "adam", "adam", None, "lcosh", "Adam"),
            ("minimize", "broyden2", None, None, "quad", "BROYDEN2")):
        for (n, kind) in ((2, "2n"), (5, "n")):
            if fnd == "all" and kind == "n":
                continue
            for guess in ("zero", "far"):
                ft, xt = _tols("float64", "opt" if method in ("gd", "adam") else "rf")[0]
                out.append({"functional": functional, "method": method, "variant": variant,
                            "alpha": (-1.0 if method in ("broyden1", "broyden2", "linearmixing") else None),
                            "line_search": (True if method in RF_METHODS else None), "feat_ndims": fnd,
                            "family": fam, "dtype": "float64", "n": n, "shape": kind, "guess": guess, "f_tol": ft,
                            "x_tol": xt, "maxiter": "gen", "plane": 0, "seed": 0, "spell": spell})
    # far initial guesses (the same offset 4 / 10 / 15 in every component: the Jacobian stays a multiple of the
    # identity, i.e. perfectly conditioned) on a map whose contraction weakens far away - the full quasi-Newton step
    # overshoots and the Armijo line search has to backtrack through its quadratic AND cubic stages;
    # and a non-contractive map on which Anderson acceleration / the root finders still converge
    for functional in ("rootfinder", "equilibrium"):
        for (method, alpha, ls, fnd, variant) in _method_variants(functional, tier):
            for family, guesses in (("atan", ("u4", "u10", "u15")), ("expand", ("zero", "far", "near"))):
                if family == "atan" and (ls is False or method == "linearmixing" or alpha == "auto"):
                    continue        # without the line search the full steps may legitimately diverge from afar
                if family == "expand" and (method == "linearmixing" or alpha == "auto"):
                    continue        # plain mixing with alpha = -1 is the diverging fixed-point iteration
                for (n, kind) in ((1, "n"), (2, "2n"), (5, "n")):
                    if fnd == "all" and kind == "n":
                        continue
                    for guess in guesses:
                        if guess == "u15" and method == "anderson_acc":
                            continue    # Anderson mixing has no globalisation: from this far it is not covered
                        for (ft, xt) in _tols("float64", "rf"):
                            out.append({"functional": functional, "method": method, "variant": variant,
                                        "alpha": alpha, "line_search": ls, "feat_ndims": fnd, "family": family,
                                        "dtype": "float64", "n": n, "shape": kind, "guess": guess, "f_tol": ft,
                                        "x_tol": xt, "maxiter": "gen", "plane": 0, "seed": 0})
    # overshooting steps on short runs (1, 2, 3 iterations): a silent return must not be worse than the guess
    for (method, variant) in (("gd", "gdbig"), ("adam", "adambig")):
        for family in MIN_FAMILIES:
            for (n, kind) in ((2, "2n"), (5, "n")):
                for guess in ("zero", "far"):
                    for (ft, xt) in _tols("float64", "opt")[:3]:
                        for mi in (1, 2, 3):
                            out.append({"functional": "minimize", "method": method, "variant": variant,
                                        "alpha": None, "line_search": None, "feat_ndims": None, "family": family,
                                        "dtype": "float64", "n": n, "shape": kind, "guess": guess, "f_tol": ft,
                                        "x_tol": xt, "maxiter": mi, "plane": 0, "seed": 0})
    # canonical order: simplest first
    out.sort(key=lambda c: (c["plane"], c["n"], c["shape"], c["dtype"] != "float64"))
    return out


# ------------------------------------------------------------------------------------------------ one execution

def _eps(dtype):
    return 1.2e-7 if dtype == "float32" else 2.3e-16


def _build_call(cfg, prob, log):
    """returns (functional callable, spy fcn, options dict, residual function, objective function or None)"""
    from xitorch.optimize import rootfinder, equilibrium, minimize
    functional, method = cfg["functional"], cfg["method"]
    params = prob.tensors

    if functional == "rootfinder":
        inner = prob.f
    elif functional == "equilibrium":
        inner = prob.g
    else:
        inner = prob.F

    def spy(y, *p):
        log.append(y.detach().clone())
        return inner(y, *p)

    if functional == "rootfinder":
        resid = lambda y: prob.f(y, *params)
    elif functional == "equilibrium":
        resid = lambda y: prob.g(y, *params) - y
    else:
        resid = lambda y: prob.gradF(y, *params)

    xt = INF if cfg["x_tol"] == "inf" else (0.0 if cfg["x_tol"] == "xfirst" else float(cfg["x_tol"]))
    ft = float(cfg["f_tol"])
    opts = {"method": cfg.get("spell", method)}     # "spell": the method name in another letter case
    if method in RF_METHODS:
        mi = GEN_MAXITER["rf"] if cfg["maxiter"] == "gen" else int(cfg["maxiter"])
        opts.update(f_tol=ft, x_tol=xt, f_rtol=INF, x_rtol=INF, maxiter=mi, line_search=bool(cfg["line_search"]))
        if method != "newton":
            opts["alpha"] = None if cfg["alpha"] == "auto" else float(cfg["alpha"])
        else:
            opts.update(solver_method="exactsolve")
    elif method == "anderson_acc":
        mi = GEN_MAXITER["anderson_acc"] if cfg["maxiter"] == "gen" else int(cfg["maxiter"])
        fnd = len(prob.shape) if cfg["feat_ndims"] == "all" else 1
        opts.update(f_tol=ft, x_tol=xt, f_rtol=INF, x_rtol=INF, maxiter=mi, feat_ndims=fnd, msize=5, beta=1.0,
                    lmbda=1e-4)
    elif method == "gd":
        mi = GEN_MAXITER["gd"] if cfg["maxiter"] == "gen" else int(cfg["maxiter"])
        opts.update(f_tol=ft, x_tol=xt, f_rtol=0.0, x_rtol=0.0, maxiter=mi, **GD_VARIANTS[cfg["variant"]])
        if cfg["variant"] == "gdbig":
            # overshooting step (> 2 / L whatever the curvature): every step INCREASES the objective, so the
            # only admissible silent return of a short run is a point that is not worse than the initial guess
            opts["step"] = 3.0 / prob.mu()
    elif method == "adam":
        mi = GEN_MAXITER["adam"] if cfg["maxiter"] == "gen" else int(cfg["maxiter"])
        opts.update(f_tol=ft, x_tol=xt, f_rtol=0.0, x_rtol=0.0, maxiter=mi, **ADAM_OPTS)
        if cfg["variant"] == "adambig":
            opts["step"] = 5.0
    fun = {"rootfinder": rootfinder, "equilibrium": equilibrium, "minimize": minimize}[functional]
    return fun, spy, opts, resid, ft, xt


def _exc_class(o):
    import re
    msg = str(o.exc).strip().split("\n")[0]
    # stable stem: drop numbers / shapes
    stem = re.sub(r"\[[^\]]*\]", "[..]", msg)
    stem = re.sub(r"[0-9]+", "#", stem)[:60]
    return "exception:%s:%s" % (type(o.exc).__name__, stem.strip())


def run_case(cfg):
    prob = Problem(cfg["family"], cfg["n"], cfg["shape"], cfg["dtype"], centred=True, plane=cfg["plane"],
                   seed=cfg["seed"], sigma=2.0 ** cfg.get("units", 0))
    log = []
    fun, spy, opts, resid, ft, xt = _build_call(cfg, prob, log)
    if cfg["guess"] == "edge":
        # boundary value of the stopping test: a warm start whose own residual is 1.5 f_tol (so that one more
        # iterate passes the f_tol test while the start does not)
        ys = prob.ystar
        u = (prob.guess("near") - ys) * 2.0 ** 10
        d = 2.0 ** -10
        for _ in range(4):
            rr = flat_norm(resid((ys + d * u).contiguous()))
            if not (rr > 0):
                break
            d = d * 1.5 * ft / rr
        y0 = (ys + d * u).contiguous()
    else:
        y0 = prob.guess(cfg["guess"])
    if cfg["x_tol"] == "xfirst":
        g0 = flat_norm(resid(y0))
        first = opts["step"] * (g0 if cfg["method"] == "gd" else math.sqrt(y0.numel()))
        xt = 1.2 * first
        opts["x_tol"] = xt
    y0_copy = y0.clone()
    eps = _eps(cfg["dtype"])
    method = cfg["method"]
    generous = cfg["maxiter"] == "gen"
    viol = []
    obs = {}

    torch.manual_seed(0)
    o = call(fun, spy, y0, params=prob.tensors, **opts)
    obs["nev"] = len(log)

    if o.exc is not None:
        viol.append(V(_exc_class(o), {"message": str(o.exc)[:300]}))
        obs["status"] = "exception"
        obs["exc"] = o.exc_sig
        return {"viol": viol, "obs": obs, "status": "exception"}

    y = o.value
    if not isinstance(y, torch.Tensor):
        viol.append(V("result-not-a-tensor", {"type": str(type(y))}))
        return {"viol": viol, "obs": obs, "status": "violation"}
    y = y.detach()

    if o.warned:
        obs["status"] = "warned"
        if generous and cfg["alpha"] == "auto":
            # Broyden's default alpha = 0.5 max(|y0|,1)/|f(y0)| models a Jacobian -1/alpha: wrong sign for these
            # families and unbounded near a root; convergence with it is not promised -> informational
            obs["status"] = "warned-default-alpha"
        elif generous:
            # the last sentence of the property: contractive, well-conditioned, attainable tolerance, generous limit
            r = None
            if tuple(y.shape) == tuple(y0.shape) and y.dtype == y0.dtype:
                r = flat_norm(resid(y))
            viol.append(V("warned-on-contractive-family", {"warnings": o.warnings[:2], "residual_of_returned": r,
                                                           "contraction": prob.s, "evaluations": len(log)}))
        return {"viol": viol, "obs": obs, "status": "warned" if not viol else "violation"}

    # ------------------------------------------------------------------ silent return: judge the returned tensor
    shape_ok = tuple(y.shape) == tuple(y0.shape)
    dtype_ok = y.dtype == y0.dtype
    if not shape_ok:
        viol.append(V("shape-differs-from-y0", {"returned": list(y.shape), "y0": list(y0.shape)}))
    if not dtype_ok:
        viol.append(V("dtype-differs-from-y0", {"returned": str(y.dtype), "y0": str(y0.dtype)}))
    if not torch.equal(y0, y0_copy):
        viol.append(V("y0-modified-in-place", None))
    if not (shape_ok and dtype_ok):
        obs["status"] = "silent-misshaped"
        return {"viol": viol, "obs": obs, "status": "violation"}

    margin = 1.0 + max(1e-9, 4 * eps)
    r = flat_norm(resid(y))
    obs["r"] = rnd(r, 3)
    ystar = prob.ystar
    err = flat_norm(y - ystar)
    scale = max(1.0, flat_norm(ystar))
    N = y.numel()
    # where in the evaluation log does the returned tensor sit?  (informational)
    eq_idx = [i for i, p in enumerate(log) if p.shape == y.shape and torch.equal(p, y)]
    obs["ret"] = (eq_idx[-1] - len(log)) if eq_idx else None

    if method in RF_METHODS or method == "anderson_acc":
        # (b) the returned tensor passes the f_tol test
        if not (r < ft * margin):
            viol.append(V("residual-above-f_tol", {"residual_of_returned": r, "f_tol": ft,
                                                   "returned_position_in_eval_log": obs["ret"],
                                                   "evaluations": len(log)}))
        # (x) the step test: some *other* evaluation point within x_tol (skip if no step was taken)
        took_step = not (torch.equal(y, y0) and flat_norm(resid(y0)) == 0.0)
        if math.isfinite(xt) and took_step and r != 0.0:      # at an exact root there is no step left to test
            others = list(range(len(log)))
            if eq_idx:
                others.remove(eq_idx[-1])
            dmin = min([flat_norm(log[i] - y) for i in others if log[i].shape == y.shape] or [INF])
            obs["dmin"] = rnd(dmin, 3)
            if not (dmin < xt * (1 + 1e-6) + 16 * eps * scale):
                viol.append(V("step-above-x_tol", {"nearest_other_evaluation_point": dmin, "x_tol": xt,
                                                   "residual_of_returned": r}))
        # (e) all methods return the same point = the known solution, within f_tol / (1 - s)
        bound = ft * margin / prob.mu() + 64 * eps * scale * math.sqrt(N)
        if not (err <= bound):
            viol.append(V("solution-differs-from-known-root", {"distance": err, "bound": bound, "residual": r}))
    else:
        # gd / adam
        step = opts["step"]
        mu, L = prob.mu(), prob.lip()
        if method == "gd" and opts["gamma"] == 0.0 and step * L < 2.0:
            b = 0.0
            cands = []
            if xt > 0:
                cands.append(xt * (1.0 + 1.0 / (step * mu)))
            if ft > 0:
                Fs = abs(float(prob.F(ystar, *prob.tensors).item()))
                F0 = abs(float(prob.F(y0, *prob.tensors).item()))
                dec = ft + 64 * eps * max(1.0, Fs, F0)
                cands.append(math.sqrt(dec / (step * (1 - L * step / 2))) / mu)
            bound = max(cands) * (1 + 1e-6) + 64 * eps * scale * math.sqrt(N)
            if not (err <= bound):
                viol.append(V("solution-differs-from-known-minimiser", {"distance": err, "bound": bound,
                                                                        "gradient_norm": r}))
        else:
            # momentum / adam: the documented OR-type stopping rule fires when ONE step is shorter than x_tol, which
            # also happens at a turning point of the momentum far from the minimiser (adam, step 0.05, quad family
            # from the zero guess: stops silently at distance 0.14).  No distance to the minimiser follows from the
            # statement, so none is demanded (a constant bound used here earlier was a false alarm of this check);
            # instead every transition of the real iteration is validated against the documented update equations
            # and stopping rule (below).
            bound = None
        viol.extend(_gd_adam_conformance(method, opts, log, y, y0, prob, eps, scale, generous, obs))
    if cfg["functional"] == "minimize":
        # F(y) <= F(y0) up to what the requested tolerance can resolve: a point within `bound` of the minimiser
        # has F <= F* + L/2 bound^2 <= F(y0) + L/2 bound^2
        Fy = float(prob.F(y, *prob.tensors).item())
        F0 = float(prob.F(y0, *prob.tensors).item())
        if bound is None:
            # momentum / adam: judged from the guesses that start O(1) away from the minimiser only
            slack = 64 * eps * max(1.0, abs(F0)) if cfg["guess"] in ("zero", "far") else INF
        else:
            slack = 0.5 * prob.lip() * bound ** 2 + 64 * eps * max(1.0, abs(F0))
        if not (Fy <= F0 + slack):
            viol.append(V("objective-larger-than-at-y0", {"F(y)": Fy, "F(y0)": F0, "slack": slack,
                                                          "gradient_norm": r}))
        obs["dF"] = rnd(Fy - F0, 3)
    obs["status"] = "silent"
    obs["err"] = rnd(err, 2)
    return {"viol": viol, "obs": obs, "status": "silent" if not viol else "violation"}


def _gd_adam_conformance(method, opts, log, y, y0, prob, eps, scale, generous, obs):
    """silent return of gd / adam: the logged evaluation points x_0 .. x_k and the returned x_{k+1} are the
    iterates of the real run.  Reference model = the documented update equations (docstrings of gd and adam) driven
    by the library's own iterates: every transition x_i -> x_{i+1} must be the documented update, the run must not
    continue past an iterate where a stopping criterion (OR of the four documented tests, from the second
    iteration on) clearly holds, and must not stop where none can hold."""
    out = []
    P = prob.tensors
    xs = [p for p in log] + [y]
    k = len(log) - 1
    if k < 0 or any(p.shape != y.shape for p in log) or not torch.equal(log[0], y0):
        out.append(V("gd-adam:evaluation-log-shape", {"evaluations": len(log)}))
        return out
    step = opts["step"]
    x_tol, x_rtol, f_tol, f_rtol = opts["x_tol"], opts["x_rtol"], opts["f_tol"], opts["f_rtol"]
    dt = y.dtype
    v = torch.zeros_like(y)
    m = torch.zeros_like(y)
    b1t = b2t = None
    if method == "adam":
        b1, b2, ae = opts["beta1"], opts["beta2"], opts["eps"]
        b1t, b2t = b1, b2
    fprev = 0.0
    tolx = 256 * eps * scale
    d = 1e-6
    worst = 0.0
    for i in range(k + 1):
        x = xs[i]
        g = prob.gradF(x, *P).detach().to(dt)
        f = float(prob.F(x, *P).item())
        if method == "gd":
            v = opts["gamma"] * v - step * g
            xref = x + v
        else:
            m = b1 * m + (1 - b1) * g
            v = b2 * v + (1 - b2) * g ** 2
            mh = m / (1 - b1t)
            vh = v / (1 - b2t)
            b1t *= b1
            b2t *= b2
            xref = x - step * mh / (vh ** 0.5 + ae)
        e = flat_norm(xs[i + 1] - xref)
        worst = max(worst, e / tolx)
        if not (e <= tolx):
            out.append(V("gd-adam:transition-differs-from-documented-update",
                         {"iteration": i, "distance": e, "tol": tolx, "method": method}, iteration=i))
            break
        dx = flat_norm(xs[i + 1] - x)
        xn = flat_norm(x)
        df = abs(fprev - f)
        ulp = 8 * eps * max(1.0, abs(f))
        clearly = (dx < x_tol * (1 - d)) or (dx < x_rtol * xn * (1 - d)) or (df < f_tol * (1 - d) - ulp) or \
            (df < f_rtol * abs(f) * (1 - d) - ulp)
        possibly = (dx < x_tol * (1 + d) + 8 * eps * scale) or (dx < x_rtol * xn * (1 + d)) or \
            (df < f_tol * (1 + d) + ulp) or (df < f_rtol * abs(f) * (1 + d) + ulp)
        if i > 0 and i < k and clearly:
            out.append(V("gd-adam:continued-after-a-stopping-criterion-held",
                         {"iteration": i, "dx": dx, "df": df, "x_tol": x_tol, "f_tol": f_tol}, iteration=i))
            break
        if i == k and not (i > 0 and possibly):
            out.append(V("gd-adam:stopped-silently-without-a-stopping-criterion",
                         {"iteration": i, "dx": dx, "df": df, "x_tol": x_tol, "f_tol": f_tol,
                          "evaluations": k + 1}, iteration=i))
        fprev = f
    obs["conf"] = rnd(worst, 2)
    return out


def coverage_extra(tier, seed, results):
    by = {}
    ret = {}
    for r in results:
        c = r["cfg"]
        o = r.get("obs") or {}
        k = "%s/%s:%s" % (c["functional"], c["method"], o.get("status", r["status"]))
        by[k] = by.get(k, 0) + 1
        if o.get("status") == "silent":
            kk = str(o.get("ret"))
            ret[kk] = ret.get(kk, 0) + 1
    return {"status_by_functional_method": by,
            "returned_tensor_position_in_evaluation_log(-1=last evaluated, None=never evaluated)": ret,
            "dimensions": {"functional": 3, "method_variants": "12 root-finding (+2 anderson, +3 gd/gdm/adam)",
                           "families": list(ROOT_FAMILIES) + list(MIN_FAMILIES), "n": [1, 2, 5, 8],
                           "layouts": ["(n,)", "(n,1)", "(2,n)"], "guesses": 4, "tolerance_pairs": 4,
                           "maxiter": ["generous", 1, 2, 3]}}

# ---- call-order plane (executed by mc/core.py in fresh interpreters, see mc/props/_hist_common.py): the result of
# a call must not depend on which other calls (other dtype / method / size / options) were made before it
_HIST_LABELS = [('float32', 'rootfinder', 'broyden1'), ('float64', 'rootfinder', 'broyden1'), ('float64', 'rootfinder', 'linearmixing'), ('float64', 'equilibrium', 'anderson_acc'), ('float64', 'minimize', 'broyden1'), ('float32', 'equilibrium', 'anderson_acc')]
HISTORY = {"labels": ["/".join(str(x) for x in c) for c in _HIST_LABELS], "tol": [0.001, 1e-07, 1e-07, 1e-07, 1e-07, 0.001],
           "depth": {"quick": 2, "thorough": 3},
           "prelude": r'''import torch, xitorch
from xitorch.optimize import rootfinder, equilibrium, minimize
CALLS = %r
def do(i):
    dtn, fn, method = CALLS[i]
    dt = getattr(torch, dtn)
    W = torch.tensor([[0.3, -0.2], [0.1, 0.4]], dtype=dt)
    c = torch.tensor([0.5, -0.3], dtype=dt)
    y0 = torch.zeros(2, dtype=dt)
    tol = 1e-10 if dtn == "float64" else 1e-5
    if fn == "rootfinder":
        y = rootfinder(lambda y: y - torch.tanh(W @ y) - c, y0, method=method, f_tol=tol, x_tol=tol, maxiter=80)
    elif fn == "equilibrium":
        y = equilibrium(lambda y: torch.tanh(W @ y) + c, y0, method=method, f_tol=tol, x_tol=tol, maxiter=80)
    else:
        y = minimize(lambda y: ((y - c) ** 2).sum() + 0.3 * torch.cosh(W @ y).sum(), y0, method=method, f_tol=tol, x_tol=tol, maxiter=80)
    return y.double().reshape(-1).tolist()
''' % (_HIST_LABELS,)}
