"""C08 — solve_ivp gradients w.r.t. y0, parameters and times are the true sensitivities.

Every case runs the real solve_ivp (forward, backward, optionally a recorded backward and a second backward) on an
ODE family whose exact solution is a closed form in (ts, y0, explicit params, object params) and compares the
gradients of one contraction of the trajectory with torch.autograd applied to the closed form (DESIGN.md §5 C08).
"""
from __future__ import annotations
import math
import itertools
import torch

from mc.util import V, call, rnd, gen
from mc.props._ivp_common import FIXED, ADAPTIVE, METHODS, ORDER

ID = "C08"
LEVEL = "exploration"
DESIGN_REF = "DESIGN.md §5 C08"
RULE = ("union of complete sub-lattices of family (lin, tdecay, logistic, osc[tuple state]) x representation of the "
        "right-hand side (nn.Module, EditableModule, plain function) x forward method (5) x backward options (inherit, "
        "other fixed-step method, adaptive tight) x grid (increasing/decreasing/ragged, 2/4/7 points) x requires-grad "
        "subset of {y0, explicit params, object params, ts} (all 15) x cotangent placement (interior, last, first, dense) "
        "x order (1, 1 with create_graph, 2): [A] bookkeeping: all 15 subsets x 4 cotangents x 3 orders x 4 grids; "
        "[B] all 5 x 3 method pairs x 4 families x 3 orders x 2 directions; [C] all 3 representations x 4 families x 4 "
        "subsets x 2 cotangents; [D] all 10 grids x 5 methods x 4 cotangents x 2 orders.  Every case carries a "
        "non-differentiable tensor, a python number, and an explicit and an object parameter that do not enter the "
        "dynamics.  Thorough widens every sub-lattice and adds seed-derived value planes.  distinct = distinct "
        "observation hashes (gradient values); no case is trivial")
RULE_ADDED = ('Added later: [E] dependent parameters (w a function of the leaf behind p), [F] cotangent scaled by 1'
              'e-10, [G] dissipative families (linear decay with a*T ~ 30, logistic) on long horizons (7 / 26 outpu'
              't times) with adaptive methods and tight requests, with and without bck_options, tolerance 20 n (rto'
              'l_fwd + rtol_bck) without an amplification factor; call-order plane in fresh interpreters. [G0] a tolerance of exactly 0 (rtol = 0.0: purely absolute, atol = 0: purely relative) in '
              'the forward options or only in bck_options. Round 4: '
              "[H] the object's parameter re-assigned between the forward call and the backward pass (gradients and"
              " the object's state after backward). Round 7: [I] graph history prior_plain (a plain backward pass with retain"
              "_graph over the same graph before the recording pass that is judged).")
ASSUMPTIONS = [
    "tolerance per tensor x: rel * max(|ref_x|_inf, 0.1*G), G = largest reference gradient/state magnitude of the case; "
    "rel = K * exp(2*Lam*T) * max(1, Lam*T) * (E_fwd + E_bck), E = (h*Lam)^p / p! for a fixed-step method of order p "
    "(one step of length h per interval), E = 1000*(rtol+atol) for an adaptive one, K = 1 (first order) / 10 (second), "
    "Lam = rate scale of the family instance",
    "forward Euler (and the Euler backward it implies by default) is judged by refinement: each interval is divided "
    "in 4 and in 8 (zero cotangent on the inserted points, which are differentiable functions of ts); the Richardson "
    "combination 2 g(h/2) - g(h) must be within 10 K (h Lam)^2 F and g(h) within 20 K (h Lam) F of the closed form",
    "by the documented default the backward pass re-uses the forward method and options unless bck_options are given",
    "the unused parameters must get None or an exactly zero gradient",
]
BUDGET_S = {"quick": 400, "thorough": 3000}

DT = torch.float64

# ====================================================================== grids

GRIDS = {
    "inc2": [0.1, 0.14],
    "inc4": [0.1 + 0.04 * i for i in range(4)],
    "inc7": [0.1 + 0.04 * i for i in range(7)],
    "rag4": [0.1, 0.12, 0.17, 0.2],
    "rag7": [0.1, 0.12, 0.17, 0.2, 0.21, 0.26, 0.3],
}
for _k in list(GRIDS):
    GRIDS[_k + "-dec"] = list(reversed(GRIDS[_k]))
# long horizons (plane [G], dissipative families only)
GRIDS["long7"] = [0.5 * i for i in range(7)]
GRIDS["long26"] = [0.1 * i for i in range(26)]
ALL_GRIDS = ["inc2", "inc4", "inc7", "rag4", "rag7", "inc2-dec", "inc4-dec", "inc7-dec", "rag4-dec", "rag7-dec"]

RG_ITEMS = ["y0", "p", "w", "ts"]
ALL_RG = ["+".join(c) for r in range(1, 5) for c in itertools.combinations(RG_ITEMS, r)]
COTS = ["interior", "last", "first", "dense"]
ORDERS = ["1", "1cg", "2"]
BCKS = ["inherit", "fixed", "adaptive"]
FAMS = ["lin", "tdecay", "logistic", "osc"]
REPS = ["nn", "edit", "fn"]
DEFAULT_REP = {"lin": "nn", "tdecay": "edit", "logistic": "fn", "osc": "nn"}

FWD_OPTS = {"rk45": {"atol": 1e-10, "rtol": 1e-8}, "rk23": {"atol": 1e-10, "rtol": 1e-7}}
BCK_ADAPTIVE = {"method": "rk45", "atol": 1e-10, "rtol": 1e-9}
# plane [G]: tight requests on long horizons of dissipative problems
TIGHT_OPTS = {"rk45": {"atol": 1e-12, "rtol": 1e-10}, "rk23": {"atol": 1e-11, "rtol": 1e-9}}
TIGHT_BCK = {"method": "rk45", "atol": 1e-12, "rtol": 1e-10}
# plane [G'], a tolerance of exactly zero: purely absolute (rtol = 0.0) / purely relative (atol = 0) error control
ZERO_OPTS = {"abs": {"rk45": {"atol": 1e-11, "rtol": 0.0}, "rk23": {"atol": 1e-10, "rtol": 0.0}},
             "relonly": {"rk45": {"atol": 0.0, "rtol": 1e-10}, "rk23": {"atol": 0, "rtol": 1e-9}}}
ZERO_BCK = {"abs": {"method": "rk45", "atol": 1e-11, "rtol": 0.0}, "relonly": {"method": "rk45", "atol": 0, "rtol": 1e-10}}


def bck_method(method, bck):
    if bck == "inherit":
        return method
    if bck == "fixed":
        return "rk4" if method == "rk38" else "rk38"
    return "rk45"


# ====================================================================== enumeration

def _case(family, rep, method, bck, grid, rg, cot, order, plane, seed):
    cfg = {"family": family, "rep": rep, "method": method, "bck": bck, "bck_method": bck_method(method, bck),
           "grid": grid, "rg": rg, "cot": cot, "order": order, "plane": plane}
    if plane != 0:
        cfg["seed"] = int(seed)
    return cfg


def cases(tier, seed):
    quick = tier == "quick"
    out = []
    seen = set()

    def add(*a):
        cfg = _case(*a)
        n = len(GRIDS[cfg["grid"]])
        if cfg["cot"] == "interior" and n < 3:
            return
        key = tuple(sorted(cfg.items()))
        if key not in seen:
            seen.add(key)
            out.append(cfg)
    planes = [0] if quick else [0, 1]
    for pl in planes:
        # [A] adjoint bookkeeping: requires-grad subsets x cotangent placements x orders x directions
        famA = ["lin"] if quick else ["lin", "osc"]
        methA = ["rk4"] if quick else ["rk4", "rk45", "euler"]
        for fam in famA:
            for m in methA:
                for g in ["inc4", "inc4-dec", "rag7", "rag7-dec"]:
                    for rg in ALL_RG:
                        for cot in COTS:
                            for od in ORDERS:
                                out_rep = DEFAULT_REP[fam]
                                add(fam, out_rep, m, "inherit", g, rg, cot, od, pl, seed)
        # [B] forward method x backward options x family x order x direction
        gridsB = ["inc4", "inc4-dec"] if quick else ["inc4", "inc4-dec", "rag7", "rag7-dec"]
        for fam in FAMS:
            for m in METHODS:
                for b in BCKS:
                    for g in gridsB:
                        for od in ORDERS:
                            add(fam, DEFAULT_REP[fam], m, b, g, "y0+p+w+ts", "dense", od, pl, seed)
        # [C] representations
        methC = ["rk4", "rk45"] if quick else list(METHODS)
        for fam in FAMS:
            for rep in REPS:
                for m in methC:
                    for rg in ["y0+p+w+ts", "w", "p", "y0+ts", "p+w"]:
                        for cot in ["dense", "interior"]:
                            for od in (["1cg", "2"] if quick else ORDERS):
                                add(fam, rep, m, "inherit", "inc4", rg, cot, od, pl, seed)
        # [E] dependent parameters: the tensor passed as w is a function of the leaf behind p
        for fam in FAMS:
            for rep in ("fn", "edit"):
                for m in (["rk4", "rk45"] if quick else list(METHODS)):
                    for g in ["inc4", "inc4-dec"]:
                        for rg in ["p+w", "y0+p+w+ts"]:
                            for od in ORDERS:
                                cfgE = _case(fam, rep, m, "inherit", g, rg, "dense", od, pl, seed)
                                cfgE["dep"] = 1
                                key = tuple(sorted(cfgE.items()))
                                if key not in seen:
                                    seen.add(key)
                                    out.append(cfgE)
        # [H] the object's parameter is re-assigned between the forward call and the backward pass
        for fam in FAMS:
            for rep in ("nn", "edit"):
                for m in (["rk4", "rk45"] if quick else list(METHODS)):
                    for g in ["inc4", "rag7-dec"]:
                        for rg in ["y0+p+w+ts", "ts", "w+ts"]:
                            for od in ORDERS:
                                cfgH = _case(fam, rep, m, "inherit", g, rg, "dense", od, pl, seed)
                                cfgH["mut"] = 1
                                out.append(cfgH)
        # [F] tiny cotangents (gradients must be exactly linear in the incoming cotangent)
        for fam in FAMS:
            for m in (["rk4", "rk45"] if quick else list(METHODS)):
                for g in ["inc4", "rag7-dec"]:
                    for cot in ["dense", "last"]:
                        for od in ORDERS:
                            cfgF = _case(fam, DEFAULT_REP[fam], m, "inherit", g, "y0+p+w+ts", cot, od, pl, seed)
                            cfgF["cscale"] = 1e-10
                            key = tuple(sorted(cfgF.items()))
                            if key not in seen:
                                seen.add(key)
                                out.append(cfgF)
        # [G] dissipative problems on long horizons, adaptive methods, tight requests: the backward integration has
        # to restart from the stored forward values (re-integrating y backwards is unstable) and has to run with
        # the accuracy that was requested for the forward integration when no backward options are given
        if pl == 0:
            for fam in ("diss", "logistic"):
                for m in ("rk45", "rk23"):
                    for b in ("inherit", "adaptive"):
                        for g in ("long7", "long26"):
                            for rg in (("y0+p+w+ts", "p") if quick else ("y0+p+w+ts", "p", "w", "y0+ts")):
                                for cot in ("dense", "last"):
                                    for od in (("1", "2") if quick else ORDERS):
                                        if quick and (od == "2" and (g == "long26" or cot != "dense")):
                                            continue
                                        if quick and m == "rk23" and (g == "long26" or od == "2"):
                                            continue        # thousands of third-order steps per run: thorough tier only
                                        cfgG = _case(fam, "fn" if fam == "logistic" else "edit", m, b, g, rg, cot, od,
                                                     pl, seed)
                                        cfgG["opts"] = "tight"
                                        out.append(cfgG)
            # [G'] the same problems with a tolerance of exactly zero in the forward options (inherited by the
            # backward integration) or only in the backward options
            for fam in ("diss", "logistic"):
                for m in (("rk45",) if quick else ("rk45", "rk23")):
                    for zo in ("abs", "relonly"):
                        for (b, fw) in (("inherit", None), ("adaptive", None), ("adaptive", "tight")):
                            for g in (("long7",) if quick else ("long7", "long26")):
                                for rg in ("y0+p+w+ts", "p"):
                                    for od in (("1",) if quick else ("1", "2")):
                                        cfgG = _case(fam, "fn" if fam == "logistic" else "edit", m, b, g, rg, "dense",
                                                     od, pl, seed)
                                        cfgG["opts"] = zo
                                        if fw:
                                            cfgG["fwd"] = fw
                                        out.append(cfgG)
        # [D] grids
        famD = ["tdecay"] if quick else ["tdecay", "logistic"]
        for fam in famD:
            for g in ALL_GRIDS:
                for m in METHODS:
                    for cot in COTS:
                        for od in (["1", "2"] if quick else ORDERS):
                            add(fam, DEFAULT_REP[fam], m, "inherit", g, "y0+p+w+ts", cot, od, pl, seed)
    # [I] graph history: a plain backward pass (retain_graph) over the same graph first, then the recording pass that
    # is judged (every requires-grad subset, both directions, fixed-step and adaptive forward method)
    for cfg in list(out):
        if cfg["plane"] == 0 and cfg["order"] == "2" and cfg["family"] == "lin" and cfg["bck"] == "inherit" \
                and cfg["grid"] in ("inc4", "rag7-dec") and cfg["cot"] in ("dense", "interior") \
                and cfg["method"] in ("rk4", "rk45") and set(cfg) == set(_case(*["x"] * 8, 0, 0)):
            out.append(dict(cfg, prior_plain=True))
    return out


# ====================================================================== families

A0 = torch.tensor([[-0.3, 1.0], [-1.0, -0.3]], dtype=DT)
B1 = torch.tensor([[0.0, 1.0], [0.0, 0.0]], dtype=DT)
B2 = torch.tensor([[0.5, 0.0], [0.2, -0.5]], dtype=DT)
U1 = torch.tensor([1.0, 0.0], dtype=DT)
U2 = torch.tensor([0.0, 1.0], dtype=DT)


def core_rhs(fam, t, y, c, s, p, w, k):
    """dy/dt; every element of c, p, w, k and the number s enters"""
    if fam == "lin":
        A = c[0] * A0 + p[0] * B1 + (w[0] * k[0]) * B2
        return s * (A @ y) + c[1] * (p[1] * U1 + w[1] * U2)
    if fam == "tdecay":
        return -s * (p * c[0] + w * k[0] * t) * y * c[1]
    if fam == "logistic":
        r = s * c[0] * p
        K = k[0] * w + c[1]
        return r * y * (1.0 - y / K)
    if fam == "diss":
        return -4.0 * s * (c[0] * p + k[0] * w + c[1]) * y
    if fam == "osc":
        q, v = y
        Om = c[0] * p * p + k[0] * w + c[1]
        return (s * v, -s * Om * q)
    raise KeyError(fam)


def exact(fam, ts, y0, c, s, p, w, k):
    """closed-form trajectory, differentiable in ts, y0, p, w; rows for every time of ts"""
    tau = ts - ts[0]
    if fam == "lin":
        A = s * (c[0] * A0 + p[0] * B1 + (w[0] * k[0]) * B2)
        u = c[1] * (p[1] * U1 + w[1] * U2)
        M = torch.cat([torch.cat([A, u[:, None]], 1), torch.zeros(1, 3, dtype=DT)], 0)
        z0 = torch.cat([y0, torch.ones(1, dtype=DT)])
        return torch.stack([(torch.linalg.matrix_exp(M * tt) @ z0)[:2] for tt in tau])
    if fam == "tdecay":
        t0 = ts[0]
        t = ts[:, None]
        return y0 * torch.exp(-s * c[1] * (p * c[0] * (t - t0) + w * k[0] * (t * t - t0 * t0) / 2))
    if fam == "logistic":
        r = s * c[0] * p
        K = k[0] * w + c[1]
        e = torch.exp(r * tau[:, None])
        return K * y0 * e / (K + y0 * (e - 1.0))
    if fam == "diss":
        return y0 * torch.exp(-4.0 * s * (c[0] * p + k[0] * w + c[1]) * tau[:, None])
    if fam == "osc":
        q0, v0 = y0
        om = torch.sqrt(c[0] * p * p + k[0] * w + c[1])
        ph = s * om * tau[:, None]
        return (q0 * torch.cos(ph) + v0 / om * torch.sin(ph), -q0 * om * torch.sin(ph) + v0 * torch.cos(ph))
    raise KeyError(fam)


def instance(fam, plane, seed):
    """numeric instance: plane 0 fixed, other planes perturb it with seed-derived factors in [0.8, 1.2]"""
    vals = {
        "c": [1.2, 0.8], "s": 1.5, "k": [0.9],
        "p": [0.7, 0.4], "w": [0.3, 0.6], "y0": [1.0, -0.5], "v0": [0.3, 0.9],
    }
    if fam == "logistic":
        vals["y0"] = [0.2, 0.45]
    if plane != 0:
        g = gen(7919 * plane + seed)
        for key in ("p", "w", "y0", "v0"):
            u = torch.rand(len(vals[key]), generator=g, dtype=DT)
            vals[key] = [x * float(0.8 + 0.4 * uu) for x, uu in zip(vals[key], u)]
    return vals


def rate_scale(fam, v, tmax):
    """Lam: bound of the size of the Jacobian of the right-hand side w.r.t. y (and of its relative parameter
    derivatives) for the instance"""
    c, s, k, p, w = v["c"], v["s"], v["k"], v["p"], v["w"]
    if fam == "lin":
        A = c[0] * A0 + p[0] * B1 + (w[0] * k[0]) * B2
        return s * float(torch.linalg.matrix_norm(A, 2)) + 1.0
    if fam == "tdecay":
        return s * c[1] * max(abs(pi) * c[0] + abs(wi) * k[0] * tmax for pi, wi in zip(p, w)) + 1.0
    if fam == "logistic":
        r = max(s * c[0] * abs(pi) for pi in p)
        return 2.0 * r + 1.0
    if fam == "diss":
        return 4.0 * s * max(c[0] * abs(pi) + k[0] * abs(wi) + c[1] for pi, wi in zip(p, w)) + 1.0
    if fam == "osc":
        om2 = max(c[0] * pi * pi + k[0] * wi + c[1] for pi, wi in zip(p, w))
        return s * max(1.0, om2) + 1.0
    raise KeyError(fam)


# ====================================================================== representations of the right-hand side

def build_rhs(fam, rep, c, s, p, xp, w, k, xw):
    """returns (fcn, params tuple) for solve_ivp.  c: tensor that never requires grad, s: python number,
    p: explicit parameter, xp: explicit parameter that does not enter, w / k / xw: object parameters
    (k never requires grad, xw does not enter)"""
    import xitorch
    if rep == "fn":
        def f(t, y, c_, s_, p_, xp_, w_, k_, xw_):
            return core_rhs(fam, t, y, c_, s_, p_, w_, k_)
        return f, (c, s, p, xp, w, k, xw), None
    if rep == "nn":
        class Mod(torch.nn.Module):
            def __init__(self):
                super().__init__()
                self.k = k
                self.w = w
                self.xw = xw

            def forward(self, t, y, c_, s_, p_, xp_):
                return core_rhs(fam, t, y, c_, s_, p_, self.w, self.k)
        mod = Mod()
        return mod.forward, (c, s, p, xp), mod
    if rep == "edit":
        class EMod(xitorch.EditableModule):
            def __init__(self):
                self.k = k
                self.w = w
                self.xw = xw

            def forward(self, t, y, c_, s_, p_, xp_):
                return core_rhs(fam, t, y, c_, s_, p_, self.w, self.k)

            def getparamnames(self, methodname, prefix=""):
                return [prefix + "k", prefix + "w", prefix + "xw"]
        mod = EMod()
        return mod.forward, (c, s, p, xp), mod
    raise KeyError(rep)


# ====================================================================== one differentiation experiment

def _refine(ts, m):
    """every interval divided in m equal parts; differentiable in ts"""
    if m == 1:
        return ts
    parts = []
    for j in range(m):
        parts.append(ts[:-1] + (ts[1:] - ts[:-1]) * (j / m))
    fine = torch.stack(parts, dim=1).reshape(-1)
    return torch.cat([fine, ts[-1:]])


def _cot(cfg, n, tuple_state, plane, seed):
    def dense(off):
        if plane == 0:
            i = torch.arange(n, dtype=DT)[:, None]
            j = torch.arange(2, dtype=DT)[None, :]
            return torch.cos(1.3 * i + 0.7 * j + 0.4 + off)
        g = gen(104729 * plane + seed + int(10 * off))
        return torch.randn(n, 2, generator=g, dtype=DT)
    kind = cfg["cot"]
    outs = []
    for off in ([0.0, 1.0] if tuple_state else [0.0]):
        d = dense(off)
        if kind != "dense":
            idx = {"interior": n // 2, "last": n - 1, "first": 0}[kind]
            z = torch.zeros_like(d)
            z[idx] = d[idx]
            d = z
        outs.append(d)
    return outs


def _inputs(cfg, v, rgset, as_reference):
    """leaf tensors.  library side: requires_grad according to the subset; reference side: everything differentiable"""
    fam = cfg["family"]

    def leaf(vals, flag):
        t = torch.tensor(vals, dtype=DT)
        if flag or as_reference:
            t.requires_grad_()
        return t
    ts = leaf(GRIDS[cfg["grid"]], "ts" in rgset)
    if fam == "osc":
        y0 = (leaf(v["y0"], "y0" in rgset), leaf(v["v0"], "y0" in rgset))
    else:
        y0 = leaf(v["y0"], "y0" in rgset)
    p = leaf(v["p"], "p" in rgset)
    if cfg.get("dep"):
        # dependent parameters: the tensor handed to the library as w is a function of the leaf p (and of its own
        # leaf wl); numerically it equals the instance value.  Gradients are taken w.r.t. the leaves.
        wl = leaf([a - 0.25 * b for a, b in zip(v["w"], v["p"])], "w" in rgset)
        return ts, y0, p, wl + 0.25 * p, wl
    w = leaf(v["w"], "w" in rgset)
    return ts, y0, p, w, w


def _experiment(cfg, v, m):
    """runs solve_ivp on the grid refined m times and differentiates; returns dict or a violation"""
    from xitorch.integrate import solve_ivp
    fam, rep, method = cfg["family"], cfg["rep"], cfg["method"]
    rgset = cfg["rg"].split("+")
    tuple_state = fam == "osc"
    ts, y0, p, w, w_leaf = _inputs(cfg, v, rgset, False)
    c = torch.tensor(v["c"], dtype=DT)
    k = torch.tensor(v["k"], dtype=DT)
    xp = torch.tensor([0.77], dtype=DT, requires_grad=("p" in rgset))
    xw = torch.tensor([-0.31], dtype=DT, requires_grad=("w" in rgset))
    s = v["s"]
    if rep == "nn":
        w_obj = torch.nn.Parameter(w.detach().clone(), requires_grad=("w" in rgset))
        k_obj = torch.nn.Parameter(k, requires_grad=False)
        xw_obj = torch.nn.Parameter(xw.detach().clone(), requires_grad=("w" in rgset))
    else:
        w_obj, k_obj, xw_obj = w, k, xw
    fcn, params, mod = build_rhs(fam, rep, c, s, p, xp, w_obj, k_obj, xw_obj)
    tight = cfg.get("opts") == "tight"
    zero = cfg.get("opts") if cfg.get("opts") in ZERO_OPTS else None
    opts = dict((ZERO_OPTS[zero] if zero else TIGHT_OPTS if tight else FWD_OPTS).get(method, {}))
    if cfg.get("fwd") == "tight":       # zero-tolerance request only in the backward options
        opts = dict(TIGHT_OPTS[method])
    kw = {}
    if cfg["bck"] == "fixed":
        kw["bck_options"] = {"method": cfg["bck_method"]}
    elif cfg["bck"] == "adaptive":
        kw["bck_options"] = dict(ZERO_BCK[zero] if zero else TIGHT_BCK if tight else BCK_ADAPTIVE)
    n = len(GRIDS[cfg["grid"]])
    cots = _cot(cfg, n, tuple_state, cfg.get("plane", 0), cfg.get("seed", 0))
    grid = _refine(ts, m)
    torch.manual_seed(0)
    o = call(solve_ivp, fcn, grid, y0, params=params, method=method, **opts, **kw)
    if o.exc is not None:
        return {"viol": V("exception:%s" % o.exc_sig, {"message": str(o.exc)[:300]}, stage="forward")}
    yt = o.value
    if cfg.get("mut") and mod is not None:
        # object history: after the forward call the user's object is given OTHER parameter values (as in a
        # training loop that reuses one module); the backward pass of the first result must not see them
        with torch.no_grad():
            neww = w_obj.detach() * 1.7 + 0.3
        if rep == "nn":
            mod.w = torch.nn.Parameter(neww, requires_grad=w_obj.requires_grad)
        else:
            mod.w = neww.requires_grad_(w_obj.requires_grad)
        w_after_mut = mod.w
    rows = [q[::m] for q in yt] if tuple_state else [yt[::m]]
    L = sum((r * ct).sum() for r, ct in zip(rows, cots))
    # gradients are linear in the cotangent: the loss is scaled by `cscale` (e.g. 1e-10) before and the gradients
    # are scaled back after the library's backward pass; nothing else changes
    cs = float(cfg.get("cscale", 1.0))
    if cs != 1.0:
        L = L * cs
    ins = {}
    if "y0" in rgset:
        if tuple_state:
            ins["y0"], ins["v0"] = y0
        else:
            ins["y0"] = y0
    if "p" in rgset:
        ins["p"] = p
        ins["xp"] = xp
    if "w" in rgset:
        ins["w"] = w_leaf if cfg.get("dep") else w_obj
        ins["xw"] = xw_obj
    if "ts" in rgset:
        ins["ts"] = ts
    names = list(ins)
    order = cfg["order"]
    if not L.requires_grad:
        return {"viol": V("output-does-not-require-grad", {"rg": cfg["rg"]}, stage="forward")}
    if cfg.get("prior_plain"):
        o0 = call(torch.autograd.grad, L, [ins[x] for x in names], retain_graph=True, allow_unused=True)
        if o0.exc is not None:
            return {"viol": V("exception:%s" % o0.exc_sig, {"message": str(o0.exc)[:300]}, stage="prior-plain-backward")}
    o = call(torch.autograd.grad, L, [ins[x] for x in names], create_graph=(order != "1"), allow_unused=True)
    if o.exc is not None:
        return {"viol": V("exception:%s" % o.exc_sig, {"message": str(o.exc)[:300]},
                          stage="backward" if order == "1" else "backward-create_graph")}
    g1 = dict(zip(names, [None if t is None else t / cs for t in o.value] if cs != 1.0 else o.value))
    if cfg.get("mut") and mod is not None and mod.w is not w_after_mut:
        return {"viol": V("object-attribute-reverted-by-the-backward-pass",
                          {"attribute": "w", "holds_forward_time_tensor": bool(mod.w is w_obj)}, stage="backward")}
    res = {"g1": {x: (None if t is None else t.detach().clone()) for x, t in g1.items()}, "names": names,
           "rows": [r.detach().clone() for r in rows]}
    if order == "2":
        S = None
        for x in names:
            if x in ("xp", "xw") or g1[x] is None:
                continue
            term = (g1[x] * _contr(g1[x])).sum()
            S = term if S is None else S + term
        if S is None or not S.requires_grad:
            return {"viol": V("first-order-gradient-not-differentiable", {"rg": cfg["rg"]}, stage="backward2")}
        o = call(torch.autograd.grad, S, [ins[x] for x in names], allow_unused=True)
        if o.exc is not None:
            return {"viol": V("exception:%s" % o.exc_sig, {"message": str(o.exc)[:300]}, stage="backward2")}
        res["g2"] = {x: (None if t is None else t.detach().clone()) for x, t in zip(names, o.value)}
    return res


def _contr(t):
    """fixed dense vector the first-order gradient is contracted with before the second differentiation"""
    n = t.numel()
    return (0.6 + 0.8 * torch.cos(0.9 * torch.arange(n, dtype=DT) + 0.3)).reshape(t.shape)


def _reference(cfg, v):
    fam = cfg["family"]
    rgset = cfg["rg"].split("+")
    tuple_state = fam == "osc"
    ts, y0, p, w, w_leaf = _inputs(cfg, v, rgset, True)
    c = torch.tensor(v["c"], dtype=DT)
    k = torch.tensor(v["k"], dtype=DT)
    n = len(GRIDS[cfg["grid"]])
    cots = _cot(cfg, n, tuple_state, cfg.get("plane", 0), cfg.get("seed", 0))
    ye = exact(fam, ts, y0, c, v["s"], p, w, k)
    rows = list(ye) if tuple_state else [ye]
    L = sum((r * ct).sum() for r, ct in zip(rows, cots))
    allin = {"p": p, "w": w_leaf, "ts": ts}
    if tuple_state:
        allin["y0"], allin["v0"] = y0
    else:
        allin["y0"] = y0
    names = list(allin)
    g = torch.autograd.grad(L, [allin[x] for x in names], create_graph=True, allow_unused=True)
    g1 = {x: (torch.zeros_like(allin[x]) if t is None else t) for x, t in zip(names, g)}
    out = {"g1": {x: t.detach().clone() for x, t in g1.items()}, "rows": [r.detach() for r in rows]}
    if cfg["order"] == "2":
        sel = []
        if "y0" in rgset:
            sel += ["y0", "v0"] if tuple_state else ["y0"]
        for x in ("p", "w", "ts"):
            if x in rgset:
                sel.append(x)
        S = sum((g1[x] * _contr(g1[x])).sum() for x in sel)
        if S.requires_grad:
            g2 = torch.autograd.grad(S, [allin[x] for x in names], allow_unused=True)
            out["g2"] = {x: (torch.zeros_like(allin[x]) if t is None else t.detach().clone())
                         for x, t in zip(names, g2)}
        else:
            out["g2"] = {x: torch.zeros_like(allin[x]) for x in names}
    return out


def _method_error(method, h, Lam):
    if method in FIXED:
        pp = ORDER[method]
        return (h * Lam) ** pp / math.factorial(pp)
    if method == "rk45":
        return 1000.0 * (1e-8 + 1e-10)
    return 1000.0 * (1e-7 + 1e-10)


def run_case(cfg):
    fam, method = cfg["family"], cfg["method"]
    v = instance(fam, cfg.get("plane", 0), cfg.get("seed", 0))
    pts = GRIDS[cfg["grid"]]
    n = len(pts)
    T = abs(pts[-1] - pts[0])
    hmax = max(abs(pts[i + 1] - pts[i]) for i in range(n - 1))
    Lam = rate_scale(fam, v, max(abs(x) for x in pts))
    F = math.exp(2.0 * Lam * T) * max(1.0, Lam * T)
    ref = _reference(cfg, v)
    euler = (method == "euler")
    viol = []
    nexec = 0
    if euler:
        ea = _experiment(cfg, v, 4)
        eb = _experiment(cfg, v, 8)
        nexec = 2
        for e in (ea, eb):
            if "viol" in e:
                viol.append(e["viol"])
        if viol:
            return {"viol": viol[:1], "obs": {"exc": viol[0]["failure"][:80]}, "status": "exception", "n": nexec}
        exps = [ea, eb]
    else:
        e = _experiment(cfg, v, 1)
        nexec = 1
        if "viol" in e:
            return {"viol": [e["viol"]], "obs": {"exc": e["viol"]["failure"][:80]}, "status": "exception", "n": 1}
        exps = [e]

    # magnitude of the case
    G1 = max([float(t.abs().max()) for t in ref["g1"].values()] + [float(r.abs().max()) for r in ref["rows"]])
    obs = {}
    worst = {}
    for level in (["g1", "g2"] if cfg["order"] == "2" else ["g1"]):
        K = 1.0 if level == "g1" else 10.0
        G = max([float(t.abs().max()) for t in ref[level].values()] + [G1])
        names = exps[0]["names"]
        for x in names:
            got = [e[level][x] for e in exps]
            if x in ("xp", "xw"):
                for gg in got:
                    if gg is not None and float(gg.abs().max()) != 0.0:
                        viol.append(V("unused-parameter-gets-gradient:%s" % x, {"grad": rnd(gg), "level": level},
                                      tensor=x, level=level))
                continue
            r = ref[level][x]
            got = [torch.zeros_like(r) if gg is None else gg for gg in got]
            if any(gg.shape != r.shape for gg in got):
                viol.append(V("grad-shape:%s" % x, {"got": list(got[0].shape), "expected": list(r.shape)},
                              tensor=x, level=level))
                continue
            scale = max(float(r.abs().max()), 0.1 * G)
            if euler:
                h = hmax / 4.0
                e1 = float((got[0] - r).abs().max())
                eR = float((2.0 * got[1] - got[0] - r).abs().max())
                tol1 = 20.0 * K * (h * Lam) * F * scale
                tolR = 10.0 * K * (h * Lam) ** 2 * F * scale
                ratio = max(e1 / tol1, eR / tolR)
                if not (e1 <= tol1):
                    viol.append(V("grad-mismatch:%s" % x, {"level": level, "max_abs_err": e1, "tol": tol1,
                                                          "got": rnd(got[0]), "reference": rnd(r), "judged": "euler h"},
                                  tensor=x, level=level))
                elif not (eR <= tolR):
                    viol.append(V("grad-mismatch:%s" % x, {"level": level, "richardson_err": eR, "tol": tolR,
                                                          "err_h": e1,
                                                          "err_h/2": float((got[1] - r).abs().max()),
                                                          "got": rnd(got[1]), "reference": rnd(r),
                                                          "judged": "euler refinement: error does not shrink like h"},
                                  tensor=x, level=level))
            else:
                if cfg.get("opts") in ZERO_OPTS:
                    # as below; the requests (absolute 1e-11 / 1e-10 on values of order one, or relative 1e-10 /
                    # 1e-9) are all at least as strict as a relative request of 1e-9
                    rel = K * 20.0 * n * 2e-9
                elif cfg.get("opts") == "tight":
                    # dissipative problem: local errors are not amplified; every one of the n - 1 segments of the
                    # forward and of the backward integration contributes at most ~ its requested tolerance
                    rt = TIGHT_OPTS[method]["rtol"] + TIGHT_OPTS[cfg["bck_method"]]["rtol"]
                    rel = K * 20.0 * n * rt
                else:
                    rel = K * F * (_method_error(method, hmax, Lam) + _method_error(cfg["bck_method"], hmax, Lam))
                tol = rel * scale
                e1 = float((got[0] - r).abs().max())
                ratio = e1 / tol
                if not (e1 <= tol):
                    viol.append(V("grad-mismatch:%s" % x, {"level": level, "max_abs_err": e1, "tol": tol,
                                                          "rel_tol": rel, "got": rnd(got[0]), "reference": rnd(r)},
                                  tensor=x, level=level))
            worst[level + ":" + x] = rnd(ratio, 3)
    # forward values (sanity of the pairing of library and reference instance; tolerance as for the gradients)
    rows = exps[-1]["rows"]
    fe = max(float((a - b).abs().max()) for a, b in zip(rows, ref["rows"]))
    obs["fwd_err"] = rnd(fe, 3)
    obs["err_over_tol"] = worst
    obs["g1"] = {x: rnd(t, 5) for x, t in list(exps[-1]["g1"].items())[:3] if t is not None}
    return {"viol": viol[:8], "obs": obs, "n": nexec, "status": "ok" if not viol else "violation"}


def coverage_extra(tier, seed, results):
    dims = {}
    for r in results:
        for k in ("family", "rep", "method", "bck", "grid", "rg", "cot", "order"):
            dims.setdefault(k, set()).add(r["cfg"][k])
    return {"dimension_values": {k: sorted(vv) for k, vv in dims.items()}}

# ---- call-order plane (executed by mc/core.py in fresh interpreters, see mc/props/_hist_common.py): the result of
# a call must not depend on which other calls (other dtype / method / size / options) were made before it
_HIST_LABELS = [('float32', 'rk4'), ('float64', 'rk4'), ('float64', 'rk45'), ('float32', 'rk45'), ('float64', 'rk38')]
HISTORY = {"labels": ["/".join(str(x) for x in c) for c in _HIST_LABELS], "tol": [0.001, 1e-11, 1e-10, 0.01, 1e-11],
           "depth": {"quick": 2, "thorough": 3},
           "prelude": r'''import torch, xitorch
from xitorch.integrate import solve_ivp
CALLS = %r
SHARED = {}      # ONE options dict object handed to every call as bck_options (a caller re-using its settings)
def do(i):
    dtn, method = CALLS[i]
    dt = getattr(torch, dtn)
    A = torch.tensor([[-0.3, 2.0], [-1.5, -0.3]], dtype=dt, requires_grad=True)
    y0 = torch.tensor([1.0, -0.5], dtype=dt, requires_grad=True)
    ts = torch.linspace(0.0, 1.0, 5, dtype=dt)
    opts = {"atol": 1e-12, "rtol": 1e-9} if (method == "rk45" and dtn == "float64") else ({} if method != "rk45" else {"atol": 1e-6, "rtol": 1e-4})
    yt = solve_ivp(lambda t, y, A: A @ y, ts, y0, params=(A,), method=method, bck_options=SHARED, **opts)
    gA, gy = torch.autograd.grad((yt * yt).sum(), (A, y0))
    if SHARED != {}:
        raise RuntimeError("the caller's bck_options dict was modified: %%r" %% (SHARED,))
    return torch.cat([gA.reshape(-1), gy.reshape(-1)]).double().tolist()
''' % (_HIST_LABELS,)}
