"""Shared construction code for C01 / C02 (xitorch.linalg.solve): value alphabet, operator kinds,
batch-shape lattice and the dense reference.  No oracle lives here."""
from __future__ import annotations
import os
import sys
import contextlib
import itertools
import torch
from xitorch import LinearOperator
from mc.util import gen, randn, orth

DT = {"f32": torch.float32, "f64": torch.float64, "c128": torch.complex128}
EPS = {"f32": 1.2e-7, "f64": 2.3e-16, "c128": 2.3e-16}


@contextlib.contextmanager
def quiet_stderr():
    """silence messages that native libraries write to file descriptor 2 (python exceptions are unaffected)"""
    try:
        sys.stderr.flush()
        saved = os.dup(2)
        devnull = os.open(os.devnull, os.O_WRONLY)
    except OSError:
        yield
        return
    try:
        os.dup2(devnull, 2)
        yield
    finally:
        os.dup2(saved, 2)
        os.close(saved)
        os.close(devnull)


def wide(dtype):
    """dtype in which the reference is evaluated"""
    return torch.complex128 if dtype.is_complex else torch.float64


# ---------------------------------------------------------------- batch shapes
SHAPES6 = ["", "2", "1", "2,1", "1,3", "2,3"]


def shp(s):
    """'2,1' -> (2, 1) ; '' -> ()"""
    if s is None:
        return None
    return tuple(int(t) for t in s.split(",") if t != "")


def bcast_shape(*shapes):
    """broadcast of batch shapes or None if not broadcastable (None entries are skipped)"""
    shapes = [s for s in shapes if s is not None]
    try:
        return tuple(torch.broadcast_shapes(*shapes))
    except RuntimeError:
        return None


def batch_patterns(alphabet, emode):
    """all mutually broadcastable assignments of the alphabet to the operands present in `emode`
    -> list of (bA, bB, bE, bM) strings / None"""
    out = []
    nops = {"none": 2, "E": 3, "EM": 4}[emode]
    for combo in itertools.product(alphabet, repeat=nops):
        if bcast_shape(*[shp(c) for c in combo]) is None:
            continue
        combo = list(combo) + [None] * (4 - nops)
        out.append(tuple(combo))
    return out


# ---------------------------------------------------------------- operator classes
# NB: every class derives directly from LinearOperator (capability flags are cached per class).

def _mvmat(mat, x):
    return torch.matmul(mat, x.unsqueeze(-1)).squeeze(-1)


class OpMV(LinearOperator):
    """matrix-free, only _mv"""

    def __init__(self, mat, herm=False):
        super().__init__(shape=mat.shape, is_hermitian=herm, dtype=mat.dtype, device=mat.device)
        self.mat = mat

    def _mv(self, x):
        return _mvmat(self.mat, x)

    def _getparamnames(self, prefix=""):
        return [prefix + "mat"]


class OpMVR(LinearOperator):
    """matrix-free, _mv and _rmv"""

    def __init__(self, mat):
        super().__init__(shape=mat.shape, is_hermitian=False, dtype=mat.dtype, device=mat.device)
        self.mat = mat

    def _mv(self, x):
        return _mvmat(self.mat, x)

    def _rmv(self, x):
        return _mvmat(self.mat.transpose(-2, -1).conj(), x)

    def _getparamnames(self, prefix=""):
        return [prefix + "mat"]


class OpFull(LinearOperator):
    """_mv, _mm, _rmv, _rmm, _fullmatrix"""

    def __init__(self, mat):
        super().__init__(shape=mat.shape, is_hermitian=False, dtype=mat.dtype, device=mat.device)
        self.mat = mat

    def _mv(self, x):
        return _mvmat(self.mat, x)

    def _mm(self, x):
        return torch.matmul(self.mat, x)

    def _rmv(self, x):
        return _mvmat(self.mat.transpose(-2, -1).conj(), x)

    def _rmm(self, x):
        return torch.matmul(self.mat.transpose(-2, -1).conj(), x)

    def _fullmatrix(self):
        return self.mat

    def _getparamnames(self, prefix=""):
        return [prefix + "mat"]


HERM_ONLY_KINDS = ("dense_h", "mv_h", "add_h")
JAC_KINDS = ("jac_lin", "jac_tanh")
OPKINDS = ["dense", "dense_h", "mv", "mvrmv", "full", "mv_h", "add", "add_h", "sub", "matmul",
           "scale2", "scale2_mv", "scaleneg", "adj", "adj_mv", "jac_lin", "jac_tanh"]


def _fixed(n, dtype, tag):
    """a fixed (case independent) generic n x n matrix with entries O(1/sqrt(n))"""
    g = gen(7919 + tag)
    return randn((n, n), dtype, g) / (n ** 0.5)


def build_op(kind, mat):
    """LinearOperator of the given kind whose dense matrix equals `mat` (batched allowed except jac_*)"""
    import xitorch
    import xitorch.grad
    n = mat.shape[-1]
    dt = mat.dtype
    if kind == "dense":
        return LinearOperator.m(mat, is_hermitian=False)
    if kind == "dense_auto":
        return LinearOperator.m(mat)
    if kind == "dense_h":
        return LinearOperator.m(mat, is_hermitian=True)
    if kind == "mv":
        return OpMV(mat, False)
    if kind == "mv_h":
        return OpMV(mat, True)
    if kind == "mvrmv":
        return OpMVR(mat)
    if kind == "full":
        return OpFull(mat)
    if kind == "add":
        s = 0.3 * _fixed(n, dt, 1)
        return OpMVR(0.5 * mat + s) + LinearOperator.m(0.5 * mat - s, is_hermitian=False)
    if kind == "add_h":
        s = 0.3 * _fixed(n, dt, 2)
        s = s + s.transpose(-2, -1).conj()
        return OpMV(0.5 * mat + s, True) + LinearOperator.m(0.5 * mat - s, is_hermitian=True)
    if kind == "sub":
        s = 0.3 * _fixed(n, dt, 3)
        return OpMVR(mat + s) - OpFull(s)
    if kind == "matmul":
        gm = torch.eye(n, dtype=dt) + 0.4 * _fixed(n, dt, 4)
        return OpMVR(gm).matmul(OpFull(torch.linalg.solve(gm, mat)))
    if kind == "scale2":
        return 2.0 * OpMVR(0.5 * mat)
    if kind == "scale2_mv":
        return 2.0 * OpMV(0.5 * mat, False)
    if kind == "scaleneg":
        return OpMVR(-2.0 * mat) * (-0.5)
    if kind == "adj":
        return OpMVR(mat.transpose(-2, -1).conj().contiguous()).H
    if kind == "adj_mv":
        return OpMV(mat.transpose(-2, -1).conj().contiguous(), False).H
    if kind == "jac_lin":
        assert mat.dim() == 2 and not dt.is_complex
        y0 = torch.linspace(-0.5, 0.7, n, dtype=dt).requires_grad_()

        def flin(y, m):
            return m @ y
        return xitorch.grad.jac(flin, (y0, mat), idxs=0)
    if kind == "jac_tanh":
        assert mat.dim() == 2 and not dt.is_complex
        y0 = torch.linspace(-0.5, 0.7, n, dtype=dt).requires_grad_()
        w = _fixed(n, dt, 5)
        d = 1.0 / torch.cosh(w @ y0.detach()) ** 2
        lin = mat - d.unsqueeze(-1) * w       # so that the Jacobian at y0 equals `mat`

        def ftanh(y, lin_, w_):
            return lin_ @ y + torch.tanh(w_ @ y)
        return xitorch.grad.jac(ftanh, (y0, lin, w), idxs=0)
    raise KeyError(kind)


# ---------------------------------------------------------------- value alphabet

def spectrum(spec, n, kappa):
    lam = torch.linspace(1.0, float(kappa), n, dtype=torch.float64) if n > 1 else torch.tensor([1.5], dtype=torch.float64)
    if spec == "indef":
        sg = torch.tensor([1.0 if i % 2 == 0 else -1.0 for i in range(n)], dtype=torch.float64)
        if n == 1:
            sg = -sg
        lam = lam * sg
    return lam


def make_A0(spec, n, dtype, g, batch, kappa):
    """Q (diag(lam) [+ 0.3 T]) Q^H ; T strictly upper triangular with unit spectral norm (spec == nonherm)"""
    lam = spectrum(spec, n, kappa)
    q = orth(n, dtype, g, batch)
    core = torch.diag(lam).to(dtype)
    if spec == "nonherm" and n > 1:
        t = torch.triu(randn(tuple(batch) + (n, n), dtype, g), diagonal=1)
        t = t / torch.linalg.matrix_norm(t, ord=2).unsqueeze(-1).unsqueeze(-1)
        core = core + 0.3 * t
    elif spec == "nonherm":
        core = core.expand(tuple(batch) + (1, 1))
    return q @ core @ q.transpose(-2, -1).conj()


def make_L(n, dtype, g, batch):
    """Hermitian positive definite factor with eigenvalues in [1, 2]  (M = L L^H has kappa <= 4)"""
    mu = torch.linspace(1.0, 2.0, n, dtype=torch.float64) if n > 1 else torch.tensor([1.3], dtype=torch.float64)
    u = orth(n, dtype, g, batch)
    return (u * mu.to(dtype)) @ u.transpose(-2, -1).conj()


E_BASE = {"spd": [-0.7, 0.2, -1.5, 0.4], "nonherm": [-0.7, 0.2, -1.5, 0.1], "indef": [-0.4, 0.2, 0.5, -0.1],
          "neg": [-0.7, -0.3, -1.5, -0.15]}
E_IMAG = [0.5, -0.4, 0.3, -0.6]


def make_E(spec, ncols, batch, ecplx, dtype, g):
    """(*batch, ncols); column c = base value c + batch dependent offset in [-0.1, 0.1]; imaginary part if ecplx"""
    rd = torch.float32 if dtype == torch.float32 else torch.float64
    base = torch.tensor([E_BASE[spec][c % 4] for c in range(ncols)], dtype=rd)
    off = (torch.rand(tuple(batch) + (ncols,), dtype=rd, generator=g) - 0.5) * 0.2
    e = base + off
    if ecplx:
        im = torch.tensor([E_IMAG[c % 4] for c in range(ncols)], dtype=rd)
        e = torch.complex(e, im + 0.0 * off)
    return e


def make_B(bkind, n, ncols, batch, dtype, g):
    b = randn(tuple(batch) + (n, ncols), dtype, g)
    if bkind == "dense":
        return b
    if bkind == "zero":
        return torch.zeros_like(b)
    if bkind == "zerocol":
        b[..., :, ncols // 2] = 0
        return b
    if bkind == "unit":
        b = torch.zeros_like(b)
        for c in range(ncols):
            b[..., c % n, c] = 1.0
        return b
    raise KeyError(bkind)


def make_problem(spec, n, ncols, dtype, emode, ecplx, bA, bB, bE, bM, kappa, vseed, bkind="dense"):
    """dense tensors of one instance.  A = L A0 L^H, M = L L^H when M is present.
    returns dict(A, B, E, M) (E, M may be None)"""
    g = gen(vseed)
    a0 = make_A0(spec, n, dtype, g, bA, kappa)
    bt = make_B(bkind, n, ncols, bB, dtype, g)
    tied = emode == "EM" and len(bM) <= len(bA) and bcast_shape(bM, bA) == tuple(bA)
    # A0 and M with independent batch shapes cannot be tied through L: use negative shifts there (A0 + |e| M)
    espec = "neg" if (emode == "EM" and not tied and spec != "indef") else spec
    et = make_E(espec, ncols, bE, ecplx, dtype, g) if emode != "none" else None
    mt = None
    if emode == "EM":
        lm = make_L(n, dtype, g, bM)
        mt = lm @ lm.transpose(-2, -1).conj()
        mt = 0.5 * (mt + mt.transpose(-2, -1).conj())
        if tied:
            a0 = lm @ a0 @ lm.transpose(-2, -1).conj()
            if spec != "nonherm":
                a0 = 0.5 * (a0 + a0.transpose(-2, -1).conj())
        # otherwise A keeps its own batch shape: A0 and M are independent (conditioning is measured, not assumed)
    elif spec != "nonherm":
        a0 = 0.5 * (a0 + a0.transpose(-2, -1).conj())
    return {"A": a0, "B": bt, "E": et, "M": mt}


# ---------------------------------------------------------------- dense reference

def dense_systems(A, E, M, ncols, batch):
    """S[..., c, :, :] = A - e_c M  broadcast to (*batch, ncols, n, n) in the wide dtype"""
    n = A.shape[-1]
    wd = wide(A.dtype)
    Aw = A.to(wd)
    Ab = Aw.expand(tuple(batch) + (n, n)).unsqueeze(-3)                       # (*b, 1, n, n)
    if E is None:
        return Ab.expand(tuple(batch) + (ncols, n, n)).clone()
    Eb = E.to(wd).expand(tuple(batch) + (ncols,))                             # (*b, ncols)
    if M is None:
        Mb = torch.eye(n, dtype=wd).expand(tuple(batch) + (n, n))
    else:
        Mb = M.to(wd).expand(tuple(batch) + (n, n))
    return Ab - Eb.unsqueeze(-1).unsqueeze(-1) * Mb.unsqueeze(-3)            # (*b, ncols, n, n)


def dense_solve(S, B, batch):
    """column-by-column reference.  S: (*b, ncols, n, n); B: (*bB, n, ncols) -> X (*b, n, ncols)"""
    n, ncols = B.shape[-2:]
    Bw = B.to(S.dtype).expand(tuple(batch) + (n, ncols))
    cols = [torch.linalg.solve(S[..., c, :, :], Bw[..., :, c]) for c in range(ncols)]
    return torch.stack(cols, dim=-1)


def residual(S, X, B, batch):
    """per (batch, column) 2-norm of S_c x_c - b_c -> (*b, ncols)"""
    n, ncols = B.shape[-2:]
    Bw = B.to(S.dtype).expand(tuple(batch) + (n, ncols))
    Xw = X.to(S.dtype)
    r = torch.einsum("...cij,...jc->...ic", S, Xw) - Bw
    return r.norm(dim=-2)
