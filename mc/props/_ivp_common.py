"""Shared, boring reference material for the solve_ivp checks (C07, C08).

* textbook Butcher tableaus of the three fixed-step methods named in the documentation,
* rooted trees up to order 5 (17 trees), density gamma(tau), elementary weights Phi_k(tau),
* a call-programmed / logging right-hand side,
* a parser of the evaluation log of an embedded Runge-Kutta stepper with one evaluation at the start and
  s evaluations per attempted step (the last one at the end of the step).
"""
from __future__ import annotations
import math
import torch

FIXED = ("euler", "rk4", "rk38")
ADAPTIVE = ("rk23", "rk45")
METHODS = FIXED + ADAPTIVE
STAGES = {"euler": 1, "rk4": 4, "rk38": 4, "rk23": 3, "rk45": 6}     # stages of the propagated formula
ORDER = {"euler": 1, "rk4": 4, "rk38": 4, "rk23": 3, "rk45": 5}      # declared order of the propagated solution
EMB_ORDER = {"rk23": 2, "rk45": 4}                                    # declared order of the embedded formula

# textbook tableaus (c, A, b): forward Euler, the classical Runge-Kutta method, Kutta's 3/8 rule
TABLEAU = {
    "euler": ([0.0], [[0.0]], [1.0]),
    "rk4": ([0.0, 0.5, 0.5, 1.0],
            [[0.0, 0.0, 0.0, 0.0], [0.5, 0.0, 0.0, 0.0], [0.0, 0.5, 0.0, 0.0], [0.0, 0.0, 1.0, 0.0]],
            [1.0 / 6.0, 1.0 / 3.0, 1.0 / 3.0, 1.0 / 6.0]),
    "rk38": ([0.0, 1.0 / 3.0, 2.0 / 3.0, 1.0],
             [[0.0, 0.0, 0.0, 0.0], [1.0 / 3.0, 0.0, 0.0, 0.0], [-1.0 / 3.0, 1.0, 0.0, 0.0], [1.0, -1.0, 1.0, 0.0]],
             [1.0 / 8.0, 3.0 / 8.0, 3.0 / 8.0, 1.0 / 8.0]),
}


# textbook error weights b - b_hat (including the FSAL stage) of the Bogacki-Shampine 3(2) and Dormand-Prince 5(4)
# pairs.  Used ONLY to recognise steps on which the embedded estimate of the textbook pair is blind (estimate below
# the tolerance although the true local error is far above it): such an instance cannot be held against the
# implementation, any correct implementation of the pair accepts the step.  Never used to flag a violation.
EMB_E = {
    "rk23": [5.0 / 72.0, -1.0 / 12.0, -1.0 / 9.0, 1.0 / 8.0],
    "rk45": [-71.0 / 57600.0, 0.0, 71.0 / 16695.0, -71.0 / 1920.0, 17253.0 / 339200.0, -22.0 / 525.0, 1.0 / 40.0],
}


def eps_of(dtype):
    return torch.finfo(dtype).eps


def dt_of(name):
    return {"float64": torch.float64, "float32": torch.float32}[name]


# ------------------------------------------------------------------ rooted trees

def _multisets(total, pool_by_order, max_key):
    """all multisets (sorted tuples) of trees with total order `total`, every member <= max_key in the canonical
    enumeration order (order, index)"""
    if total == 0:
        yield ()
        return
    for o in range(min(total, max_key[0]), 0, -1):
        pool = pool_by_order[o]
        hi = len(pool) - 1 if o < max_key[0] else min(max_key[1], len(pool) - 1)
        for i in range(hi, -1, -1):
            for rest in _multisets(total - o, pool_by_order, (o, i)):
                yield (pool[i],) + rest


def rooted_trees(max_order):
    """dict order -> list of trees; a tree is the tuple of its sub-trees (() is the single node)"""
    by = {1: [()]}
    for n in range(2, max_order + 1):
        by[n] = []
        for ms in _multisets(n - 1, by, (n - 1, 10 ** 9)):
            by[n].append(tuple(ms))
    return by


def tree_order(t):
    return 1 + sum(tree_order(c) for c in t)


def tree_gamma(t):
    g = tree_order(t)
    for c in t:
        g *= tree_gamma(c)
    return g


def tree_name(t):
    return "[" + "".join(tree_name(c) for c in t) + "]"


def elem_weights(A, t):
    """Phi_k(t) for every stage k of the (strictly lower triangular) matrix A given as list of lists of floats"""
    n = len(A)
    if len(t) == 0:
        return [1.0] * n
    out = [1.0] * n
    for c in t:
        ph = elem_weights(A, c)
        for k in range(n):
            out[k] *= math.fsum(A[k][j] * ph[j] for j in range(len(A[k])))
    return out


# ------------------------------------------------------------------ logging / call-programmed right-hand side

class EvaluationBudgetExceeded(RuntimeError):
    """raised by a spied right-hand side after EVAL_BUDGET evaluations in one solve (the largest count on any
    enumerated case is below 6 000; the step-size control of a pair of the stated orders cannot need 50x that)"""


EVAL_BUDGET = 100000


class Spy:
    """builds a plain python function f(t, y, *params) (solve_ivp only accepts functions and methods) which logs
    every call and answers either with `answer(k, t, y)` (call-programmed) or with `rhs(t, y, *params)`"""

    def __init__(self, rhs=None, answer=None):
        self.log = []            # (t as python float, detached clone of y (tensor or tuple of tensors))
        self.grad_mode = []
        self.rhs = rhs
        self.answer = answer

        def f(t, y, *params):
            k = len(self.log)
            if isinstance(y, (tuple, list)):
                yc = tuple(v.detach().clone() for v in y)
            else:
                yc = y.detach().clone()
            if k >= EVAL_BUDGET:
                raise EvaluationBudgetExceeded("more than %d evaluations of the right-hand side in one run: the step "
                                               "size does not follow the requested tolerances" % EVAL_BUDGET)
            self.log.append((float(t), yc))
            self.grad_mode.append(torch.is_grad_enabled())
            if self.answer is not None:
                return self.answer(k, t, y)
            return self.rhs(t, y, *params)
        self.f = f


def unit_answer(n, dtype):
    def ans(k, t, y):
        e = torch.zeros(n, dtype=dtype)
        if k < n:
            e[k] = 1.0
        return e
    return ans


# ------------------------------------------------------------------ log parser for the embedded steppers

def parse_attempts(times, s, sgn, t_first):
    """times: logged evaluation times (user coordinates); s: evaluations per attempted step; sgn: +1/-1 direction.
    The log is read as `pre` leading evaluations (1: the derivative at the start; 2: one more probing evaluation of
    an initial-step heuristic) followed by G attempts of s evaluations.  Returns None when the length fits
    neither, else a list of attempts
    {"lo": first call index, "u0": start, "u1": end (time of the last evaluation), "acc": accepted, "us": [times],
     "pre": pre} in the direction-normalised time u = sgn*t.  An attempt is rejected iff the next attempt ends
    strictly before it (a retry uses a smaller step from the same start); the last attempt is accepted."""
    n = len(times)
    if n >= 1 and (n - 1) % s == 0:
        pre = 1
    elif n >= 2 and (n - 2) % s == 0:
        pre = 2
    else:
        return None
    G = (n - pre) // s
    u = [sgn * x for x in times]
    ends = [u[pre + g * s + s - 1] for g in range(G)]
    out = []
    ustart = sgn * t_first
    for g in range(G):
        acc = (g == G - 1) or (ends[g + 1] >= ends[g])
        lo = pre + g * s
        out.append({"lo": lo, "u0": ustart, "u1": ends[g], "acc": acc, "us": u[lo: lo + s], "pre": pre})
        if acc:
            ustart = ends[g]
    return out
