"""C15 -- SQuad integrates the interpolant of the samples exactly.

Every point of a finite lattice (method x boundary condition x grid x number of points x rank of y x position and
sign of the integration axis x keepdim x x.requires_grad x dtype) is executed on the real `xitorch.integrate.SQuad`.
The cumulative weight matrix is observed by integrating the zero vector, every unit vector (a basis of the
admissible sample vectors) and one dense vector, spread over the other axes of y (engine E4)."""
from __future__ import annotations
import numpy as np
import torch

from mc.util import V, call, rnd
from mc.props import _interp_common as ic

ID = "C15"
LEVEL = "exploration"
DESIGN_REF = "DESIGN.md §5 C15"
RULE = ("case = (method/bc in {trapz, simpson, cspline x (default, not-a-knot, natural, clamped, periodic)}, grid in "
        "{uniform, cheb, geom[, jitter planes]}, nx, (rank of y in 1..4, integration axis at every position, given "
        "as positive and as negative dim), keepdim, (xgrad, dtype) in {(0,f64),(1,f64),(0,f32)} (rank 4: (0,f64) "
        "only)); quick: nx in {2,3,4,5,6,7,12,25}, full product; "
        "thorough: nx in {2..13,16,25,40} + seed-dependent jitter-grid planes; inside a case cumsum and integrate "
        "are executed on (zero, every unit vector, one dense vector) laid out over the other axes "
        "(sizes 2, 3, 2), on a non-contiguous (transposed) copy of the first block, and on inputs whose length along dim is nx-1 and "
        "nx+1 and 1 (must raise); distinct = distinct rounded error records; trivial when construction raised")
RULE_ADDED = 'Added later: singleton axes, regrid (grid tensor updated in place between two constructions), prior (the same SQuad object used along other dims of tensors of other ranks before the judged calls), call-order plane in fresh interpreters. Round 6: grids in other units (exact scaling by 2^-30 / 2^20), nearly equidistant grid, large plane (300x128, 70x256, 4200x33 rows x samples: all rows at once == rows in blocks == integrate).'
ASSUMPTIONS = [
    "x is 1-D, strictly increasing (documented); y[0] == y[-1] for the periodic boundary condition",
    "simpson: the running integral at even positions is the sum of the integrals of the parabolas through "
    "consecutive triples; at odd positions i >= 3 the last interval uses the parabola through points i-2, i-1, i "
    "(the rule of the reference cited in the source); position 1 may be the trapezoid (as implemented) or the "
    "parabola through the first three points",
    "cspline without bc_type: natural (signature default) or not-a-knot (Interp1D's documented default) accepted",
    "2 or 3 points with not-a-knot: reference = scipy (straight line / parabola), for 3 points any single cubic "
    "through the samples is accepted",
    "x.requires_grad only has to leave the values unchanged (the statement says nothing about derivatives)",
]
BUDGET_S = {"quick": 300, "thorough": 2400}
SELFTEST_N = 3

MB = [("trapz", "None"), ("simpson", "None"), ("cspline", "default"), ("cspline", "not-a-knot"),
      ("cspline", "natural"), ("cspline", "clamped"), ("cspline", "periodic")]
RANKDIMS = [(r, d) for r in (1, 2, 3, 4) for d in list(range(r)) + list(range(-r, 0))]
OTHER = {1: (), 2: (2,), 3: (2, 3), 4: (2, 3, 2)}
# the same ranks with axes of length 1 among the other dimensions (must be kept, not squeezed away)
OTHER1 = {1: (), 2: (1,), 3: (3, 1), 4: (1, 3, 1)}
EPS = {"float64": 2.220446049250313e-16, "float32": 1.1920928955078125e-07}


def tolerance(dtn, xs):
    """float64: 'exact' integration of the interpolant is taken as 1e-10 relative to max(1, largest weight)
    (measured ~1e-14; a wrong coefficient gives >= 1e-3).  float32: eps * nx * spacing ratio * 64."""
    if dtn == "float64":
        return 1e-10
    dx = np.diff(xs)
    return 64 * EPS[dtn] * len(xs) * float(dx.max() / dx.min())


def _cfg(m, bc, g, n, rank, dim, keepdim, xgrad, dt, plane=0, seed=0):
    return {"method": m, "bc": bc, "grid": g, "nx": n, "rank": rank, "dim": dim, "keepdim": keepdim, "xgrad": xgrad,
            "dtype": dt, "plane": plane, "seed": seed if plane else 0}


def cases(tier, seed):
    out = []
    if tier == "quick":
        ns = (2, 3, 4, 5, 6, 7, 12, 25)
    else:
        ns = tuple(range(2, 14)) + (16, 25, 40)
    for n in ns:
        for (m, bc) in MB:
            for g in ("uniform", "cheb", "geom", "nearuni"):
                if n == 2 and g != "uniform":
                    continue            # all grids coincide for two points
                for (rank, dim) in RANKDIMS:
                    for kd in (0, 1):
                        for (xg, dt) in ((0, "float64"), (1, "float64"), (0, "float32")):
                            if rank == 4 and (xg or dt != "float64"):
                                continue
                            out.append(_cfg(m, bc, g, n, rank, dim, kd, xg, dt))
                            if rank <= 2 and xg == 0 and kd == 0 and dim in (0, -1) and n in (4, 7):
                                c2 = _cfg(m, bc, g, n, rank, dim, kd, xg, dt)
                                c2["regrid"] = 1
                                out.append(c2)
                            if rank <= 3 and xg == 0 and dt == "float64" and g == "uniform" and n in (4, 7):
                                # object history: the same SQuad object has been used along OTHER dims before
                                for prior in ("cumsum", "integrate"):
                                    c3 = _cfg(m, bc, g, n, rank, dim, kd, xg, dt)
                                    c3["prior"] = prior
                                    out.append(c3)
                            if rank <= 2 and xg == 0 and dt == "float64" and kd == 0 and n in (3, 5, 7, 12):
                                # the grid in other units: spacings of 1e-9 .. 1e-10 and of 1e5 .. 1e6
                                for sc in (2.0 ** -30, 2.0 ** 20):
                                    c4 = _cfg(m, bc, g, n, rank, dim, kd, xg, dt)
                                    c4["xscale"] = sc
                                    out.append(c4)
                            if rank >= 2 and xg == 0 and dt == "float64" and g == "uniform" and n in (3, 5, 6):
                                c1 = _cfg(m, bc, g, n, rank, dim, kd, xg, dt)
                                c1["ones"] = 1
                                out.append(c1)
    # many rows x many samples: temporaries of 2^22 .. 2^24 elements (size thresholds in the implementation)
    for (m, bc) in MB:
        for (rows, n) in ((300, 128), (70, 256), (4200, 33)) if tier == "quick" else \
                ((300, 128), (70, 256), (4200, 33), (1100, 64), (90000, 7)):
            for dim in (0, -1):
                c5 = _cfg(m, bc, "cheb", n, 2, dim, 0, 0, "float64")
                c5.update({"large": 1, "rows": rows})
                out.append(c5)
    if tier != "quick":
        for plane in (1, 2, 3):
            for n in ns:
                if n == 2:
                    continue
                for (m, bc) in MB:
                    for (rank, dim) in ((1, 0), (2, 0), (3, 1), (3, -1), (4, -3)):
                        for kd in (0, 1):
                            out.append(_cfg(m, bc, "jitter", n, rank, dim, kd, 0, "float64", plane, seed))
    return out


# ------------------------------------------------------------------ references (cached per worker)

_CACHE = {}


def _cached(key, fn):
    r = _CACHE.get(key)
    if r is None:
        if len(_CACHE) > 2000:
            _CACHE.clear()
        r = fn()
        _CACHE[key] = r
    return r


def ref_trapz(xs, basis):
    dx = np.diff(xs)[:, None]
    seg = 0.5 * (basis[1:] + basis[:-1]) * dx
    return np.concatenate([np.zeros((1, basis.shape[1])), np.cumsum(seg, axis=0)], axis=0)      # (n, nb)


def ref_cspline(xs, basis, bc):
    cs = ic.cubic_spline(xs, basis, bc)
    return cs.antiderivative()(xs)                                                             # (n, nb), 0 at xs[0]


def _par_int(xs, col, i0, lo, hi):
    """integral over [xs[lo], xs[hi]] of the parabola through the samples i0, i0+1, i0+2"""
    t = xs[i0:i0 + 3] - xs[i0]
    co = np.polyfit(t, col[i0:i0 + 3], 2)
    P = np.polyint(co)
    return np.polyval(P, xs[hi] - xs[i0]) - np.polyval(P, xs[lo] - xs[i0])


def ref_simpson(xs, basis, first):
    """first: 'trapz' or 'parabola' -- the rule for position 1"""
    n, nb = basis.shape
    W = np.zeros((n, nb))
    for j in range(nb):
        col = basis[:, j]
        for i in range(1, n):
            if i % 2 == 0:
                W[i, j] = W[i - 2, j] + _par_int(xs, col, i - 2, i - 2, i)
            elif i == 1:
                if first == "trapz" or n < 3:
                    W[i, j] = 0.5 * (col[0] + col[1]) * (xs[1] - xs[0])
                else:
                    W[i, j] = _par_int(xs, col, 0, 0, 1)
            else:
                W[i, j] = W[i - 1, j] + _par_int(xs, col, i - 2, i - 1, i)
    return W


def references(xs, method, bc, basis):
    """list of (label, (n, nb) reference cumulative weights); the implementation must match one of them"""
    key = (xs.tobytes(), method, bc, basis.shape[1])

    def build():
        if method == "trapz":
            return [("trapz", ref_trapz(xs, basis))]
        if method == "simpson":
            r = [("simpson/first=trapz", ref_simpson(xs, basis, "trapz"))]
            if len(xs) >= 3:
                r.append(("simpson/first=parabola", ref_simpson(xs, basis, "parabola")))
            return r
        if bc == "default":
            return [("cspline/natural", ref_cspline(xs, basis, "natural")),
                    ("cspline/not-a-knot", ref_cspline(xs, basis, "not-a-knot"))]
        return [("cspline/" + bc, ref_cspline(xs, basis, bc))]
    return _cached(key, build)


# ------------------------------------------------------------------ one case

def run_large(cfg):
    """many batch rows x many samples (code paths selected by the size of the temporary product): all rows at
    once must equal the same rows handed over 37 at a time, the last cumulative value must equal integrate, and
    trapz must equal the closed-form cumulative trapezoid"""
    from xitorch.integrate import SQuad
    method, bc, n, rows = cfg["method"], cfg["bc"], cfg["nx"], cfg["rows"]
    x_t, xs = ic.grid(cfg["grid"], n, torch.float64, 0, 0)
    kw = {"method": method}
    if method == "cspline" and bc != "default":
        kw["bc_type"] = bc
    o = call(SQuad, x_t.clone(), **kw)
    if o.exc is not None:
        return {"viol": [V("exception:%s" % o.exc_sig, {"stage": "init"}, stage="init")], "obs": {}, "status": "raised"}
    sq = o.value
    r = torch.arange(rows, dtype=torch.float64).unsqueeze(-1)
    y = torch.cos((0.5 + 0.003 * r) * x_t) + 0.1 * (1.0 + 0.01 * r) * x_t * x_t       # (rows, n), all rows distinct
    if cfg["dim"] == 0:
        yy, dim = y.t().contiguous(), 0
    else:
        yy, dim = y, -1
    viol = []
    oc = call(sq.cumsum, yy, dim=dim)
    oi = call(sq.integrate, yy, dim=dim)
    if oc.exc is not None or oi.exc is not None:
        e = oc if oc.exc is not None else oi
        return {"viol": [V("exception:%s" % e.exc_sig, {"stage": "call"}, stage="call")], "obs": {}, "status": "raised"}
    cum = oc.value if dim == -1 else oc.value.t()
    integ = oi.value
    if tuple(cum.shape) != (rows, n) or tuple(integ.shape) != (rows,):
        return {"viol": [V("shape-mismatch:large", {"cumsum": list(oc.value.shape), "integrate": list(integ.shape)})],
                "obs": {}, "status": "violation"}
    parts = []
    for k in range(0, rows, 37):
        blk = y[k:k + 37]
        ob = call(sq.cumsum, blk.t().contiguous() if dim == 0 else blk, dim=dim)
        if ob.exc is not None:
            return {"viol": [V("exception:%s" % ob.exc_sig, {"stage": "call-block"}, stage="call")], "obs": {},
                    "status": "raised"}
        parts.append(ob.value if dim == -1 else ob.value.t())
    ref = torch.cat(parts, dim=0)
    scale = max(1.0, float(ref.abs().max()))
    e_blk = float((cum - ref).abs().max()) / scale
    e_last = float((cum[:, -1] - integ).abs().max()) / scale
    nzero = int((cum[:, 1:].abs().sum(-1) == 0).sum())
    if not e_blk <= 1e-11:
        viol.append(V("large-batch-differs-from-the-same-rows-in-blocks", {"relerr": e_blk, "all_zero_rows": nzero,
                                                                           "rows": rows, "nx": n}, op="cumsum"))
    if not e_last <= 1e-10:
        viol.append(V("integrate-differs-from-last-cumsum", {"relerr": e_last, "rows": rows, "nx": n}, op="integrate"))
    if method == "trapz":
        exp = ref_trapz(xs, y.numpy().T.copy()).T
        e_ref = float(np.abs(cum.numpy() - exp).max()) / scale
        if not e_ref <= 1e-11:
            viol.append(V("cumsum-mismatch", {"relerr": e_ref, "rows": rows, "nx": n}, op="cumsum"))
    return {"viol": viol, "obs": {"e_blk": rnd(e_blk, 2), "e_last": rnd(e_last, 2)}, "n": 3 + len(parts),
            "status": "violation" if viol else "ok"}


def run_case(cfg):
    from xitorch.integrate import SQuad
    if cfg.get("large"):
        return run_large(cfg)
    method, bc, n = cfg["method"], cfg["bc"], cfg["nx"]
    rank, dim, keepdim = cfg["rank"], cfg["dim"], bool(cfg["keepdim"])
    dtn = cfg["dtype"]
    dtype = ic.DTYPES[dtn]
    xgrad = bool(cfg["xgrad"])
    plane, seed = cfg.get("plane", 0), cfg.get("seed", 0)
    axis = dim % rank
    other = (OTHER1 if cfg.get("ones") else OTHER)[rank]
    S = int(np.prod(other)) if other else 1
    viol, seen = [], set()
    errs, obs = {}, {}
    nexec = 0

    def add(failure, detail=None, **at):
        k = (failure, at.get("op"))
        if k not in seen:
            seen.add(k)
            viol.append(V(failure, detail, **at))

    x_t, xs = ic.grid(cfg["grid"], n, dtype, seed, plane)
    tol = tolerance(dtn, xs)
    # the same grid in other units (exact scaling by a power of two, e.g. nanometres in metres): integrals are
    # covariant, so the results divided by the factor are judged against the references of the unscaled grid
    xscale = float(cfg.get("xscale", 1.0))
    if xscale != 1.0:
        x_t = x_t * xscale
    periodic_y = method == "cspline" and bc == "periodic"
    basis = ic.basis_np(n, periodic_y)
    nb = basis.shape[1]
    coef = ic.dense_coeffs(nb, seed, plane)
    vec = np.concatenate([np.zeros((n, 1)), basis, (basis @ coef)[:, None]], axis=1).T.copy()      # (nvec, n)
    nvec = nb + 2
    vec_t = torch.tensor(vec, dtype=torch.float64).to(dtype)
    coefs_all = np.concatenate([np.zeros((1, nb)), np.eye(nb), coef[None, :]], axis=0)

    kw = {"method": method}
    if method == "cspline" and bc != "default":
        kw["bc_type"] = bc
    keep = []
    if cfg.get("regrid"):
        # object history: an SQuad is built on a grid tensor, the SAME tensor object is then updated in place to the
        # grid of this case and a new SQuad is built on it (nothing may be remembered per tensor object)
        x0_t, _ = ic.grid("cheb" if cfg["grid"] != "cheb" else "uniform", n, dtype, seed, plane)
        xg = (x0_t * 1.7 + 0.3).clone()
        o0 = call(SQuad, xg, **kw)
        nexec += 1
        if o0.exc is None:
            keep.append(o0.value)
            y0 = torch.ones(n, dtype=dtype)
            call(o0.value.cumsum, y0)
        with torch.no_grad():
            xg.copy_(x_t)
    else:
        xg = x_t.clone()
    if xgrad:
        xg.requires_grad_()
    o = call(SQuad, xg, **kw)
    nexec += 1
    if o.exc is not None:
        add("exception:%s" % o.exc_sig, {"stage": "init"}, stage="init")
        return {"viol": viol, "obs": {"viol": [v["failure"][:60] for v in viol]}, "trivial": True, "n": nexec,
                "status": "raised"}
    sq = o.value
    if cfg.get("prior"):
        # earlier calls on the same object along other dimensions (first, middle) of tensors of other ranks:
        # nothing of them may survive into the judged calls
        for (shp, d0) in (((n, 3), 0), ((2, n, 3), 1), ((2, n, 3), -2), ((n,), 0)):
            yp = torch.ones(shp, dtype=dtype)
            if cfg["prior"] == "cumsum":
                call(sq.cumsum, yp, dim=d0)
            else:
                call(sq.integrate, yp, dim=d0, keepdim=(d0 == 1))
            nexec += 1

    def layout(block):
        """block: (S, m) tensor -> y of shape other with the sample axis inserted at `axis`"""
        m = block.shape[-1]
        return block.reshape(tuple(other) + (m,)).movedim(-1, axis).contiguous()

    def unlayout(t, m):
        return t.movedim(axis, -1).reshape(S, m)

    yshape = list(other)
    yshape.insert(axis, n)
    ishape = list(other)
    if keepdim:
        ishape.insert(axis, 1)

    cum = np.full((nvec, n), np.nan)
    integ = np.full(nvec, np.nan)
    ok_c = ok_i = True
    groups = []
    for k in range(0, nvec, S):
        idx = list(range(k, min(k + S, nvec)))
        while len(idx) < S:
            idx.append(nvec - 1)
        groups.append(idx)
    for gi, idx in enumerate(groups):
        y = layout(vec_t[torch.tensor(idx)])
        assert list(y.shape) == yshape
        variants = [("contig", y)]
        if gi == 0 and rank >= 2:
            # the same numbers in a different memory layout
            perm = list(range(rank))[::-1]
            variants.append(("strided", y.permute(perm).contiguous().permute(perm)))
        if gi == 0 and cfg.get("plane", 0) == 0:
            # the same numbers as samples of another dtype than the grid: complex (times 1 + 0.5j; cumsum and
            # integrate are linear in y) and, on a float32 grid, float64
            cdt = torch.complex128 if dtype == torch.float64 else torch.complex64
            variants.append(("cplx", y.to(cdt) * (1.0 + 0.5j)))
            if dtype == torch.float32:
                variants.append(("wide", y.to(torch.float64)))
        for vname, yy in variants:
            oc = call(sq.cumsum, yy, dim=dim)
            oi = call(sq.integrate, yy, dim=dim, keepdim=keepdim)
            nexec += 2
            for op, oo, want in (("cumsum", oc, yshape), ("integrate", oi, ishape)):
                if oo.exc is not None and vname in ("cplx", "wide"):
                    # samples of another dtype than the grid may be REJECTED (the spline classes do); only a result
                    # that is returned has to be right
                    obs["other_dtype_samples:" + vname] = "rejected"
                    continue
                if oo.exc is not None:
                    add("exception:%s" % oo.exc_sig, {"op": op}, op=op, stage="call")
                    if op == "cumsum":
                        ok_c = False
                    else:
                        ok_i = False
                    continue
                val = oo.value
                if not isinstance(val, torch.Tensor):
                    add("result-not-tensor", {"op": op}, op=op)
                    continue
                if list(val.shape) != want:
                    unit_only = [d for d in val.shape if d != 1] == [d for d in want if d != 1]
                    add("shape-mismatch:%s" % op, {"got": list(val.shape), "want": want, "y_shape": yshape,
                                                   "dim": dim, "keepdim": keepdim}, op=op,
                        kind="unit-axis" if unit_only else "axes-wrong")
                    if not unit_only:
                        # more than a spurious/missing size-1 axis: the values cannot be attributed to positions
                        if op == "cumsum":
                            ok_c = False
                        else:
                            ok_i = False
                        continue
                    val = val.reshape(want)
                if vname == "cplx":
                    if not val.is_complex():
                        add("complex-samples-give-real-result:%s" % op, {"got": str(val.dtype)}, op=op)
                        continue
                    val = val / (1.0 + 0.5j)
                    if float(val.imag.abs().max()) > tol * 3.0 if val.numel() else False:
                        add("not-linear-in-complex-samples:%s" % op, {"max_imag": float(val.imag.abs().max())}, op=op)
                    val = val.real
                elif vname == "wide":
                    if val.dtype != torch.float64:
                        add("dtype-mismatch:%s" % op, {"got": str(val.dtype), "samples": "float64", "grid": "float32"},
                            op=op)
                elif val.dtype != dtype:
                    add("dtype-mismatch:%s" % op, {"got": str(val.dtype)}, op=op)
                v64 = val.detach().to(torch.float64) / xscale
                if op == "cumsum":
                    flat = unlayout(v64, n).numpy()
                else:
                    flat = (v64 if keepdim else v64.unsqueeze(axis))
                    flat = unlayout(flat, 1).numpy()[:, 0]
                for s, vi in enumerate(idx):
                    tgt = cum if op == "cumsum" else integ
                    old = tgt[vi].copy() if op == "cumsum" else tgt[vi]
                    if np.all(np.isnan(old)):
                        tgt[vi] = flat[s]
                    elif not np.allclose(old, flat[s], rtol=0, atol=tol * 3.0, equal_nan=False):
                        add("depends-on-other-axes-or-layout:%s" % op, {"vector": int(vi), "variant": vname}, op=op)

    # ---- wrong length must be rejected
    for m in sorted({1, n - 1, n + 1} - {0, n}):          # 1 is the length that broadcasting would accept silently
        yb = layout(torch.ones((S, m), dtype=dtype))
        for op, fn in (("cumsum", lambda: sq.cumsum(yb, dim=dim)),
                       ("integrate", lambda: sq.integrate(yb, dim=dim, keepdim=keepdim))):
            oo = call(fn)
            nexec += 1
            if oo.exc is None:
                add("wrong-length-accepted:%s" % op, {"len": m, "nx": n, "result_shape": list(oo.value.shape)}, op=op)
    obs["rejects_wrong_length"] = not any(v["failure"].startswith("wrong-length") for v in viol)

    # ---- oracle
    refs = references(xs, method, bc, basis)
    if ok_c and not np.isnan(cum).any():
        best = None
        for label, W in refs:
            exp = coefs_all @ W.T                         # (nvec, n)
            scale = max(1.0, float(np.abs(exp).max()))
            e = float(np.abs(cum - exp).max()) / scale
            if best is None or e < best[0]:
                best = (e, label, exp, scale)
        e, label, exp, scale = best
        free_ok = False
        if not e <= tol and method == "cspline" and n == 3 and bc in ("default", "not-a-knot"):
            free_ok = _single_cubic_family(xs, basis, cum, nb, tol)
            obs["three_point_family_member"] = free_ok
        errs["cumsum"] = e
        obs["matched"] = label
        if not e <= tol and not free_ok:
            d = np.abs(cum - exp)
            vi, i = np.unravel_index(int(np.argmax(d)), d.shape)
            add("cumsum-weights-mismatch:%s" % method, {"err": e, "tol": tol, "ref": refs[0][0], "vector": int(vi),
                                                        "position": int(i), "got": float(cum[vi, i]),
                                                        "want": float(exp[vi, i])}, op="cumsum", position=int(i))
        e0 = float(np.abs(cum[:, 0]).max()) / scale
        errs["first"] = e0
        if not e0 <= tol:
            add("cumsum-first-entry-nonzero", {"err": e0, "tol": tol}, op="cumsum")
        Wi = cum[1:1 + nb] - cum[0][None, :]
        el = float(np.abs(coef @ Wi + cum[0] - cum[nvec - 1]).max()) / scale
        errs["linear"] = el
        if not el <= tol:
            add("nonlinear-in-y:cumsum", {"err": el, "tol": tol}, op="cumsum")
        ez = float(np.abs(cum[0]).max())
        if not ez <= tol:
            add("zero-samples-nonzero-integral", {"err": ez}, op="cumsum")
        if ok_i and not np.isnan(integ).any():
            ei = float(np.abs(integ - cum[:, -1]).max()) / scale
            errs["last_vs_integrate"] = ei
            if not ei <= tol:
                add("integrate-differs-from-last-cumsum", {"err": ei, "tol": tol}, op="integrate")
    if ok_i and not np.isnan(integ).any():
        best = None
        for label, W in refs:
            exp = coefs_all @ W[-1]
            scale = max(1.0, float(np.abs(exp).max()))
            e = float(np.abs(integ - exp).max()) / scale
            if best is None or e < best[0]:
                best = (e, label)
        errs["integrate"] = best[0]
        if not best[0] <= tol and not obs.get("three_point_family_member"):
            add("integrate-weights-mismatch:%s" % method, {"err": best[0], "tol": tol, "ref": best[1]}, op="integrate")
        el = float(abs(coef @ (integ[1:1 + nb] - integ[0]) + integ[0] - integ[nvec - 1]))
        if not el <= tol * max(1.0, float(np.abs(integ).max())):
            add("nonlinear-in-y:integrate", {"err": el, "tol": tol}, op="integrate")

    obs["err"] = {k: (float("%.1e" % v) if v == v else "nan") for k, v in errs.items()}
    obs["viol"] = sorted(v["failure"][:60] for v in viol)
    return {"viol": viol, "obs": obs, "n": nexec, "trivial": False, "status": "ok" if not viol else "violation"}


def _single_cubic_family(xs, basis, cum, nb, tol):
    """3 points, not-a-knot: both end conditions say 'one cubic on both intervals', which leaves one free parameter.
    The running integral of a single cubic p through the three samples satisfies, for every member of the family,
    a fixed linear relation: with q = the parabola through the samples, p = q + c (x-x0)(x-x1)(x-x2), so
    cum[1] - Q[1] and cum[2] - Q[2] must be in the ratio of the integrals of the cubic bubble."""
    Wi = cum[1:1 + nb] - cum[0][None, :]                 # (nb, 3)
    Q = ref_cspline(xs, basis, "not-a-knot").T           # scipy's member = the parabola; (nb, 3)
    t = xs - xs[0]
    bub = np.poly(t)                                     # (x-x0)(x-x1)(x-x2), shifted
    P = np.polyint(bub)
    I1, I2 = np.polyval(P, t[1]), np.polyval(P, t[2])
    d = Wi - Q
    # d[:, 1] = c * I1, d[:, 2] = c * I2  for some c per column
    resid = np.abs(d[:, 1] * I2 - d[:, 2] * I1).max() / max(abs(I1), abs(I2), 1e-300)
    return bool(resid <= tol * 10 and np.abs(d[:, 0]).max() <= tol)

# ---- call-order plane (executed by mc/core.py in fresh interpreters, see mc/props/_hist_common.py): the result of
# a call must not depend on which other calls (other dtype / method / size / options) were made before it
_HIST_LABELS = [('float32', 'trapz', 0), ('float64', 'trapz', 0), ('float64', 'trapz', 1), ('float64', 'simpson', 1), ('float64', 'cspline', 0), ('float32', 'cspline', 1)]
HISTORY = {"labels": ["/".join(str(x) for x in c) for c in _HIST_LABELS], "tol": [0.0001, 1e-12, 1e-12, 1e-12, 1e-12, 0.0001],
           "depth": {"quick": 2, "thorough": 3},
           "prelude": r'''import torch, xitorch
from xitorch.integrate import SQuad
CALLS = %r
def do(i):
    dtn, method, grid = CALLS[i]
    dt = getattr(torch, dtn)
    x = torch.linspace(0.0, 2.0, 7, dtype=dt) if grid == 0 else torch.tensor([0.0, 0.2, 0.5, 1.1, 1.3, 1.8, 2.0], dtype=dt)
    y = torch.sin(2.0 * x) + 0.3 * x
    sq = SQuad(x, method=method)
    return torch.cat([sq.cumsum(y).reshape(-1), sq.integrate(y).reshape(-1)]).double().tolist()
''' % (_HIST_LABELS,)}
