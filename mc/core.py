"""Common runner for all property checks (engines E1 + E6 of DESIGN.md).

A property module (mc/props/cNN.py) defines

    ID, LEVEL, RULE, ASSUMPTIONS, DESIGN_REF
    cases(tier, seed)  -> iterable of JSON-able cfg dicts (canonical order, simplest first)
    run_case(cfg)      -> dict with keys
         viol:     list of {"failure": str, "detail": json, "at": {..}}   (may be empty)
         obs:      JSON-able observation of this execution (hashed for distinctness)
         trivial:  bool (default False)
         status:   short string for the verdict histogram (default "ok")
         n:        number of executions of the implementation inside this case (default 1)
         states / transitions: optional ints (explicit-state searches)

run_case must catch library exceptions itself and classify them.  An exception
escaping run_case is a *harness error* (exit 2), never a violation.
"""
from __future__ import annotations
import os
import sys
import json
import time
import hashlib
import io
import contextlib
import warnings
import traceback
import signal
import importlib
import multiprocessing as mp

VERIF = os.path.dirname(os.path.dirname(os.path.abspath(__file__)))
FINDINGS_FILE = os.path.join(VERIF, "known_findings.txt")
# evidence/replays of runs against another copy of the repository (mutation experiments) never overwrite
# the evidence of /repo
_REPO = os.environ.get("XITORCH_REPO", "/repo")
OUT = os.environ.get("VERIF_OUT") or (VERIF if os.path.realpath(_REPO) == "/repo" else "/var/tmp/xv-out")
# per-case alarm: generous (the longest case, a breadth-first protocol search of C10 in the thorough tier, takes
# ~6 minutes on an idle core and several times that on a loaded machine); a case that hits it is a harness error
CASE_TIMEOUT_S = int(os.environ.get("VERIF_CASE_TIMEOUT", "900"))       # thorough tier: 3600 (set in run_property)


def jhash(obj) -> str:
    return hashlib.sha1(json.dumps(obj, sort_keys=True, default=str).encode()).hexdigest()[:16]


class CaseTimeout(BaseException):
    """raised by the per-case alarm.  Not an Exception: neither the library nor a harness `call()` may swallow it
    and report it as a behaviour of the library"""


def _alarm(signum, frame):
    raise CaseTimeout()


_MOD = None


def _init_worker(modname):
    global _MOD
    import torch
    torch.set_num_threads(1)
    _MOD = importlib.import_module(modname)
    warnings.simplefilter("ignore")


def _run_one(args):
    idx, cfg = args
    t0 = time.time()
    out = io.StringIO()
    try:
        signal.signal(signal.SIGALRM, _alarm)
        signal.alarm(CASE_TIMEOUT_S)
        try:
            with contextlib.redirect_stdout(out):
                with warnings.catch_warnings():
                    warnings.simplefilter("ignore")
                    if isinstance(cfg, dict) and cfg.get("kind") == "callorder":
                        # call-order plane declared by the module (HISTORY): executed in fresh interpreters
                        from mc.props import _hist_common as H
                        hd = _MOD.HISTORY
                        res = H.run_history(_MOD.ID, hd["prelude"], hd["labels"], cfg["seq"], hd["tol"],
                                            sym=bool(cfg.get("sym")))
                    else:
                        res = _MOD.run_case(cfg)
        finally:
            signal.alarm(0)
        if not isinstance(res, dict):
            raise TypeError("run_case returned %r" % type(res))
        res.setdefault("viol", [])
        res.setdefault("obs", None)
        res.setdefault("trivial", False)
        res.setdefault("status", "ok")
        res.setdefault("n", 1)
    except CaseTimeout:
        res = {"harness_error": "timeout after %ds" % CASE_TIMEOUT_S, "viol": [], "obs": None,
               "trivial": True, "status": "harness_error", "n": 0}
    except Exception:
        res = {"harness_error": traceback.format_exc(), "viol": [], "obs": None,
               "trivial": True, "status": "harness_error", "n": 0}
    res["idx"] = idx
    res["cfg"] = cfg
    res["t"] = time.time() - t0
    res["obs_hash"] = jhash(res.get("obs"))
    # do not ship big observations back
    if len(json.dumps(res.get("obs"), default=str)) > 2000:
        res["obs"] = {"hash": res["obs_hash"]}
    return res


# ---------------------------------------------------------------- findings

def load_findings(prop_id):
    """Open findings for this property.  Lines starting with 'fixed:' or '#' suppress nothing."""
    entries = []
    if not os.path.exists(FINDINGS_FILE):
        return entries
    for line in open(FINDINGS_FILE):
        line = line.strip()
        if not line or line.startswith("#") or line.startswith("fixed:"):
            continue
        e = json.loads(line)
        if e.get("property") == prop_id and e.get("status", "open") == "open":
            entries.append(e)
    return entries


def _match_entry(entry, cfg_at, failure):
    for k, v in entry.get("match", {}).items():
        if k not in cfg_at:
            return False
        vals = v if isinstance(v, list) else [v]
        if cfg_at[k] not in vals and str(cfg_at[k]) not in [str(x) for x in vals]:
            return False
    pref = entry.get("failure", "")
    prefs = pref if isinstance(pref, list) else [pref]
    return any(failure.startswith(p) for p in prefs)


# ---------------------------------------------------------------- main driver

def run_property(modname, tier, seed, replay=None, workers=None):
    mod = importlib.import_module(modname)
    pid = mod.ID
    t_start = time.time()
    if workers is None:
        workers = int(os.environ.get("VERIF_WORKERS", str(min(16, os.cpu_count() or 1))))

    if replay is not None:
        return _replay(mod, modname, replay)

    global CASE_TIMEOUT_S
    if "VERIF_CASE_TIMEOUT" not in os.environ:
        CASE_TIMEOUT_S = 900 if tier == "quick" else 3600      # inherited by the forked workers
    case_list = list(mod.cases(tier, seed))
    hd = getattr(mod, "HISTORY", None)
    if hd:
        from mc.props import _hist_common as H
        depth = hd.get("depth", {}).get(tier, 2)
        H.spread(case_list, H.hist_cases(len(hd["labels"]), depth, tag="callorder"))
    n_cases = len(case_list)
    if n_cases == 0:
        print("HARNESS-ERROR: no cases enumerated")
        return 2

    # ---- determinism self-test: first cases executed twice in this process, compared with worker result
    _init_worker(modname)
    n_self = min(getattr(mod, "SELFTEST_N", 2), n_cases)
    self_idx = list(range(n_self))
    selfres = {}
    for i in self_idx:
        a = _run_one((i, case_list[i]))
        b = _run_one((i, case_list[i]))
        if a.get("harness_error") or b.get("harness_error"):
            print("HARNESS-ERROR: self-test case %d: %s" % (i, a.get("harness_error") or b.get("harness_error")))
            return 2
        if a["obs_hash"] != b["obs_hash"]:
            print("HARNESS-ERROR: nondeterministic observation on case %d: %s" % (i, json.dumps(case_list[i])))
            return 2
        selfres[i] = a["obs_hash"]

    budget = getattr(mod, "BUDGET_S", {}).get(tier)
    results = []
    ctx = mp.get_context("fork")
    chunks = max(1, min(64, n_cases // (workers * 8) or 1))
    capped = False
    with ctx.Pool(workers, initializer=_init_worker, initargs=(modname,)) as pool:
        it = pool.imap_unordered(_run_one, list(enumerate(case_list)), chunksize=chunks)
        for r in it:
            results.append(r)
            if budget and time.time() - t_start > budget:
                capped = True
                pool.terminate()
                break
    results.sort(key=lambda r: r["idx"])

    for i, h in selfres.items():
        rr = [r for r in results if r["idx"] == i]
        if rr and rr[0]["obs_hash"] != h and not rr[0].get("harness_error"):
            print("HARNESS-ERROR: worker and parent disagree on case %d" % i)
            return 2

    return _report(mod, tier, seed, case_list, results, capped, time.time() - t_start)


def _report(mod, tier, seed, case_list, results, capped, wall):
    pid = mod.ID
    findings = load_findings(pid)
    harness_errors = [r for r in results if r.get("harness_error")]
    hist = {}
    n_exec = 0
    states = 0
    transitions = 0
    distinct = set()
    viols = []          # (cfg_at, failure, detail, cfg)
    for r in results:
        hist[r["status"]] = hist.get(r["status"], 0) + 1
        n_exec += r.get("n", 1)
        states += r.get("states", 0)
        transitions += r.get("transitions", 0)
        if not r.get("trivial"):
            distinct.add(r["obs_hash"])
        for v in r["viol"]:
            cfg_at = dict(r["cfg"])
            cfg_at.update(v.get("at", {}))
            viols.append((cfg_at, v["failure"], v.get("detail"), r["cfg"], v.get("at", {})))

    known_hit = {}
    unknown = []
    for (cfg_at, failure, detail, cfg, at) in viols:
        hit = None
        for e in findings:
            if _match_entry(e, cfg_at, failure):
                hit = e
                break
        if hit is not None:
            known_hit.setdefault(hit["what"], 0)
            known_hit[hit["what"]] += 1
        else:
            unknown.append((cfg_at, failure, detail, cfg, at))

    # write replays for unknown violations, dedupe on failure class
    lines = []
    seen_fail = {}
    rdir = os.path.join(OUT, "replays", pid)
    for (cfg_at, failure, detail, cfg, at) in unknown:
        key = failure
        seen_fail.setdefault(key, 0)
        seen_fail[key] += 1
        if seen_fail[key] > 3 or len(lines) >= 20:
            continue
        os.makedirs(rdir, exist_ok=True)
        rec = {"property": pid, "cfg": cfg, "at": at, "failure": failure, "detail": detail}
        path = os.path.join(rdir, jhash(rec) + ".json")
        with open(path, "w") as f:
            json.dump(rec, f, indent=1, default=str)
        lines.append("VIOLATION property=%s replay=%s  # %s" % (pid, path, failure[:160]))

    for what, cnt in known_hit.items():
        print("KNOWN-FINDING: property=%s %s  (hit %d times)" % (pid, what, cnt))
    stale = [e["what"] for e in findings if e["what"] not in known_hit]
    for ln in lines:
        print(ln)

    samples = []
    step = max(1, len(results) // 5)
    for r in results[::step][:6]:
        samples.append({"cfg": r["cfg"], "status": r["status"], "obs": r.get("obs")})
    if not samples:
        samples = [{"cfg": case_list[0]}]

    level = mod.LEVEL
    cov = {
        "evaluations": int(n_exec),
        "cases": len(results),
        "cases_enumerated": len(case_list),
        "distinct_nontrivial": len(distinct),
        "rule": mod.RULE + ("  " + mod.RULE_ADDED if getattr(mod, "RULE_ADDED", None) else ""),
        "samples": samples,
        "exhaustive": (not capped) and len(results) == len(case_list) and not harness_errors,
        "verdict_histogram": hist,
        "known_findings_hit": known_hit,
        "stale_findings": stale,
        "unknown_violation_classes": {k: v for k, v in list(seen_fail.items())[:50]},
    }
    if level == "model_checking":
        cov["states"] = int(states) if states else int(n_exec)
        cov["transitions"] = int(transitions) if transitions else int(n_exec)
        cov["traces_validated_against_impl"] = int(n_exec)
    if capped:
        cov["cap"] = "wall-clock budget hit; %d of %d cases completed" % (len(results), len(case_list))
    co = [r for r in results if isinstance(r["cfg"], dict) and r["cfg"].get("kind") == "callorder"]
    if co:
        cov["call_order_plane"] = {"sequences_in_fresh_interpreters": len(co),
                                   "calls": list(getattr(mod, "HISTORY", {}).get("labels", [])),
                                   "interpreter_runs": int(sum(r.get("n", 0) for r in co))}
    extra = getattr(mod, "coverage_extra", None)
    if extra:
        try:
            cov.update(extra(tier, seed, [r for r in results if r not in co]))
        except Exception:
            cov["coverage_extra_error"] = traceback.format_exc()
    ev = {
        "property_id": pid, "tier": tier, "seed": int(seed), "level": level,
        "coverage": cov, "assumptions": list(getattr(mod, "ASSUMPTIONS", [])),
        "wall_s": round(wall, 2), "violations": len(unknown),
    }
    os.makedirs(os.path.join(OUT, "evidence"), exist_ok=True)
    with open(os.path.join(OUT, "evidence", pid + ".json"), "w") as f:
        json.dump(ev, f, indent=1, default=str)

    print("%s tier=%s seed=%s cases=%d/%d executions=%d distinct_nontrivial=%d violations=%d known=%d wall=%.1fs hist=%s" % (
        pid, tier, seed, len(results), len(case_list), n_exec, len(distinct), len(unknown),
        sum(known_hit.values()), wall, json.dumps(hist)))
    if harness_errors:
        print("HARNESS-ERROR: %d cases failed inside the harness; first:\n%s" % (
            len(harness_errors), harness_errors[0]["harness_error"]))
        print("  cfg:", json.dumps(harness_errors[0]["cfg"]))
        return 1 if unknown else 2
    return 1 if unknown else 0


def _replay(mod, modname, path):
    rec = json.load(open(path))
    _init_worker(modname)
    r = _run_one((0, rec["cfg"]))
    if r.get("harness_error"):
        print("HARNESS-ERROR:", r["harness_error"])
        return 2
    print("replay cfg:", json.dumps(rec["cfg"]))
    print("recorded failure:", rec["failure"])
    same = False
    for v in r["viol"]:
        print("  violation:", v["failure"])
        print("     at:", json.dumps(v.get("at", {}), default=str))
        print("     detail:", json.dumps(v.get("detail"), default=str)[:2000])
        if v["failure"] == rec["failure"]:
            same = True
    if not r["viol"]:
        print("  no violation reproduced (status=%s)" % r["status"])
        return 0
    print("VIOLATION property=%s replay=%s%s" % (mod.ID, path, "" if same else "  # different failure class"))
    return 1
