import argparse
import os
import sys


def main():
    ap = argparse.ArgumentParser()
    ap.add_argument("prop")
    ap.add_argument("--tier", default="quick", choices=["quick", "thorough"])
    ap.add_argument("--replay", default=None)
    ap.add_argument("--workers", type=int, default=None)
    a = ap.parse_args()
    tier = os.environ.get("VERIF_TIER") or a.tier
    if tier not in ("quick", "thorough"):
        tier = a.tier
    try:
        seed = int(os.environ.get("VERIF_SEED", "0"))
    except ValueError:
        seed = 0
    import torch
    torch.set_num_threads(1)
    from mc import core
    pid = a.prop.upper()
    rc = core.run_property("mc.props.%s" % pid.lower(), tier, seed, replay=a.replay, workers=a.workers)
    sys.exit(rc)


if __name__ == "__main__":
    main()
