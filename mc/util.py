"""Small shared helpers for property modules.  Keep boring."""
from __future__ import annotations
import os
import warnings
import contextlib
import io
import math
import torch


def V(failure, detail=None, **at):
    """build one violation record.  `at` = extra matching dimensions (merged into cfg for known-finding matching)"""
    return {"failure": str(failure), "detail": detail, "at": at}


class Outcome:
    """result of calling into the library once"""
    __slots__ = ("value", "exc", "warned", "warnings")

    def __init__(self):
        self.value = None
        self.exc = None
        self.warned = False
        self.warnings = []

    @property
    def exc_sig(self):
        if self.exc is None:
            return None
        msg = str(self.exc).strip().split("\n")[0][:80]
        return "%s:%s" % (type(self.exc).__name__, msg)


def is_convergence_warning(w) -> bool:
    """ConvergenceWarning, or a plain warning whose text says it did not converge (gd/adam use warnings.warn)"""
    try:
        from xitorch._utils.exceptions import ConvergenceWarning
        if issubclass(w.category, ConvergenceWarning):
            return True
    except Exception:
        pass
    txt = str(w.message).lower()
    return "converge" in txt


class HarnessBaseFault(BaseException):
    """base of faults injected by a harness that do NOT derive from Exception (the shape of KeyboardInterrupt /
    SystemExit / GeneratorExit): `call` treats them as data like any other exception"""


def call(fn, *a, **k) -> Outcome:
    """run fn capturing exceptions, stdout and warnings (always-filter)"""
    o = Outcome()
    with warnings.catch_warnings(record=True) as ws:
        warnings.simplefilter("always")
        try:
            with contextlib.redirect_stdout(io.StringIO()):
                o.value = fn(*a, **k)
        except (Exception, HarnessBaseFault) as e:  # library exceptions are data, not harness errors
            o.exc = e
    o.warnings = [(w.category.__name__, str(w.message)[:120]) for w in ws]
    o.warned = any(is_convergence_warning(w) for w in ws)
    return o


def gen(seed):
    g = torch.Generator()
    g.manual_seed(int(seed) + 1000003)
    return g


def randn(shape, dtype=torch.float64, g=None):
    if dtype.is_complex:
        rd = torch.float64 if dtype == torch.complex128 else torch.float32
        return torch.complex(torch.randn(shape, dtype=rd, generator=g), torch.randn(shape, dtype=rd, generator=g))
    return torch.randn(shape, dtype=dtype, generator=g)


def orth(n, dtype=torch.float64, g=None, batch=()):
    """unitary Q from QR of a fixed generator stream"""
    q, _ = torch.linalg.qr(randn(tuple(batch) + (n, n), dtype, g))
    return q


def herm_from_spectrum(lam, dtype=torch.float64, g=None, batch=()):
    """Q diag(lam) Q^H ; lam real 1-D tensor"""
    n = lam.shape[-1]
    q = orth(n, dtype, g, batch)
    return (q * lam.to(dtype)) @ q.transpose(-2, -1).conj()


def spd(n, kappa=3.0, dtype=torch.float64, g=None, batch=()):
    lam = torch.linspace(1.0, float(kappa), n, dtype=torch.float64) if n > 1 else torch.tensor([1.5], dtype=torch.float64)
    return herm_from_spectrum(lam, dtype, g, batch)


def relerr(a, b):
    a = torch.as_tensor(a)
    b = torch.as_tensor(b)
    if a.shape != b.shape:
        return float("inf")
    if a.numel() == 0:
        return 0.0
    d = (a - b).abs().max().item()
    s = max(b.abs().max().item(), 1e-300)
    if math.isnan(d):
        return float("inf")
    return d / max(s, 1.0) if s < 1.0 else d / s


def abserr(a, b):
    a = torch.as_tensor(a)
    b = torch.as_tensor(b)
    if a.shape != b.shape:
        return float("inf")
    if a.numel() == 0:
        return 0.0
    d = (a - b).abs().max().item()
    return float("inf") if math.isnan(d) else d


def rnd(x, nd=6):
    """round floats/tensors for observations (hash stability across BLAS noise)"""
    if isinstance(x, torch.Tensor):
        x = x.detach()
        if x.is_complex():
            x = torch.view_as_real(x)
        return [float("%.*g" % (nd, v)) for v in x.reshape(-1).tolist()][:32]
    if isinstance(x, float):
        return float("%.*g" % (nd, x))
    return x


def fresh_python(code, timeout=300):
    """run `code` in a FRESH interpreter (pristine module-level state of the library: caches, class flags, debug
    flag) with this process' environment; the code prints one JSON document as its last stdout line.
    Returns (obj, None) or (None, error text).  Used for call-order (history) explorations, where a state left
    behind by an earlier call of the same process is exactly what is being looked for."""
    import json
    import subprocess
    import sys
    env = dict(os.environ, OMP_NUM_THREADS="1", MKL_NUM_THREADS="1", PYTHONHASHSEED="0")
    p = subprocess.run([sys.executable, "-W", "ignore", "-c", code], env=env, stdout=subprocess.PIPE,
                       stderr=subprocess.PIPE, text=True, timeout=timeout)
    if p.returncode != 0:
        return None, "exit %d: %s" % (p.returncode, p.stderr.strip().split("\n")[-1][:300])
    lines = [l for l in p.stdout.strip().split("\n") if l.strip()]
    if not lines:
        return None, "no output"
    try:
        return json.loads(lines[-1]), None
    except Exception as e:       # noqa
        return None, "unparsable output: %s" % lines[-1][:200]
