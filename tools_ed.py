"""usage: ed.py FILE  (reads python literal pairs from stdin: list of (old,new)); preserves CRLF"""
import sys, ast
p = sys.argv[1]
pairs = ast.literal_eval(sys.stdin.read())
b = open(p, 'rb').read()
crlf = b'\r\n' in b
for old, new in pairs:
    o = old.encode(); n = new.encode()
    if crlf:
        o = o.replace(b'\r\n', b'\n').replace(b'\n', b'\r\n'); n = n.replace(b'\r\n', b'\n').replace(b'\n', b'\r\n')
    assert b.count(o) == 1, (b.count(o), old)
    b = b.replace(o, n)
open(p, 'wb').write(b)
